"""
C12 bounded tier: IndexedAssembly.find_overlaps against a literal scan of the scaffold.

Oracle (from the statement): lay the rows out base by base on scaffold coordinates 1..total, keep the rows
whose span shares at least one base with the query [a, b], drop gap rows from both ends of that run;
nothing left -> None, else (rows, span start of the first kept row, span end of the last kept row).

The statement quantifies over ALL scaffolds and Python coordinates are unbounded, so besides the small-scope
enumeration there is a family of scaffolds with huge coordinates, built from a handful of rows whose lengths sit
around the widths of machine integers and of the float mantissa (2**31, 2**32, 2**53, 2**63, 2**64, 10**30); the
oracle for those is the interval form of the same scan (pure arithmetic on the row spans, no base is enumerated).
A scaffold that cannot even be indexed is a failure: no query on it can be answered.

"Gap rows" are ALL gap rows: the statement makes no difference between kinds of gap, so a row is a gap row whatever
its gap_type says (the AGP 2.x types scaffold, contig, centromere, telomere, short_arm, heterochromatin, repeat,
contamination; the AGP 1.1 types clone and fragment; what the TPF parser passes through lower-cased: type_1,
biological, ...; an unknown word, another spelling, the empty string), whatever its length, and also when it is an
instance of a subclass of Gap.  A row kind is ("G", length), ("G", length, gap_type) or ("G", length, gap_type,
"subclass"); without a type the row gets "scaffold" / "contig" by position as before.  The typed family: every
scaffold of 1..4 rows (thorough 5) over gaps and fragments of length 1..2 with at least one gap x assignments of
gap types to its gaps (every type for all gaps at once, mixtures of several types in one scaffold, one gap an
instance of a subclass) x every query; chromosome-like scaffolds (telomere, contigs, centromere, spacer gaps of 100
and 200, heterochromatin, telomere - row lengths up to millions) x all pairs of boundary points; thorough: seeded
scaffolds of 1..12 rows with gap types and lengths drawn at random.

The statement holds for EVERY lookup, not only for the first one on a freshly indexed scaffold, and whatever the
caller has done with the results it was handed before (an OverlapResult is a working object: BuildAssembly pops rows
off its ends, swaps rows for cut pieces and moves start / end).  So there are *sessions*: several lookups on one
IndexedAssembly - the same interval again (same bait object, an equal one, one of another strand or with other tags),
neighbouring intervals over the same rows, other intervals - with edits of earlier results in between.  Every lookup
of a session is judged against the scan of the scaffold as it was indexed; a result must be a fresh object which
shares its row list with no earlier result and not with the scaffold, editing one result must leave the others as
they were returned, and the scaffold itself must keep its rows.

And the statement speaks of every scaffold handed to an IndexedAssembly - also one that has been in an IndexedAssembly
before.  Scaffold objects are working objects as well (add_row / append_scaffold is how every scaffold of the package
is built; rows are inserted, dropped and swapped in place), and Assembly / new_from_assembly share them between
assemblies.  So there are *re-indexing sessions*: ONE Scaffold object is indexed, edited, and indexed again in a fresh
IndexedAssembly (2-5 generations; by the constructor, new_from_assembly and add_scaffold), and after every indexing the
new assembly answers every query as the scan of the rows the scaffold had when it was handed to THAT assembly says.
Assemblies of earlier generations are asked again as long as the scaffold has only grown since (queries up to the
end it had at their indexing: for those the scaffold they indexed and the scaffold as it is now agree).
"""

import itertools
import random
import types

from tola.assembly.assembly import Assembly
from tola.assembly.fragment import Fragment
from tola.assembly.gap import Gap
from tola.assembly.indexed_assembly import IndexedAssembly
from tola.assembly.scaffold import Scaffold

from .common import Collector

# row kinds: ("G", length) or ("F", length)
ROW_KINDS = [("G", 1), ("G", 2), ("G", 3), ("F", 1), ("F", 2), ("F", 3)]


# row lengths around the limits of fixed-width number representations (signed/unsigned 32 and 64 bit, the 53-bit
# float mantissa, well beyond any machine word)
HUGE = sorted(
    {2**k + d for k in (31, 32, 53, 63, 64) for d in (-1, 0, 1)} | {2**40, 5 * 10**9, 2**62 + 12345, 2**100 + 7, 10**30 + 1}
)


def huge_shapes(L):
    """a handful of scaffolds around one huge row length L (totals just below / at / above L, 2L, ...)"""
    return [
        (("F", L),),
        (("G", L),),
        (("F", L - 1), ("F", 1)),
        (("F", 1), ("F", L - 1), ("F", 1)),
        (("F", 1), ("G", L), ("F", 2)),
        (("G", 2), ("F", L), ("G", 1)),
        (("F", L), ("F", L)),
        (("F", 1), ("G", 1), ("F", L), ("G", L), ("F", 3), ("G", 2)),
    ]


# what a gap row may call itself: AGP 2.x, AGP 1.1, what parse_tpf hands through, unknown words, other spellings, nothing
GAP_TYPES = (
    "scaffold", "contig", "centromere", "telomere", "short_arm", "heterochromatin", "repeat", "contamination",
    "clone", "fragment", "type_1", "biological", "unknown", "Scaffold", "",
)
TYPED_KINDS = [("G", 1), ("G", 2), ("F", 1), ("F", 2)]


class FeatureGap(Gap):
    """a gap row of a subclass: still a gap row"""

    __slots__ = ()


def typed_scaffolds(tier):
    """
    every scaffold of 1..4 (thorough: 1..5) rows over TYPED_KINDS that has a gap row, with gap types given to its gaps:
    up to 3 rows (thorough 4): each type of GAP_TYPES for all gaps at once; thorough, two gaps: every ordered pair of
    types; else mixtures - gap j gets type number c + j * step (step 1, 4, 7; c the running number of the scaffold), so
    that over the scaffolds every type stands first, last, alone and between any other; and one assignment where one
    gap is an instance of a subclass of Gap.  Longer scaffolds: one uniform type and two mixtures each, rotating.
    """
    quick = tier == "quick"
    T = len(GAP_TYPES)
    c = 0
    for n in range(1, (4 if quick else 5) + 1):
        full = n <= (3 if quick else 4)
        for shape in itertools.product(TYPED_KINDS, repeat=n):
            gaps = [i for i, k in enumerate(shape) if k[0] == "G"]
            if not gaps:
                continue
            c += 1
            g = len(gaps)
            assigned = [[t] * g for t in GAP_TYPES] if full else [[GAP_TYPES[c % T]] * g]
            if g == 2 and full and not quick:
                assigned += [[t, u] for t in GAP_TYPES for u in GAP_TYPES if t != u]
            elif g >= 2 or not full:
                assigned += [[GAP_TYPES[(c + j * step) % T] for j in range(g)] for step in ((1, 4, 7) if full else (1, 7))]
            for types in assigned:
                kinds = list(shape)
                for i, t in zip(gaps, types):
                    kinds[i] = (*shape[i], t)
                yield tuple(kinds)
            if full:
                kinds = list(shape)
                for j, i in enumerate(gaps):
                    t = GAP_TYPES[(c + 2 * j) % T]
                    kinds[i] = (*shape[i], t, "subclass") if j == c % g else (*shape[i], t)
                yield tuple(kinds)


def chromosome_scaffolds():
    """chromosome-like scaffolds: feature gaps at the ends and inside, spacer gaps of 100 / 200, rows from 1 bp to millions"""
    yield (
        ("G", 10_000, "telomere"), ("F", 5_000), ("G", 3_000_000, "centromere"), ("G", 200, "scaffold"), ("F", 1), ("G", 100, "contig"),
        ("F", 7_000), ("G", 50_000, "heterochromatin"), ("F", 3), ("G", 10_000, "telomere"),
    )
    yield (("G", 100, "short_arm"), ("G", 200, "scaffold"), ("F", 40_000), ("G", 1, "repeat"), ("G", 200, "contamination"), ("F", 2), ("G", 200, "scaffold"), ("G", 100, "telomere"))
    for t in GAP_TYPES:
        yield (("G", 200, t), ("F", 1_000), ("G", 200, t), ("G", 100, "contig"), ("F", 1), ("G", 200, t))
        yield (("F", 30), ("G", 100, t), ("F", 30), ("G", 200, "scaffold"), ("G", 5_000, t))
    yield (("G", 200, "centromere", "subclass"), ("F", 9), ("G", 200, "scaffold", "subclass"), ("F", 9), ("G", 100, "contig", "subclass"))


def boundary_points(spans):
    total = spans[-1][1]
    pts = {1, 2, total, total + 1, total + 2}
    for s, e in spans:
        pts.update(v + d for v in (s, e) for d in (-1, 0, 1))
        pts.add((s + e) // 2)
    return sorted(p for p in pts if p >= 1)


def try_build(kinds):
    """build(kinds), or (None, message) when the scaffold cannot be built or indexed"""
    try:
        return build(kinds), None
    except Exception as e:
        return None, (
            f"indexing a scaffold with rows {kinds} (total length {sum(k[1] for k in kinds)}) raised "
            f"{type(e).__name__}: {e} - no query on this scaffold can be answered"
        )


def build(kinds):
    """list of (kind, length[, gap type[, "subclass"]]) -> (Scaffold, [is_gap,...], [(span_start, span_end), ...], IndexedAssembly)"""
    rows = []
    for i, (k, n, *more) in enumerate(kinds):
        if k == "G":
            cls = FeatureGap if more[1:] == ["subclass"] else Gap
            rows.append(cls(n, more[0] if more else "scaffold" if i % 2 else "contig"))
        else:
            # distinct contig names, contig coordinates unrelated to scaffold coordinates
            rows.append(Fragment(f"c{i}", 10 * i + 5, 10 * i + 4 + n, (1, -1, 0)[i % 3]))
    spans = []
    p = 0
    for _, n, *_ in kinds:
        spans.append((p + 1, p + n))
        p += n
    scf = Scaffold("scf", rows)
    return scf, [k[0] == "G" for k in kinds], spans, IndexedAssembly("asm", scaffolds=[scf])


def expected(is_gap, spans, a, b):
    if spans[-1][1] <= 1000:
        q = set(range(a, b + 1))
        hit = [i for i, (s, e) in enumerate(spans) if q & set(range(s, e + 1))]
    else:  # long rows (random part of the thorough tier): interval form of the same thing
        hit = [i for i, (s, e) in enumerate(spans) if s <= b and a <= e]
    while hit and is_gap[hit[0]]:
        hit.pop(0)
    while hit and is_gap[hit[-1]]:
        hit.pop()
    if not hit:
        return None
    return hit, spans[hit[0]][0], spans[hit[-1]][1]


def check(kinds, a, b, col, inp, built=None, strand=1, tags=(), ctx="", bait=None):
    """one lookup judged against the scan; returns (result or None, the bait used)"""
    if built is None:
        built, err = try_build(kinds)
        if err:
            col.fail(err, inp)
            return None, None
    scf, is_gap, spans, asm = built
    want = expected(is_gap, spans, a, b)
    if bait is None:
        bait = Fragment("scf", a, b, strand, tuple(tags))
    try:
        got = asm.find_overlaps(bait)
    except Exception as e:  # the property says the lookup never fails on such queries
        col.fail(f"{ctx}find_overlaps({a}-{b}) on rows {kinds} raised {type(e).__name__}: {e}", inp)
        return None, bait
    if want is None:
        if got is not None:
            col.fail(
                f"{ctx}find_overlaps({a}-{b}) on rows {kinds}: no contig row intersects the query but got "
                f"{len(got.rows)} rows, start={got.start} end={got.end}",
                inp,
            )
        return got, bait
    if got is None:
        col.fail(f"{ctx}find_overlaps({a}-{b}) on rows {kinds} returned None, expected rows {want[0]}", inp)
        return got, bait
    idx, s, e = want
    got_rows = list(got.rows)
    same = len(got_rows) == len(idx) and all(g is scf.rows[i] for g, i in zip(got_rows, idx))
    if not same:
        pos = {id(r): i for i, r in enumerate(scf.rows) if not isinstance(r, Gap)}
        shown = [pos.get(id(r), str(r)) for r in got_rows]
        col.fail(f"{ctx}find_overlaps({a}-{b}) on rows {kinds}: rows {shown}, expected source rows {idx} (same objects, same order)", inp)
    if (got.start, got.end) != (s, e):
        col.fail(f"{ctx}find_overlaps({a}-{b}) on rows {kinds}: start/end {got.start}-{got.end}, expected {s}-{e}", inp)
    gb = got.bait
    if gb is None or (gb.start, gb.end) != (a, b):
        col.fail(f"{ctx}find_overlaps({a}-{b}) on rows {kinds}: result does not carry the bait", inp)
    elif (gb.name, gb.strand, tuple(gb.tags)) != (bait.name, bait.strand, tuple(bait.tags)):
        col.fail(
            f"{ctx}find_overlaps({a}-{b}) on rows {kinds}: result carries the bait {gb} (strand {gb.strand}, tags {list(gb.tags)}), "
            f"the query was {bait} (strand {bait.strand}, tags {list(bait.tags)})",
            inp,
        )
    return got, bait


# --------------------------------------------------------------------------------------------------
# sessions: several lookups on one IndexedAssembly, earlier results edited in between
# --------------------------------------------------------------------------------------------------

# what a consumer does to a result it was handed (the first six as BuildAssembly / OverhangResolver do it)
EDITS = ("discard_start", "discard_end", "trim_overhangs", "cut_first", "cut_last", "cut_keep", "pop", "clear", "reverse_rows", "move", "insert", "replace_rows", "rebait")


def apply_edit(res, op):
    try:
        if op == "discard_start":
            res.discard_start()
        elif op == "discard_end":
            res.discard_end()
        elif op == "trim_overhangs":
            res.trim_large_overhangs(0)
        elif op == "cut_first":
            res.trim_fragment(next(r for r in res.rows if isinstance(r, Fragment) and r is res.rows[0]))
        elif op == "cut_last":
            res.trim_fragment(next(r for r in res.rows if isinstance(r, Fragment) and r is res.rows[-1]))
        elif op == "cut_keep":
            res.trim_fragment(res.rows[0], keep_start=True, keep_end=True)
        elif op == "pop":
            res.rows.pop()
        elif op == "clear":
            res.rows.clear()
        elif op == "reverse_rows":
            res.rows.reverse()
        elif op == "move":
            res.start += 5
            res.end -= 1
        elif op == "insert":
            res.rows.insert(0, Gap(9, "scaffold"))
            res.start -= 9
        elif op == "replace_rows":
            res.rows = [Fragment("other", 1, 4, -1)]
            res.start = res.end = 1
        elif op == "rebait":
            res.bait = Fragment("scf", res.bait.start + 1, res.bait.end + 1, res.bait.strand)
    except Exception:  # noqa: BLE001 - an edit that does not apply to this result (no row left, ...) is the caller's affair
        pass


def snapshot(res):
    return None if res is None else ([id(r) for r in res.rows], res.start, res.end)


def run_session(kinds, steps, col, inp, built=None):
    """
    steps: ["q", a, b, strand, tags] - a lookup with a new bait;  ["again", k] - a lookup with the very bait object of
    query k;  ["e", k, op] - edit the result of query k (k counts the lookups of the session from 0)
    """
    if built is None:
        built, err = try_build(kinds)
        if err:
            col.fail(err, inp)
            return
    scf = built[0]
    source = list(scf.rows)
    results = []  # per lookup: [result, snapshot when last seen in order, bait, (a, b)]
    for n, st in enumerate(steps):
        ctx = f"step {n + 1} of the session {steps}: "
        if st[0] in ("q", "again"):
            if st[0] == "q":
                _, a, b, strand, tags = st
                got, bait = check(kinds, a, b, col, inp, built=built, strand=strand, tags=tags, ctx=ctx)
            else:
                a, b = results[st[1]][3]
                got, bait = check(kinds, a, b, col, inp, built=built, ctx=ctx, bait=results[st[1]][2])
            if got is not None:
                for k, (old, *_) in enumerate(results):
                    if old is got:
                        col.fail(f"{ctx}find_overlaps({a}-{b}) on rows {kinds} returned the very object it returned for lookup {k} of the session", inp)
                    elif old is not None and old.rows is got.rows:
                        col.fail(f"{ctx}find_overlaps({a}-{b}) on rows {kinds}: the result shares its row list with the result of lookup {k}", inp)
                if got.rows is scf.rows:
                    col.fail(f"{ctx}find_overlaps({a}-{b}) on rows {kinds}: the result's row list is the scaffold's own row list", inp)
            results.append([got, snapshot(got), bait, (a, b)])
        else:
            _, k, op = st
            res = results[k][0]
            if res is None:
                continue
            apply_edit(res, op)
            results[k][1] = snapshot(res)
            for j, (other, snap, *_) in enumerate(results):
                if j != k and other is not None and other is not res and snapshot(other) != snap:
                    col.fail(f"{ctx}editing the result of lookup {k} changed the result of lookup {j} (find_overlaps on rows {kinds})", inp)
                    results[j][1] = snapshot(other)
        if len(scf.rows) != len(source) or any(x is not y for x, y in zip(scf.rows, source)):
            col.fail(f"{ctx}the rows of the indexed scaffold {kinds} changed", inp)
            return


def session_scripts(a, b, total, c, ops):
    """
    the sessions around one query (a, b) of a scaffold of length `total`; c: running number (rotates strands, tags and
    the neighbouring query), ops: the edits to use
    """
    strand = (1, -1, 0)[c % 3]
    tags = [[], ["Painted"], ["Painted", "Hap1"]][c % 3]
    near = [(max(1, a - 1), b), (a, b + 1), (a, min(b, max(a, b - 1))), (min(a + 1, b), b)][c % 4]
    far = [(1, total), (total + 1, total + 2), (1, 1), (total, total + 1)][(c // 4) % 4]
    for oi, op in enumerate(ops):
        # the same interval again after the first result was edited: an equal bait, the bait object itself, another strand / tags
        yield [["q", a, b, strand, tags], ["e", 0, op], ["q", a, b, strand, tags], ["again", 0], ["q", a, b, -strand if strand else 1, tags[:1]]]
        if (c + oi) % 3 == 0:
            # two results alive at once: neighbouring interval (mostly the same rows), both edited, both asked again
            op2 = EDITS[(c + oi + 5) % len(EDITS)]
            yield [["q", a, b, strand, tags], ["q", *near, strand, tags], ["e", 0, op], ["q", *near, strand, tags], ["e", 1, op2], ["q", a, b, strand, tags], ["again", 1]]
        if (c + oi) % 7 == 0:
            yield [["q", *far, 1, []], ["q", a, b, strand, tags], ["e", 1, op], ["e", 0, op], ["q", *far, 1, []], ["again", 1], ["e", 2, op], ["q", a, b, strand, tags]]


# --------------------------------------------------------------------------------------------------
# re-indexing sessions: one Scaffold object indexed in several IndexedAssembly objects, edited in between
# --------------------------------------------------------------------------------------------------

INDEX_HOW = ("init", "from_assembly", "add_scaffold")


def make_row(kind, n, serial):
    """row number `serial` made in a session (names distinct, contig coordinates unrelated to scaffold coordinates)"""
    if kind == "G":
        return Gap(n, "scaffold" if serial % 2 else "contig")
    return Fragment(f"c{serial}", 10 * serial + 5, 10 * serial + 4 + n, (1, -1, 0)[serial % 3])


def index_scaffold(scf, how, generation):
    if how == "init":
        return IndexedAssembly(f"asm{generation}", scaffolds=[scf])
    if how == "from_assembly":
        return IndexedAssembly.new_from_assembly(Assembly(f"asm{generation}", scaffolds=[scf]))
    asm = IndexedAssembly(f"asm{generation}")
    asm.add_scaffold(scf)
    return asm


def scan_queries(spans, limit=None):
    """
    the queries of one scan: every 1 <= a <= b <= total + 2 of a short scaffold, else every pair of (at most ~20, evenly
    thinned) boundary points; limit: only queries ending at or before it
    """
    total = spans[-1][1]
    if total <= 16:
        pts = list(range(1, total + 3))
    else:
        pts = boundary_points(spans)
        if len(pts) > 20:
            step = -(-len(pts) // 17)
            pts = sorted(set(pts[::step]) | set(pts[-3:]))
    if limit is not None:
        pts = [p for p in pts if p <= limit]
    return itertools.combinations_with_replacement(pts, 2)


def run_reindex(kinds, steps, col, inp):
    """
    one Scaffold object, built from `kinds`, and the steps
      ["index", how]            hand it to a NEW IndexedAssembly (how: INDEX_HOW); the assemblies are numbered from 0
      ["edit", "add_row", kind, n] / ["edit", "append_scaffold", [[kind, n], ...], gap length or None] /
      ["edit", "insert", i, kind, n] / ["edit", "delete", i] / ["edit", "replace", i, kind, n] (rows[i] = another row) /
      ["edit", "assign", [[kind, n], ...]] (rows = a new list)
      ["scan", k]               every query (scan_queries) on assembly k, each judged against the scan of the rows the
                                scaffold had when assembly k indexed it.  When the scaffold has grown since (the rows indexed
                                are still its first rows) only queries that end within the scaffold as indexed; after any
                                other edit assembly k is not asked any more.
    returns the number of lookups made
    """
    made = {}  # id of every row object made in the session -> (the object, kept alive; its kind; its length)

    def row(kind, n):
        r = make_row(kind, n, len(made))
        made[id(r)] = (r, kind, n)
        return r

    scf = Scaffold("scf", [row(k, n) for k, n in kinds])
    assemblies = []  # [IndexedAssembly, kinds at indexing, row objects at indexing, is_gap, spans, "fresh" | "grown" | "stale"]
    lookups = 0
    for n_step, st in enumerate(steps):
        ctx = f"step {n_step + 1} of the re-indexing session {steps} on one Scaffold object (rows at first {[list(k) for k in kinds]}): "
        if st[0] == "index":
            g = len(assemblies)
            # the scaffold as it is handed over: its row objects now, each with the kind and length it was made with
            now = [made[id(r)][1:] for r in scf.rows]
            try:
                asm = index_scaffold(scf, st[1], g)
            except Exception as e:  # noqa: BLE001
                col.fail(f"{ctx}indexing the scaffold, rows now {[list(k) for k in now]}, raised {type(e).__name__}: {e} - no query on it can be answered", inp)
                return lookups
            spans = []
            p = 0
            for _, n in now:
                spans.append((p + 1, p + n))
                p += n
            assemblies.append([asm, tuple(now), list(scf.rows), [k == "G" for k, _ in now], spans, "fresh"])
        elif st[0] == "edit":
            op = st[1]
            if op == "add_row":
                scf.add_row(row(st[2], st[3]))
            elif op == "append_scaffold":
                other = Scaffold("other", [row(k, n) for k, n in st[2]])
                scf.append_scaffold(other, row("G", st[3]) if st[3] else None)
            elif op == "insert":
                scf.rows.insert(st[2], row(st[3], st[4]))
            elif op == "delete":
                del scf.rows[st[2]]
            elif op == "replace":
                scf.rows[st[2]] = row(st[3], st[4])
            elif op == "assign":
                scf.rows = [row(k, n) for k, n in st[2]]
            for a in assemblies:
                # grown: the rows this assembly indexed are still the scaffold's first rows, the very objects
                kept = len(scf.rows) >= len(a[2]) and all(x is y for x, y in zip(scf.rows, a[2]))
                if not kept:
                    a[5] = "stale"
                elif a[5] == "fresh" and len(scf.rows) > len(a[2]):
                    a[5] = "grown"
        else:
            k = st[1]
            asm, kinds_k, rows_k, is_gap, spans, state = assemblies[k]
            if state == "stale":
                continue
            built = (types.SimpleNamespace(rows=rows_k), is_gap, spans, asm)
            before = len(col.failures)
            for a, b in scan_queries(spans, limit=spans[-1][1] if state == "grown" else None):
                check(kinds_k, a, b, col, inp, built=built, ctx=f"IndexedAssembly no. {k + 1} of {len(assemblies)} made over one Scaffold object: ")
                lookups += 1
                if len(col.failures) > before:
                    # what is wrong first, then where in the session; one failure per session (later ones would repeat it)
                    for f in col.failures[before:]:
                        f["message"] += (
                            f" (the rows are those the scaffold had when this assembly indexed it"
                            f"{'; the scaffold has grown since' if state == 'grown' else ''}) - {ctx.rstrip(': ')}"
                        )
                    return lookups
    return lookups


GROW_EDITS = [["add_row", k, n] for k, n in ROW_KINDS] + [
    ["append_scaffold", [["F", 1]], None],
    ["append_scaffold", [["F", 2]], 2],
    ["append_scaffold", [["F", 3], ["G", 1], ["F", 1]], 1],
    ["append_scaffold", [["G", 2], ["F", 2]], None],
    ["append_scaffold", [["F", 1], ["G", 3]], 3],
]


def other_edits(n_rows):
    """edits in place of a scaffold of n_rows rows: a row inserted in front / before the last, dropped, swapped for one of another length or kind, all rows anew"""
    eds = [["insert", 0, "F", 2], ["insert", 0, "G", 1], ["insert", n_rows - 1, "F", 1], ["replace", 0, "F", 4], ["replace", n_rows - 1, "G", 2], ["replace", n_rows - 1, "F", 5]]
    if n_rows > 1:
        eds += [["delete", 0], ["delete", n_rows - 1]]
    eds += [["assign", [["F", 2]] * (n_rows + 1)], ["assign", [["G", 1], ["F", 3], ["F", 1]][: max(1, n_rows)]]]
    return eds


def reindex_scripts(n_rows, c, tier):
    """
    the re-indexing sessions for one scaffold of n_rows rows (c: running number, rotates the way of indexing and the
    edits).  Two generations around ONE edit - quick: three growing and two other edits, rotating; thorough: every edit -
    and three generations around two edits (quick one chain, thorough four).
    """
    how = [INDEX_HOW[(c + j) % 3] for j in range(3)]
    others = other_edits(n_rows)
    if tier == "quick":
        grow = [GROW_EDITS[(c + 4 * j) % len(GROW_EDITS)] for j in range(3)]
        other = [others[(c + 3 * j) % len(others)] for j in range(2)]
    else:
        grow, other = GROW_EDITS, others
    for ed in grow:
        yield [["index", how[0]], ["scan", 0], ["edit", *ed], ["index", how[1]], ["scan", 1], ["scan", 0]]
    for ed in other:
        yield [["index", how[0]], ["scan", 0], ["edit", *ed], ["index", how[1]], ["scan", 1]]
    for j in range(1 if tier == "quick" else 4):
        e1 = GROW_EDITS[(c + 5 * j) % len(GROW_EDITS)]
        e2 = GROW_EDITS[(c + 3 * j + 1) % len(GROW_EDITS)]
        # the second assembly is made before the first lookup, and two edits lie between the second and the third
        yield [["index", how[0]], ["edit", *e1], ["index", how[1]], ["scan", 1], ["scan", 0], ["edit", *e2], ["edit", *others[(c + j) % 6]], ["index", how[2]], ["scan", 2]]
        # never looked up before it has grown; indexed twice in the same state
        yield [["index", how[2]], ["edit", *e2], ["index", how[0]], ["index", how[1]], ["scan", 2], ["scan", 1], ["scan", 0], ["edit", *e1], ["index", how[0]], ["scan", 3], ["scan", 1]]


def random_reindex(rng):
    """a seeded session: a scaffold of 1-6 rows (lengths 1 .. 10**6), 2-5 generations, 1-3 edits between two of them, a scan of the new assembly and now and then of an older one"""
    lengths = (1, 2, 3, 7, 100, 10**6)
    now = [(rng.choice("GFF"), rng.choice(lengths)) for _ in range(rng.randint(1, 6))]
    kinds = tuple(now)
    steps = [["index", rng.choice(INDEX_HOW)]]
    if rng.random() < 0.6:
        steps.append(["scan", 0])
    for g in range(1, rng.randint(2, 5)):
        for _ in range(rng.randint(1, 3)):
            roll = rng.random()
            n = len(now)
            k, ln = rng.choice("GFF"), rng.choice(lengths)
            if roll < 0.35:
                ed = ["add_row", k, ln]
                now.append((k, ln))
            elif roll < 0.6:
                rows = [[rng.choice("GFF"), rng.choice(lengths)] for _ in range(rng.randint(1, 3))]
                gap = rng.choice((None, 1, 200))
                ed = ["append_scaffold", rows, gap]
                now.extend(([("G", gap)] if gap else []) + [tuple(r) for r in rows])
            elif roll < 0.72:
                i = rng.randrange(n + 1)
                ed = ["insert", i, k, ln]
                now.insert(i, (k, ln))
            elif roll < 0.82 and n > 1:
                i = rng.randrange(n)
                ed = ["delete", i]
                del now[i]
            elif roll < 0.94:
                i = rng.randrange(n)
                ed = ["replace", i, k, ln]
                now[i] = (k, ln)
            else:
                rows = [[rng.choice("GFF"), rng.choice(lengths)] for _ in range(rng.randint(1, 5))]
                ed = ["assign", rows]
                now = [tuple(r) for r in rows]
            steps.append(["edit", *ed])
        steps.append(["index", rng.choice(INDEX_HOW)])
        steps.append(["scan", g])
        if rng.random() < 0.5:
            steps.append(["scan", rng.randrange(g)])
    return kinds, steps


def replay(inp):
    col = Collector("replay")
    kinds = tuple(tuple(k) for k in inp["rows"])
    if "reindex" in inp:
        run_reindex(kinds, inp["reindex"], col, inp)
    elif "session" in inp:
        run_session(kinds, inp["session"], col, inp)
    else:
        check(kinds, inp["a"], inp["b"], col, inp)
    return col.failures[0]["message"] if col.failures else None


def run(tier, seed, **opts):
    rng = random.Random(seed)
    max_rows = 4 if tier == "quick" else 5
    col = Collector(
        f"every scaffold of 1..{max_rows} rows, each row a gap of length 1..3 or a fragment of length 1..3 (strands "
        "+,-,? by position), x every query 1 <= a <= b <= total+2; plus scaffolds of 1..6 rows with one or two rows of "
        "huge length (2**31-1 .. 10**30+1: cumulative coordinates beyond every machine-integer and float-mantissa "
        "width) x every pair of query points at row boundaries +-1, row middles and past the end; plus gap rows of every kind "
        f"({len(GAP_TYPES)} gap types: AGP 2.x, AGP 1.1, TPF pass-through, unknown, other spelling, empty; a subclass of Gap): every scaffold of "
        f"1..{4 if tier == 'quick' else 5} rows of length 1..2 with a gap x type assignments (uniform, mixed) x every query, and chromosome-like "
        "scaffolds with feature gaps at the ends and inside x boundary queries; plus sessions on one "
        f"indexed scaffold: every scaffold of 1..{3 if tier == 'quick' else 4} rows x every query with an answer, looked up, the "
        "result edited as a consumer does (discard_start / discard_end / trim_large_overhangs / trim_fragment / direct edits "
        "of rows, start, end, bait), and looked up again with an equal bait, the same bait object and a bait of another "
        "strand; with a second result of a neighbouring interval alive and edited; around lookups of other intervals; and "
        "seeded sessions of 4-12 steps on scaffolds of 2-9 rows: every lookup judged against the scan, results must be fresh "
        "objects sharing no row list, editing one result must not change another nor the scaffold; plus re-indexing sessions: "
        f"ONE Scaffold object (every scaffold of 1..{2 if tier == 'quick' else 3} rows; seeded ones of 1-6 rows up to 10**6 long) indexed in a fresh "
        "IndexedAssembly (constructor / new_from_assembly / add_scaffold), edited (add_row, append_scaffold with and without "
        "a gap, rows inserted / dropped / swapped in place, rows assigned anew), indexed again in another fresh IndexedAssembly, "
        "2-5 generations: after each indexing every query on the new assembly is judged against the scan of the rows the "
        "scaffold had when handed to it, and earlier assemblies are asked again (queries within their scaffold) while the "
        "scaffold has only grown; non-trivial = "
        "distinct (rows, a, b) where the query intersects at least one row, or distinct session"
    )
    n_sc = 0
    for n in range(1, max_rows + 1):
        for kinds in itertools.product(ROW_KINDS, repeat=n):
            built = build(kinds)
            spans = built[2]
            total = spans[-1][1]
            n_sc += 1
            for a in range(1, total + 3):
                for b in range(a, total + 3):
                    inp = {"rows": [list(k) for k in kinds], "a": a, "b": b}
                    check(kinds, a, b, col, inp, built=built)
                    col.case(
                        (kinds, a, b),
                        nontrivial=a <= total,
                        sample=inp if (n_sc, a, b) in ((40, 2, 4), (200, 1, 9), (700, 3, 3)) else None,
                    )
            if col.full:
                break
    # scaffolds with huge coordinates (a few rows each), every pair of query points taken from the row boundaries
    # +-1, the middle of each row, 1, 2 and total..total+2
    n_huge = 0
    for L in HUGE:
        for kinds in huge_shapes(L):
            n_huge += 1
            built, err = try_build(kinds)
            if err:
                total = sum(n for _, n in kinds)
                inp = {"rows": [list(k) for k in kinds], "a": 1, "b": total}
                col.fail(err, inp)
                col.case((kinds, 1, total))
                continue
            pts = boundary_points(built[2])
            total = built[2][-1][1]
            for a, b in itertools.combinations_with_replacement(pts, 2):
                inp = {"rows": [list(k) for k in kinds], "a": a, "b": b}
                check(kinds, a, b, col, inp, built=built)
                col.case((kinds, a, b), nontrivial=a <= total, sample=inp if (n_huge, a) == (29, 2) and b > total else None)
    # gap rows of every kind: the typed family, every query; chromosome-like scaffolds, every pair of boundary points
    n_typed = 0
    for kinds in typed_scaffolds(tier):
        built = build(kinds)
        total = built[2][-1][1]
        n_typed += 1
        for a in range(1, total + 3):
            for b in range(a, total + 3):
                inp = {"rows": [list(k) for k in kinds], "a": a, "b": b}
                check(kinds, a, b, col, inp, built=built)
                col.case((kinds, a, b), nontrivial=a <= total, sample=inp if (n_typed, a, b) == (333, 1, 3) else None)
        if col.full:
            break
    n_chrom = 0
    for kinds in chromosome_scaffolds():
        built = build(kinds)
        n_chrom += 1
        total = built[2][-1][1]
        for a, b in itertools.combinations_with_replacement(boundary_points(built[2]), 2):
            inp = {"rows": [list(k) for k in kinds], "a": a, "b": b}
            check(kinds, a, b, col, inp, built=built)
            col.case((kinds, a, b), nontrivial=a <= total, sample=inp if (n_chrom, a) == (1, 10_001) and b == 3_015_200 else None)
    # sessions (enumerated): every scaffold of <= 3 rows (thorough: <= 4) x every query that has an answer x edits of
    # the first result (quick: two of the edits, thorough: all for <= 3 rows and four for 4 rows, rotating)
    n_sessions = 0
    c = 0
    for n in range(1, (3 if tier == "quick" else 4) + 1):
        for kinds in itertools.product(ROW_KINDS, repeat=n):
            built = build(kinds)
            is_gap, spans = built[1], built[2]
            total = spans[-1][1]
            for a in range(1, total + 1):
                for b in range(a, total + 2):
                    if expected(is_gap, spans, a, b) is None:
                        continue
                    c += 1
                    if tier == "quick":
                        ops = [EDITS[(c + 6 * j) % len(EDITS)] for j in range(2)]
                    elif n <= 3:
                        ops = EDITS
                    else:
                        ops = [EDITS[(c + 3 * j) % len(EDITS)] for j in range(4)]
                    for steps in session_scripts(a, b, total, c, ops):
                        n_sessions += 1
                        inp = {"rows": [list(k) for k in kinds], "session": steps}
                        run_session(kinds, steps, col, inp, built=built)
                        col.case((kinds, repr(steps)), sample=inp if n_sessions in (500, 5000) else None)
            if col.full:
                break
    # sessions (seeded): longer scaffolds, random lookups / repeated lookups / edits
    n_random_sessions = 60 if tier == "quick" else 4000
    for _ in range(n_random_sessions):
        n = rng.randint(2, 9)
        kinds = tuple((rng.choice("GFF"), rng.choice((1, 2, 3, 7, 100, 10**6))) for _ in range(n))
        built = build(kinds)
        spans = built[2]
        total = spans[-1][1]
        pts = sorted({1, total, total + 1} | {max(1, v + d) for s, e in spans for v in (s, e) for d in (-1, 0, 1)})
        steps = []
        asked = []
        for _ in range(rng.randint(4, 12)):
            roll = rng.random()
            if not asked or roll < 0.25:
                a, b = sorted((rng.choice(pts), rng.choice(pts)))
                asked.append((a, b, rng.choice((1, -1, 0)), rng.choice(([], ["Painted"]))))
                steps.append(["q", *asked[-1]])
            elif roll < 0.5:
                # an interval asked before, with a new bait (now and then of another strand)
                a, b, strand, tags = rng.choice(asked)
                asked.append((a, b, strand if rng.random() < 0.8 else rng.choice((1, -1, 0)), tags))
                steps.append(["q", *asked[-1]])
            elif roll < 0.6:
                k = rng.randrange(len(asked))
                asked.append(asked[k])
                steps.append(["again", k])
            else:
                steps.append(["e", rng.randrange(len(asked)), rng.choice(EDITS)])
        n_sessions += 1
        inp = {"rows": [list(k) for k in kinds], "session": steps}
        run_session(kinds, steps, col, inp, built=built)
        col.case((kinds, repr(steps)))
    # re-indexing sessions (enumerated): every scaffold of 1..2 rows (thorough: 1..3) x edits x ways of indexing
    n_reindex = n_reindex_lookups = 0
    c = 0
    for n in range(1, (2 if tier == "quick" else 3) + 1):
        for kinds in itertools.product(ROW_KINDS, repeat=n):
            c += 1
            for steps in reindex_scripts(n, c, tier):
                n_reindex += 1
                inp = {"rows": [list(k) for k in kinds], "reindex": steps}
                n_reindex_lookups += run_reindex(kinds, steps, col, inp)
                col.case((kinds, repr(steps)), sample=inp if n_reindex == 100 else None)
        if col.full:
            break
    # re-indexing sessions (seeded): longer rows, 2-5 generations, any edits
    n_random_reindex = 40 if tier == "quick" else 3000
    rng2 = random.Random(seed * 1000003 + 12)  # a generator of their own: the seeded streams above and below stay as they were
    for _ in range(n_random_reindex):
        kinds, steps = random_reindex(rng2)
        n_reindex += 1
        inp = {"rows": [list(k) for k in kinds], "reindex": steps}
        n_reindex_lookups += run_reindex(kinds, steps, col, inp)
        col.case((kinds, repr(steps)))
    exhaustive = True
    if tier != "quick":
        # random larger scaffolds: long rows, many rows, queries sampled at row boundaries +-1
        for _ in range(3000):
            n = rng.randint(6, 14)
            kinds = tuple((rng.choice("GGF" if rng.random() < 0.5 else "GFF"), rng.choice((1, 2, 3, 7, 100, 10**6))) for _ in range(n))
            built = build(kinds)
            spans = built[2]
            total = spans[-1][1]
            pts = sorted({1, total, total + 1, total + 2} | {max(1, v + d) for s, e in spans for v in (s, e) for d in (-1, 0, 1)})
            for _ in range(40):
                a, b = sorted((rng.choice(pts), rng.choice(pts)))
                inp = {"rows": [list(k) for k in kinds], "a": a, "b": b}
                check(kinds, a, b, col, inp, built=built)
                col.case((kinds, a, b), nontrivial=a <= total)
        # the same with huge row lengths mixed in (cumulative coordinates cross several word widths in one scaffold)
        lengths = (1, 2, 3, 7, 100, 10**6) + tuple(HUGE)
        for _ in range(1500):
            n = rng.randint(1, 10)
            kinds = tuple((rng.choice("GGF" if rng.random() < 0.5 else "GFF"), rng.choice(lengths)) for _ in range(n))
            built, err = try_build(kinds)
            total = sum(v for _, v in kinds)
            if err:
                col.fail(err, {"rows": [list(k) for k in kinds], "a": 1, "b": total})
                col.case((kinds, 1, total))
                continue
            pts = boundary_points(built[2])
            for _ in range(40):
                a, b = sorted((rng.choice(pts), rng.choice(pts)))
                inp = {"rows": [list(k) for k in kinds], "a": a, "b": b}
                check(kinds, a, b, col, inp, built=built)
                col.case((kinds, a, b), nontrivial=a <= total)
        # gap types and lengths drawn at random (a generator of their own: the seeded streams above stay as they were)
        rng3 = random.Random(seed * 1000003 + 13)
        for _ in range(2000):
            n = rng3.randint(1, 12)
            kinds = tuple(
                ("G", rng3.choice((1, 2, 100, 200, 5000, 10**6)), rng3.choice(GAP_TYPES), *(["subclass"] if rng3.random() < 0.1 else []))
                if rng3.random() < 0.5
                else ("F", rng3.choice((1, 2, 3, 7, 100, 10**6)))
                for _ in range(n)
            )
            built = build(kinds)
            pts = boundary_points(built[2])
            total = built[2][-1][1]
            for _ in range(40):
                a, b = sorted((rng3.choice(pts), rng3.choice(pts)))
                inp = {"rows": [list(k) for k in kinds], "a": a, "b": b}
                check(kinds, a, b, col, inp, built=built)
                col.case((kinds, a, b), nontrivial=a <= total)
    return col.result(
        bounds=f"scaffolds of <= {max_rows} rows over {len(ROW_KINDS)} row kinds ({n_sc} scaffolds), all queries up to total+2"
        f"; plus {n_typed} scaffolds of <= {4 if tier == 'quick' else 5} rows (gaps and fragments of length 1..2) whose gaps carry {len(GAP_TYPES)} gap types "
        f"(one type for all gaps, mixtures, one gap of a subclass of Gap), all queries up to total+2, and {n_chrom} chromosome-like scaffolds "
        "(telomere / centromere / heterochromatin / spacer gaps of 100 and 200, rows up to 3 000 000), all pairs of boundary points"
        f"; plus {n_huge} scaffolds of 1..6 rows around {len(HUGE)} huge row lengths (2**31-1 .. 10**30+1), all pairs of "
        "boundary/middle query points"
        f"; plus {n_sessions} sessions of 5-8 steps (lookups and edits of earlier results) on the scaffolds of <= {3 if tier == 'quick' else 4} rows "
        f"and {n_random_sessions} seeded sessions on scaffolds of 2-9 rows"
        f"; plus {n_reindex} re-indexing sessions of 2-5 generations of one Scaffold object ({n_random_reindex} of them seeded), {n_reindex_lookups} lookups"
        + (
            ""
            if tier == "quick"
            else "; plus 3000 random scaffolds of 6..14 rows with row lengths up to 10**6 and 1500 random scaffolds of "
            "1..10 rows with huge row lengths mixed in, boundary queries; plus 2000 random scaffolds of 1..12 rows with gap types, "
            "gap lengths (1 .. 10**6) and gap subclass drawn at random"
        ),
        exhaustive=exhaustive,
    )
