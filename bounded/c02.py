"""
C02 bounded tier: for every PretextView-model edit script the remapping completes, the interior of every piece (bases
more than 3 x (1 + floor(bp/texel)) from the piece ends) is one contiguous collinear run of one output scaffold,
oriented input x piece, with the input's internal gaps; pieces of one Pretext scaffold sharing a destination keep
Pretext order; a cut deeper than the margin inside a contig splits it exactly at the designated base.

The margin is a step function of the texel size (floor!), and "deeper than the margin" is a strict bound, so besides the
shared streams (texel sizes 1, 2.5, 10, 33.3, cuts wherever the grid puts them) a family `margin-edge` is built backwards
from the statement: for texel sizes with every kind of fractional part (.01, .49, .5 over an odd and an even integer part,
.6, .75, .9, .99, none; one of several hundred bp) a two-contig scaffold is sized so that one texel boundary falls exactly
margin-1 ... margin+7 bases inside a contig (from its start or from its end, abutting / across a gap, short or long
neighbour, other side of the cut just deeper than the margin or far deeper), and the two pieces go through every
permutation x orientation x grouping.  From margin+1 on, the contig must be split exactly there.
"""

import itertools
import math
import random

from . import pipeline_gen as pg
from .common import Collector


def layout_problems(case, out):
    inp, mp = case["input"], case["map"]
    margin = pg.margin_of(mp["bpt"])
    in_toks = {s["name"]: pg.tokens(s["rows"]) for s in inp}
    idx = pg.OutIndex(out)
    problems = []
    n_cores = 0
    for k, psc in enumerate(mp["scaffolds"], 1):
        located = []
        for piece in psc:
            core = pg.piece_core(in_toks[piece[0]], piece, margin)
            if not core:
                continue
            n_cores += 1
            loc = idx.locate(core)
            if isinstance(loc, str):
                problems.append(f"interior of piece {piece[0]}:{piece[1]}-{piece[2]}({piece[3]:+d}) of Scaffold_{k}: {loc}")
                continue
            located.append(loc)
        for si in {x[0] for x in located}:
            offs = [x[1] for x in located if x[0] == si]
            if offs != sorted(offs):
                problems.append(f"pieces of Scaffold_{k} are out of Pretext order in output scaffold {idx.scaffolds[si][1]['name']!r}")

    # exact split at deep cut points
    out_frags = [r for _, sc, _ in idx.scaffolds for r in sc["rows"] if r[0] == "F"]
    n_deep = 0
    pieces = [p for psc in mp["scaffolds"] for p in psc]
    for s in inp:
        mine = sorted((p for p in pieces if p[0] == s["name"]), key=lambda p: p[1])
        pos = 0
        for row in s["rows"]:
            r_start, r_end = pos + 1, pos + pg.row_len(row)
            pos = r_end
            if row[0] != "F":
                continue
            for left, right in itertools.pairwise(mine):
                cut = left[2]  # last scaffold base of the left-hand piece
                if right[1] != cut + 1:
                    continue
                if cut - r_start + 1 > margin and r_end - cut > margin:
                    n_deep += 1
                    if row[4] == -1:
                        hi_first = row[3] - (cut - r_start)  # contig base at scaffold position `cut`
                        lo_side_end, hi_side_start = hi_first - 1, hi_first
                    else:
                        lo_side_end = row[2] + (cut - r_start)
                        hi_side_start = lo_side_end + 1
                    subs = [f for f in out_frags if f[1] == row[1] and f[2] >= row[2] and f[3] <= row[3]]
                    if lo_side_end not in {f[3] for f in subs} or hi_side_start not in {f[2] for f in subs}:
                        problems.append(
                            f"cut after {s['name']}:{cut} must split {row[1]}:{row[2]}-{row[3]}({row[4]:+d}) between "
                            f"{lo_side_end} and {hi_side_start} (the cut lies {cut - r_start + 1} and {r_end - cut} bases inside "
                            f"the contig, margin 3 x (1 + floor({mp['bpt']})) = {margin}); output has "
                            f"{sorted((f[2], f[3]) for f in subs)}"
                        )
    return problems, n_cores, n_deep


def check(case, col):
    run = pg.run_case(case)
    if run.error is not None:
        col.fail(f"remapping of a PretextView-model edit script did not complete ({run.stage}): {run.error_text}", case)
        return 0, 0
    problems, n_cores, n_deep = layout_problems(case, run.out)
    if problems:
        col.fail("; ".join(problems[:3]), case)
    return n_cores, n_deep


def replay(inp):
    col = Collector("replay")
    check(inp, col)
    return col.failures[0]["message"] if col.failures else None


# texel sizes of the margin-edge family: (quick), (thorough).  floor() differs from round-to-nearest for fractions
# above .5 and for .5 over an odd integer part, from ceil() for every fraction; integers and the shared sizes are in the
# thorough list so that the strict bound itself (margin vs margin+1) is probed at every size
EDGE_BPTS = {
    "quick": (1.6, 3.5, 2.99),
    "thorough": (1.5, 1.6, 1.99, 2.6, 3.5, 3.99, 1.01, 2.49, 4.5, 10.75, 33.9, 1.0, 2.5, 3.0, 10.0, 33.3, 251.6),
}


def margin_edge_scaffolds(bpt, d, gap, side, variant, strands, naming):
    """
    (scaffold, t): a scaffold of two contigs W and X with texel boundary t falling exactly d bases inside X, counted from
    X's start (side 'start': W gap X) or back from X's end (side 'end': X gap W).  variant 0: W as short as the grid
    allows, the rest of X just deeper than the margin; 1: short W, long rest; 2: W long enough to have an interior, long rest.
    None if d < 1.
    """
    if d < 1:
        return None
    f = pg.bptF(bpt)
    margin = pg.margin_of(bpt)
    two = math.ceil(2 * f) + 1  # bases that surely hold two whole texels
    glen = gap[0] if gap else 0
    rest = max(margin + 1, two) + (0 if variant == 0 else math.ceil(4 * f) + 3)  # X on the other side of the cut
    a_min = 1 if variant < 2 else margin + 2 + math.ceil(f)
    t = 2
    if side == "start":
        while math.floor(t * f) - glen - d < a_min:
            t += 1
        a_len = math.floor(t * f) - glen - d
        lengths, order = (a_len, d + rest), strands
    else:
        while math.floor(t * f) < rest:
            t += 1
        b_len = math.floor(t * f) + d
        a_len = max(a_min, two - d - glen, 1)
        lengths, order = (b_len, a_len), strands[::-1]
    sc = pg.make_scaffold("scaffold_1", lengths, order, [gap], naming, tag="1")
    return sc, t


def margin_edge_cases(tier):
    """the margin-edge family (see the module text); yields cases"""
    quick = tier == "quick"
    offsets = (1, 2, 3) if quick else tuple(range(-1, 8))
    gaps = (None, (1, "contig")) if quick else (None, (1, "contig"), (5, "scaffold"))
    variants = (1,) if quick else (0, 1, 2)
    i = 0
    for bpt in EDGE_BPTS[tier]:
        margin = pg.margin_of(bpt)
        for off in offsets:
            for gap, side, variant in itertools.product(gaps, ("start", "end"), variants):
                for x_strand in (1, -1):
                    i += 1
                    if quick and (i + off) % 2:
                        continue
                    strands = ((1, -1)[i // 2 % 2], x_strand)
                    got = margin_edge_scaffolds(bpt, margin + off, gap, side, variant, strands, ("own", "fasta", "offset")[i % 3] if not quick else "own")
                    if got is None:
                        continue
                    sc, t = got
                    seen_n = set()
                    for rounding in ("floor", "ceil"):
                        n = pg.texels(pg.rows_len(sc["rows"]), bpt, rounding)
                        if n in seen_n or n - t < 2 or (quick and seen_n):
                            continue
                        seen_n.add(n)
                        pcs = pg.pieces_of(sc, bpt, rounding, (t,))
                        for ai, arr in enumerate(pg.ALL_ARRANGEMENTS[2]):
                            painted = [(i + ai + k) % 2 == 0 for k in range(len(arr[2]))]
                            mp = {"bpt": bpt, "scaffolds": pg.arrange(pcs, arr, painted)}
                            inp = [sc]
                            yield {"input": inp, "map": mp, "prefix": "SUPER_", "via": pg.pick_via(inp, i + ai)}


def run(tier, seed, **opts):
    rng = random.Random(seed)
    col = Collector(
        "PretextView-model edit scripts from pipeline_gen (exhaustive tiny scope; single scaffolds of <= 3 contigs over "
        "every length tuple; sub-texel contig runs; 2-3 scaffold inputs): cuts on the texel grid with pieces >= 2 "
        "texels, every/sampled permutation x orientation x grouping, floor or ceil texel count, sub-texel scaffolds "
        "present or absent, painted or unpainted, forward and reverse contigs; family margin-edge: two-contig scaffolds "
        "sized so that a texel boundary falls exactly margin-1 .. margin+7 bases inside a contig, texel sizes with every "
        "kind of fractional part, every arrangement of the two pieces; oracle = statement, base by base; "
        "non-trivial = distinct case with at least one piece interior to locate or one deep cut"
    )
    quick = tier == "quick"
    stats = {"cores": 0, "deep_cuts": 0}
    n = 0

    def one(case, fam):
        nonlocal n
        n += 1
        c, d = check(case, col)
        stats["cores"] += c
        stats["deep_cuts"] += d
        stats[fam] = stats.get(fam, 0) + 1
        col.case(pg.case_key(case), nontrivial=bool(c or d), sample={"family": fam, **case} if (d and n % 499 == 0) else None)

    scopes = pg.tiny_scopes(tier, wide=True)
    tiny_n = 0
    for kw in scopes:
        for case in pg.tiny_exhaustive(**kw):
            tiny_n += 1
            one(case, "tiny")
            if col.full:
                break
    for case in margin_edge_cases(tier):
        if col.full:
            break
        one(case, "margin-edge")
    for fam, case, _ in pg.model_cases(tier, rng):
        if col.full:
            break
        one(case, fam)
    return col.result(
        bounds=(
            "input: 1-3 scaffolds x 1-6 contigs, contig lengths from {1,2,7,12,40,150,400,1000}, gaps none/1/10/20/25/200, both "
            "strands, names fasta/own/offset, optional terminal gaps; texel sizes {1,2.5,10,33.3}; <= 3 cuts per scaffold; "
            f"margin-edge: texel sizes {list(EDGE_BPTS[tier])}, cut depth margin{'+1..+3' if quick else '-1..+7'} from either contig end; "
            f"tiny scopes ({tiny_n} cases: {pg.describe_scopes(scopes)}; both strands, every cut set and arrangement) "
            "enumerated fully, the rest seeded; "
            f"piece interiors located: {stats['cores']}, deep cuts checked: {stats['deep_cuts']}; per family: "
            + ", ".join(f"{k}={v}" for k, v in sorted(stats.items()) if k not in ("cores", "deep_cuts"))
        ),
        exhaustive=False,
    )
