"""
C02 bounded tier: for every PretextView-model edit script the remapping completes, the interior of every piece (bases
more than 3 x (1 + floor(bp/texel)) from the piece ends) is one contiguous collinear run of one output scaffold,
oriented input x piece, with the input's internal gaps; pieces of one Pretext scaffold sharing a destination keep
Pretext order; a cut deeper than the margin inside a contig splits it exactly at the designated base.
"""

import itertools
import random

from . import pipeline_gen as pg
from .common import Collector


def layout_problems(case, out):
    inp, mp = case["input"], case["map"]
    margin = pg.margin_of(mp["bpt"])
    in_toks = {s["name"]: pg.tokens(s["rows"]) for s in inp}
    idx = pg.OutIndex(out)
    problems = []
    n_cores = 0
    for k, psc in enumerate(mp["scaffolds"], 1):
        located = []
        for piece in psc:
            core = pg.piece_core(in_toks[piece[0]], piece, margin)
            if not core:
                continue
            n_cores += 1
            loc = idx.locate(core)
            if isinstance(loc, str):
                problems.append(f"interior of piece {piece[0]}:{piece[1]}-{piece[2]}({piece[3]:+d}) of Scaffold_{k}: {loc}")
                continue
            located.append(loc)
        for si in {x[0] for x in located}:
            offs = [x[1] for x in located if x[0] == si]
            if offs != sorted(offs):
                problems.append(f"pieces of Scaffold_{k} are out of Pretext order in output scaffold {idx.scaffolds[si][1]['name']!r}")

    # exact split at deep cut points
    out_frags = [r for _, sc, _ in idx.scaffolds for r in sc["rows"] if r[0] == "F"]
    n_deep = 0
    pieces = [p for psc in mp["scaffolds"] for p in psc]
    for s in inp:
        mine = sorted((p for p in pieces if p[0] == s["name"]), key=lambda p: p[1])
        pos = 0
        for row in s["rows"]:
            r_start, r_end = pos + 1, pos + pg.row_len(row)
            pos = r_end
            if row[0] != "F":
                continue
            for left, right in itertools.pairwise(mine):
                cut = left[2]  # last scaffold base of the left-hand piece
                if right[1] != cut + 1:
                    continue
                if cut - r_start + 1 > margin and r_end - cut > margin:
                    n_deep += 1
                    if row[4] == -1:
                        hi_first = row[3] - (cut - r_start)  # contig base at scaffold position `cut`
                        lo_side_end, hi_side_start = hi_first - 1, hi_first
                    else:
                        lo_side_end = row[2] + (cut - r_start)
                        hi_side_start = lo_side_end + 1
                    subs = [f for f in out_frags if f[1] == row[1] and f[2] >= row[2] and f[3] <= row[3]]
                    if lo_side_end not in {f[3] for f in subs} or hi_side_start not in {f[2] for f in subs}:
                        problems.append(
                            f"cut after {s['name']}:{cut} must split {row[1]}:{row[2]}-{row[3]}({row[4]:+d}) between "
                            f"{lo_side_end} and {hi_side_start}; output has {sorted((f[2], f[3]) for f in subs)}"
                        )
    return problems, n_cores, n_deep


def check(case, col):
    run = pg.run_case(case)
    if run.error is not None:
        col.fail(f"remapping of a PretextView-model edit script did not complete ({run.stage}): {run.error_text}", case)
        return 0, 0
    problems, n_cores, n_deep = layout_problems(case, run.out)
    if problems:
        col.fail("; ".join(problems[:3]), case)
    return n_cores, n_deep


def replay(inp):
    col = Collector("replay")
    check(inp, col)
    return col.failures[0]["message"] if col.failures else None


def run(tier, seed, **opts):
    rng = random.Random(seed)
    col = Collector(
        "PretextView-model edit scripts from pipeline_gen (exhaustive tiny scope; single scaffolds of <= 3 contigs over "
        "every length tuple; sub-texel contig runs; 2-3 scaffold inputs): cuts on the texel grid with pieces >= 2 "
        "texels, every/sampled permutation x orientation x grouping, floor or ceil texel count, sub-texel scaffolds "
        "present or absent, painted or unpainted, forward and reverse contigs; oracle = statement, base by base; "
        "non-trivial = distinct case with at least one piece interior to locate or one deep cut"
    )
    quick = tier == "quick"
    stats = {"cores": 0, "deep_cuts": 0}
    n = 0

    def one(case, fam):
        nonlocal n
        n += 1
        c, d = check(case, col)
        stats["cores"] += c
        stats["deep_cuts"] += d
        stats[fam] = stats.get(fam, 0) + 1
        col.case(pg.case_key(case), nontrivial=bool(c or d), sample={"family": fam, **case} if (d and n % 499 == 0) else None)

    scopes = pg.tiny_scopes(tier, wide=True)
    tiny_n = 0
    for kw in scopes:
        for case in pg.tiny_exhaustive(**kw):
            tiny_n += 1
            one(case, "tiny")
            if col.full:
                break
    for fam, case, _ in pg.model_cases(tier, rng):
        if col.full:
            break
        one(case, fam)
    return col.result(
        bounds=(
            "input: 1-3 scaffolds x 1-6 contigs, contig lengths from {1,2,7,12,40,150,400,1000}, gaps none/1/10/20/25/200, both "
            "strands, names fasta/own/offset, optional terminal gaps; texel sizes {1,2.5,10,33.3}; <= 3 cuts per scaffold; "
            f"tiny scopes ({tiny_n} cases: {pg.describe_scopes(scopes)}; both strands, every cut set and arrangement) "
            "enumerated fully, the rest seeded; "
            f"piece interiors located: {stats['cores']}, deep cuts checked: {stats['deep_cuts']}; per family: "
            + ", ".join(f"{k}={v}" for k, v in sorted(stats.items()) if k not in ("cores", "deep_cuts"))
        ),
        exhaustive=False,
    )
