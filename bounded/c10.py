"""
C10 bounded tier: names and order of the output scaffolds, judged on the outputs of tagged PretextView-model maps.
  * names unique within each output assembly
  * painted scaffolds without a name tag: <prefix>1..<prefix>n, no holes, non-increasing sequence length (chromosome
    plus its unlocs); two-haplotype maps: the first haplotype decides, the homologue grouped with it has the same number
  * name-tagged painted scaffolds: <prefix><tag>;  Unloc pieces: <chromosome>_unloc_1..m, non-increasing length;
    haplotigs: H_1..H_n, non-increasing length
  * order in every assembly: autosomes (each directly followed by its unlocs), named chromosomes, unplaced, each in
    numeric-aware name order
  * chromosome-list CSV (AssemblyStats.chromosome_name_csv): one line per chromosome or unloc scaffold, localised = no
    exactly for unlocs
"The first haplotype" of a multi-haplotype map is the haplotype of the first painted scaffold of the map in file order
(whatever its name); a group of homologues is a scaffold of the first haplotype and the painted scaffolds of the other
haplotypes that follow it up to the next scaffold of the first haplotype.
Holes in H_1..H_n (haplotigs) and holes in <chromosome>_unloc_1..m are judged apart: only the unloc hole can carry the
known class c10-unloc-number-hole.
"Length" of unlocs / haplotigs is not qualified in the statement: a ranking is accepted if it is non-increasing in
sequence length OR in length including gaps.
"Name-tagged scaffolds become <prefix><tag>" is judged for every Pretext scaffold carrying a chromosome-name tag (--help: "Upper
case letters followed by zero or more digits are assumed to be chromosome names", nothing there asks for paint), painted or not.
The statement says "written": for cases carrying "cli_out" (an --output file name) the real command line (pretext-to-asm, in
process, temporary directory) is run as well and every assembly file it WRITES (TPF or AGP) is read back with a hand-written
reader: the scaffold names in the order of the file must be unique and in the order of the statement, and next to every
*.curated.* file that holds chromosomes there must be a <same stem>.chromosome.list.csv with exactly one line per chromosome or
unloc scaffold of that file, in the file's order, localised = no exactly for unlocs (and no such CSV otherwise).  This includes
the files of Primary-tag mode (--help: "Primary in a multi-haplotype Pretext map where only one of the haplotypes is being
curated"): *.primary.curated.* and the file of everything else, *.all_haplotigs.curated.*.
The *.all_haplotigs.* file is put together from several assemblies (the other haplotype, sequence of no haplotype); it is one
written file and is judged like any other: whatever the order of first appearance in the map and whatever the names (repaired
in /repo 005733b; before, the parts were written one after the other unsorted).
NOT generated: Primary-tag maps of three or more haplotypes (two non-curated haplotypes both hold a SUPER_1, which come
together in *.all_haplotigs.*): the statement's quantifier says "one or two haplotypes".
"""

import itertools
import math
import pathlib
import random
import re
import tempfile
from fractions import Fraction

from . import cli_gen
from . import pipeline_gen as pg
from .common import Collector

NAME_TAGS = ("X", "Y", "W", "Z", "B1", "B2")


def total_len(rows):
    return pg.rows_len(rows)


def classify(name, prefix):
    """('auto', number, unloc index|None) | ('named', base, unloc index|None) | ('unplaced',)"""
    if name.startswith(prefix):
        tail = name[len(prefix) :]
        m = re.fullmatch(r"(\d+)([A-Z]?)(?:_unloc_(\d+))?", tail)
        if m:
            return ("auto", int(m.group(1)), m.group(2), int(m.group(3)) if m.group(3) else None)
        m = re.fullmatch(r"(.+?)(?:_unloc_(\d+))?", tail)
        return ("named", m.group(1), "", int(m.group(2)) if m.group(2) else None)
    return ("unplaced",)


def anchor(in_toks, piece):
    """the sequence base nearest to the middle of the piece"""
    hi = min(piece[2], len(in_toks))
    mid = (piece[1] + hi) // 2
    for d in range(0, hi - piece[1] + 1):
        for q in (mid - d, mid + d):
            if piece[1] <= q <= hi and in_toks[q - 1][0] != "GAP":
                return in_toks[q - 1]
    return None


def non_increasing(xs):
    return all(a >= b for a, b in zip(xs, xs[1:]))


class Labeller:
    """
    Decides whether a failure is explained by one of the named mechanisms (class strings).  It never decides whether
    something IS a failure - that is the oracle's business - only whether a failure may carry a class.
    """

    def __init__(self, case, out, idx, in_toks, prefix):
        self.case, self.out, self.idx, self.in_toks, self.prefix = case, out, idx, in_toks, prefix
        self.mp = case["map"]
        # input contigs of every input scaffold in scaffold coordinates: (start, end, name, cstart, cend)
        self.rows_at = {}
        for s in case["input"]:
            pos = 0
            lst = []
            for r in s["rows"]:
                ln = pg.row_len(r)
                if r[0] == "F":
                    lst.append((pos + 1, pos + ln, r[1], r[2], r[3]))
                pos += ln
            self.rows_at[s["name"]] = lst
        # (assembly key, chromosome name) -> numbers of the painted Pretext scaffolds whose pieces ended up there
        self.k_of = {}
        for k, psc in enumerate(self.mp["scaffolds"], 1):
            if not any("Painted" in p[4] for p in psc):
                continue
            bases = set()
            for p in psc:
                if pg.piece_special(p):
                    continue
                t = anchor(in_toks[p[0]], p)
                for si, _ in idx.where.get((t[0], t[1]), []) if t else []:
                    key, sc, _ = idx.scaffolds[si]
                    if ("_unloc_" in sc["name"]) == ("Unloc" in p[4]):
                        bases.add((key, sc["name"].rsplit("_unloc_", 1)[0]))
            for b in bases:
                self.k_of.setdefault(b, set()).add(k)

    def scaffold_k(self, key, base):
        ks = self.k_of.get((key, base), set())
        if len(ks) != 1:
            return None
        (k,) = ks
        # the Pretext scaffold must not be claimed by another chromosome either
        if sum(1 for b, v in self.k_of.items() if k in v) != 1:
            return None
        return k

    def unloc_pieces(self, k):
        """Unloc-tagged pieces of Pretext scaffold k that overlap at least one contig (a gap-only piece finds nothing and gets no number)"""
        return [p for p in self.mp["scaffolds"][k - 1] if "Unloc" in p[4] and not pg.piece_special(p) and self.touched(p)]

    def unloc_only(self, key, base):
        k = self.scaffold_k(key, base)
        if k is None:
            return False
        # pieces that overlap no contig at all (gap-only) find nothing and are ignored
        plain = [p for p in self.mp["scaffolds"][k - 1] if not pg.piece_special(p) and self.touched(p)]
        return bool(plain) and all("Unloc" in p[4] for p in plain)

    def touched(self, piece):
        """input contigs overlapped by the piece: [(name, cstart, cend, lo, hi)] with lo..hi the contig bases inside the piece"""
        res = []
        toks = self.in_toks[piece[0]]
        for a, b, name, cs, ce in self.rows_at[piece[0]]:
            lo, hi = max(a, piece[1]), min(b, piece[2])
            if lo > hi:
                continue
            cov = sorted(toks[q - 1][1] for q in range(lo, hi + 1))
            res.append((name, cs, ce, cov[0], cov[-1]))
        return res

    def matchings(self, pieces, scaffolds, limit=2000):
        """every way to give each output scaffold a different piece whose range holds some of its bases: [{scaffold index: piece index}]"""
        holds = []
        for sc in scaffolds:
            seq = {(r[1], q) for r in sc["rows"] if r[0] == "F" for q in range(r[2], r[3] + 1)}
            holds.append([pi for pi, p in enumerate(pieces) if any((name, q) in seq for name, _, _, lo, hi in self.touched(p) for q in range(lo, hi + 1))])
        found = []

        def rec(si, used, cur):
            if len(found) >= limit:
                return
            if si == len(scaffolds):
                found.append(dict(cur))
                return
            for pi in holds[si]:
                if pi not in used:
                    used.add(pi)
                    cur[si] = pi
                    rec(si + 1, used, cur)
                    used.discard(pi)
                    del cur[si]

        rec(0, set(), {})
        return found

    def length_when_ranked(self, piece):
        """
        length of the rows an overlap lookup of the piece returns (first to last overlapped contig, gaps between included)
        after the large-overhang trim that is applied straight after the lookup: the quantity unlocs are ranked by
        """
        err = 1 + int(self.mp["bpt"] // 1)
        rows = [(a, b) for a, b, *_ in self.rows_at[piece[0]] if max(a, piece[1]) <= min(b, piece[2])]
        if not rows:
            return 0
        p1, p2 = piece[1], piece[2]
        if not (len(rows) == 1 and p2 - p1 + 1 > err):
            a, b = rows[0]
            if p1 - a > err and max(0, min(p2, b) - max(p1, a) + 1) < err:
                rows = rows[1:]
            if rows:
                a, b = rows[-1]
                if b - p2 > err and max(0, min(p2, b) - max(p1, a) + 1) < err:
                    rows = rows[:-1]
        return rows[-1][1] - rows[0][0] + 1 if rows else 0

    def awarded_away(self, piece):
        """every contig the piece touches is touched only in part, and lies unbroken across the piece boundary in the output"""
        tt = self.touched(piece)
        if not tt:
            return False
        for name, cs, ce, lo, hi in tt:
            sides = []
            if lo > cs:
                sides.append((lo - 1, lo))
            if hi < ce:
                sides.append((hi, hi + 1))
            if not sides:
                return False  # a contig lying wholly inside the piece cannot have been awarded to a neighbour
            joined = False
            for q1, q2 in sides:
                l1 = self.idx.where.get((name, q1), [])
                l2 = self.idx.where.get((name, q2), [])
                if len(l1) == 1 and len(l2) == 1 and l1[0][0] == l2[0][0] and abs(l1[0][1] - l2[0][1]) == 1:
                    joined = True
            if not joined:
                return False
        return True

    def hole_explained(self, key, base, lst):
        k = self.scaffold_k(key, base)
        if k is None:
            return False
        pieces = self.unloc_pieces(k)
        nums = [n for n, _ in lst]
        if not (len(pieces) > len(lst) and set(nums) <= set(range(1, len(pieces) + 1)) and len(set(nums)) == len(nums)):
            return False
        for m in self.matchings(pieces, [sc for _, sc in lst]):
            orphans = [p for pi, p in enumerate(pieces) if pi not in m.values()]
            if all(self.awarded_away(p) for p in orphans):
                return True
        return False

    def rank_explained(self, key, base, lst):
        k = self.scaffold_k(key, base)
        if k is None:
            return False
        pieces = self.unloc_pieces(k)
        everything = [p for psc in self.mp["scaffolds"] for p in psc]

        def shares(p):
            for name, cs, ce, _, _ in self.touched(p):
                for q in everything:
                    if q is not p and any(t[0] == name and t[1] == cs and t[2] == ce for t in self.touched(q)):
                        return True
            return False

        if not any(shares(p) for p in pieces):
            return False
        ranked = [self.length_when_ranked(p) for p in pieces]
        return any(non_increasing([ranked[m[si]] for si in range(len(lst))]) for m in self.matchings(pieces, [sc for _, sc in lst]))


def naming_problems(case, run):
    out = run.out
    prefix = case["prefix"]
    mp = case["map"]
    margin = pg.margin_of(mp["bpt"])
    in_toks = {s["name"]: pg.tokens(s["rows"]) for s in case["input"]}
    idx = pg.OutIndex(out)
    problems = []

    def P(msg, cls=None):
        problems.append((msg, cls))

    n_pieces_of = {}
    for psc in mp["scaffolds"]:
        for p in psc:
            n_pieces_of[p[0]] = n_pieces_of.get(p[0], 0) + 1
    lab = Labeller(case, out, idx, in_toks, prefix)

    # -- uniqueness and order, per assembly
    for key, asm in out.items():
        names = [sc["name"] for sc in asm["scaffolds"]]
        dup = sorted({n for n in names if names.count(n) > 1})
        if dup:
            P(f"assembly {key!r}: scaffold names not unique: {dup}")
            continue
        rank = {"auto": 0, "named": 1, "unplaced": 2}
        want = sorted(names, key=lambda n: (rank[classify(n, prefix)[0]], pg.natural_key(n)))
        if names != want:
            P(f"assembly {key!r}: scaffolds written in order {names}, expected {want}")
        # unloc numbering per chromosome: 1..m, non-increasing length
        by_base = {}
        for sc in asm["scaffolds"]:
            c = classify(sc["name"], prefix)
            if c[0] != "unplaced" and c[3] is not None:
                by_base.setdefault(sc["name"].rsplit("_unloc_", 1)[0], []).append((c[3], sc))
        for base, lst in by_base.items():
            lst.sort(key=lambda x: x[0])
            nums = [n for n, _ in lst]
            if nums != list(range(1, len(nums) + 1)):
                # class c10-unloc-number-hole ONLY IF: the chromosome has more Unloc-tagged pieces than unloc scaffolds because a
                # piece's overlap result was emptied (every contig it touched was awarded whole to a neighbouring piece) AND the
                # numbers present are a subset of 1..(number of Unloc pieces).  Any other hole / out-of-range number: no class.
                cls = "c10-unloc-number-hole" if lab.hole_explained(key, base, lst) else None
                P(f"assembly {key!r}: unlocs of {base} are numbered {nums}, expected 1..{len(nums)}", cls)
            if not (non_increasing([pg.seq_len(sc["rows"]) for _, sc in lst]) or non_increasing([total_len(sc["rows"]) for _, sc in lst])):
                # class c10-unloc-rank-precut-length ONLY IF: (a) an Unloc piece of this chromosome shares an input contig with
                # another Pretext piece and (b) the order IS non-increasing when every unloc is measured by the whole input
                # rows its piece overlapped when it was looked up (Labeller.length_when_ranked).  Otherwise: no class.
                cls = "c10-unloc-rank-precut-length" if lab.rank_explained(key, base, lst) else None
                P(f"assembly {key!r}: unlocs of {base} not in non-increasing length: {[(sc['name'], pg.seq_len(sc['rows'])) for _, sc in lst]}", cls)
        # autosome numbering: 1..n without holes (first haplotype / single haplotype), sizes non-increasing
        autos = {}
        for sc in asm["scaffolds"]:
            c = classify(sc["name"], prefix)
            if c[0] == "auto":
                autos.setdefault(c[1], 0)
                autos[c[1]] += pg.seq_len(sc["rows"])
        if autos and key == first_haplotype_key(case, out):
            nums = sorted(autos)
            if nums != list(range(1, len(nums) + 1)):
                P(f"assembly {key!r}: autosomes are numbered {nums}, expected 1..{len(nums)} without holes")
            sizes = [autos[n] for n in nums]
            if not non_increasing(sizes):
                P(f"assembly {key!r}: autosome numbers do not follow size: sequence length (with unlocs) by number {sizes}")
    # -- haplotigs
    if "Haplotig" in out:
        hs = out["Haplotig"]["scaffolds"]
        nums = []
        for sc in hs:
            m = re.fullmatch(r"H_(\d+)", sc["name"])
            if not m:
                P(f"haplotig scaffold named {sc['name']!r}")
            else:
                nums.append((int(m.group(1)), sc))
        nums.sort(key=lambda x: x[0])
        if [n for n, _ in nums] != list(range(1, len(nums) + 1)):
            P(f"haplotigs are numbered {[n for n, _ in nums]}, expected H_1..H_{len(nums)}")
        if not (non_increasing([pg.seq_len(sc["rows"]) for _, sc in nums]) or non_increasing([total_len(sc["rows"]) for _, sc in nums])):
            P(f"haplotigs not in non-increasing length: {[(sc['name'], pg.seq_len(sc['rows']), total_len(sc['rows'])) for _, sc in nums]}")

    # -- provenance: what each painted Pretext scaffold became
    def home(piece):
        core = pg.piece_core(in_toks[piece[0]], piece, margin)
        if core:
            t = core[0]
        elif n_pieces_of[piece[0]] == 1:
            t = anchor(in_toks[piece[0]], piece)  # an uncut scaffold: every base of it belongs to this piece
        else:
            t = None
        if not t:
            return None
        locs = idx.where.get((t[0], t[1]), [])
        return locs[0][0] if len(locs) == 1 else None

    infos = [pg.read_scaffold_tags(psc) for psc in mp["scaffolds"]]
    chrom_of = {}
    n_judged = 0
    for k, (psc, info) in enumerate(zip(mp["scaffolds"], infos, strict=True), 1):
        if info["target"] is False and any(i["target"] for i in infos):
            continue
        if not info["painted"]:
            # an unpainted scaffold carrying a chromosome-name tag: "name-tagged scaffolds become <prefix><tag>"
            if info["name_tag"]:
                for si in sorted({home(p) for p in psc if not pg.piece_special(p)} - {None}):
                    n_judged += 1
                    name = idx.scaffolds[si][1]["name"]
                    if name != prefix + info["name_tag"]:
                        P(f"Scaffold_{k} (not painted) is tagged {info['name_tag']!r} but was written as {name!r}, expected {prefix + info['name_tag']!r}: name-tagged scaffolds become <prefix><tag>")
            continue
        mains = {home(p) for p in psc if not pg.piece_special(p) and "Unloc" not in p[4]} - {None}
        unlocs = [home(p) for p in psc if not pg.piece_special(p) and "Unloc" in p[4]]
        unlocs = [u for u in unlocs if u is not None]
        base = None
        for si in mains:
            key, sc, _ = idx.scaffolds[si]
            c = classify(sc["name"], prefix)
            n_judged += 1
            if info["name_tag"]:
                if sc["name"] != prefix + info["name_tag"]:
                    P(f"Scaffold_{k} is painted and tagged {info['name_tag']!r} but was written as {sc['name']!r}, expected {prefix + info['name_tag']!r}")
            elif c[0] != "auto" or c[3] is not None:
                P(f"Scaffold_{k} is painted without a name tag but was written as {sc['name']!r}, expected {prefix}<n>")
            else:
                chrom_of[k] = (key, c[1])
            base = sc["name"]
        if len(set(unlocs)) != len(unlocs):
            P(f"two Unloc pieces of Scaffold_{k} were written to one scaffold")
        for si in unlocs:
            key, sc, _ = idx.scaffolds[si]
            n_judged += 1
            if "_unloc_" not in sc["name"]:
                P(f"an Unloc piece of Scaffold_{k} was written as {sc['name']!r}, expected <chromosome>_unloc_<n>")
            elif base is not None and sc["name"].rsplit("_unloc_", 1)[0] != base:
                P(f"an Unloc piece of Scaffold_{k} was written as {sc['name']!r} but its chromosome is {base!r}")
            elif base is None and k not in chrom_of:
                c = classify(sc["name"], prefix)
                if c[0] == "auto" and not info["name_tag"]:
                    chrom_of[k] = (key, c[1])
    # homologues share the number: painted scaffolds come in (first haplotype, second haplotype) pairs
    painted = [k for k, i in enumerate(infos, 1) if i["painted"] and not i["name_tag"] and i["hap"]]
    haps = []
    for k in painted:
        h = infos[k - 1]["hap"].lower()
        if h not in haps:
            haps.append(h)
    if len(haps) == 2:
        for a, b in zip(painted, painted[1:]):
            if infos[a - 1]["hap"].lower() == haps[0] and infos[b - 1]["hap"].lower() == haps[1] and a in chrom_of and b in chrom_of:
                if chrom_of[a][1] != chrom_of[b][1]:
                    P(f"homologues Scaffold_{a} and Scaffold_{b} got different numbers {chrom_of[a][1]} and {chrom_of[b][1]}")

    if len(haps) >= 3:
        # a group: a scaffold of the first haplotype and the scaffolds of the other haplotypes up to the next one of the first
        leader = None
        for k in painted:
            if infos[k - 1]["hap"].lower() == haps[0]:
                leader = k
            elif leader in chrom_of and k in chrom_of and chrom_of[leader][1] != chrom_of[k][1]:
                P(f"homologues Scaffold_{leader} and Scaffold_{k} got different numbers {chrom_of[leader][1]} and {chrom_of[k][1]}")

    # -- chromosome list CSV
    stats = run.build.assembly_stats
    for key, asm in out.items():
        if not asm["curated"]:
            continue
        with pg.quiet():
            text = stats.chromosome_name_csv(run.raw_out[key])
        lines = [ln.split(",") for ln in (text or "").splitlines()]
        want = [(sc["name"], "no" if "_unloc_" in sc["name"] else "yes") for sc in asm["scaffolds"] if classify(sc["name"], prefix)[0] != "unplaced"]
        got = [(ln[0], ln[-1]) for ln in lines]
        if any(len(ln) != 3 for ln in lines) or got != want:
            # class c10-unloc-only-chromosome-csv ONLY IF: every line has 3 columns, the names are all right, and each wrong
            # line is the FIRST line of a chromosome that has no chromosome scaffold, reads localised=yes instead of no, and the
            # painted Pretext scaffold behind that chromosome consists solely of Unloc pieces (gap-only pieces, which overlap no
            # contig, and Haplotig/Contaminant/FalseDuplicate pieces, which go elsewhere, not counted).  Anything else: no class.
            diffs = [i for i, (w, g) in enumerate(zip(want, got)) if w != g]
            only_unloc_first = (
                all(len(ln) == 3 for ln in lines)
                and len(want) == len(got)
                and bool(diffs)
                and all(
                    want[i][0] == got[i][0]
                    and (want[i][1], got[i][1]) == ("no", "yes")
                    and not any(x[0].rsplit("_unloc_", 1)[0] == want[i][0].rsplit("_unloc_", 1)[0] for x in want[:i])
                    and lab.unloc_only(key, want[i][0].rsplit("_unloc_", 1)[0])
                    for i in diffs
                )
            )
            P(f"assembly {key!r}: chromosome list CSV has (name, localised) {got}, expected {want}", "c10-unloc-only-chromosome-csv" if only_unloc_first else None)
    return problems, n_judged


# ---------------------------------------------------------------------------------------------- the written files

CLI_OUT_NAMES = ("out.tpf", "idTest1.2.agp", "x.agp", "mVulVul1.3.tpf")


def written_names(text, ext):
    """
    scaffold names of a written TPF / AGP assembly file in the order of the file, one entry per run of consecutive rows of one
    scaffold (a name that comes back later in the file is listed twice); hand-written reader, no project code
    """
    names = []
    for line in text.splitlines():
        if not line.strip() or line.startswith("#"):
            continue
        cols = line.split("\t")
        if ext == "tpf":
            if cols[0] == "GAP":
                continue
            name = cols[2]
            fresh = False
        else:
            name = cols[0]
            fresh = cols[1] == "1"  # AGP: the object coordinates start again: another scaffold, even under the same name
        if not names or names[-1] != name or fresh:
            names.append(name)
    return names


def run_cli(case):
    """
    the case through the real command line: -a input (AGP or TPF text), -p PretextView AGP, -o <tmp>/out/<case["cli_out"]>,
    -c prefix -> (exit code, error text, {assembly file name: [scaffold names in file order]}, {csv file name: [[columns]]})
    """
    out_name = case["cli_out"]
    ext = out_name.rsplit(".", 1)[1].lower()
    with tempfile.TemporaryDirectory() as d:
        d = pathlib.Path(d)
        if case.get("via") == "tpf" and pg.tpf_ok(case["input"]):
            asm = d / "asm.tpf"
            asm.write_text(pg.input_tpf_text(case["input"]))
        else:
            asm = d / "asm.agp"
            asm.write_text(pg.input_agp_text(case["input"]))
        (d / "pretext.agp").write_text(pg.pretext_agp_text(case["map"]))
        out_dir = d / "out"
        out_dir.mkdir()
        args = ["-a", asm, "-p", d / "pretext.agp", "-o", out_dir / out_name, "-c", case.get("prefix", "SUPER_"), "--no-write-log", "-l", "ERROR"]
        code, _, err, exc = cli_gen.run_pretext_to_asm(args)
        files, csvs = {}, {}
        for path in sorted(out_dir.iterdir()):
            if not path.is_file():
                continue
            if path.name.lower().endswith("." + ext):
                files[path.name] = written_names(path.read_text(), ext)
            elif path.name.endswith(".chromosome.list.csv"):
                csvs[path.name] = [ln.split(",") for ln in path.read_text().splitlines()]
    return code, ((exc or "") + " " + (err or "")).strip()[-300:], files, csvs


def written_problems(case, files, csvs, judge_csv=True):
    """the statement, read on the files the command line wrote -> [message]"""
    prefix = case["prefix"]
    rank = {"auto": 0, "named": 1, "unplaced": 2}
    problems = []
    claimed = set()
    for fn, names in files.items():
        dup = sorted({n for n in names if names.count(n) > 1})
        if dup:
            problems.append(f"written file {fn}: scaffold names not unique: {dup} (order of the file: {names})")
            continue
        want = sorted(names, key=lambda n: (rank[classify(n, prefix)[0]], pg.natural_key(n)))
        if names != want:
            problems.append(f"written file {fn}: scaffolds are written in order {names}, expected {want} (autosomes with their unlocs, named chromosomes, unplaced, each in numeric-aware name order)")
        if ".curated." not in fn or not judge_csv:
            continue
        csv_name = fn[: fn.index(".curated.")] + ".chromosome.list.csv"
        claimed.add(csv_name)
        want_csv = [(n, "no" if "_unloc_" in n else "yes") for n in names if classify(n, prefix)[0] != "unplaced"]
        lines = csvs.get(csv_name, [])
        got_csv = [(ln[0], ln[-1]) for ln in lines]
        if any(len(ln) != 3 for ln in lines) or got_csv != want_csv:
            problems.append(f"written file {csv_name}: (name, localised) {got_csv if csv_name in csvs else 'no such file'}, expected one line per chromosome or unloc scaffold of {fn}: {want_csv}")
    if judge_csv:
        for csv_name in sorted(set(csvs) - claimed):
            problems.append(f"written file {csv_name} belongs to no written *.curated.* assembly file (files: {sorted(files)})")
    return problems


def first_haplotype_key(case, out):
    """assembly key whose numbering must be hole-free and size-ranked: the primary, or the first haplotype of the map"""
    for psc in case["map"]["scaffolds"]:
        info = pg.read_scaffold_tags(psc)
        if info["painted"] and not info["name_tag"]:
            if info["hap"] is None:
                return None
            for key in out:
                if isinstance(key, str) and key.lower() == info["hap"].lower():
                    return key
            return info["hap"]
    return None


def check(case, col, side=None):
    run = pg.run_case(case)
    if run.error is not None:
        if type(run.error).__name__ in ("TaggingError", "ChrNamerError"):
            return None
        col.fail(f"consistently tagged PretextView-model map: no names were produced, remapping crashed ({run.stage}): {run.error_text}", case)
        return None
    problems, judged = naming_problems(case, run)
    if case.get("cli_out"):
        code, err, files, csvs = run_cli(case)
        if code != 0:
            col.fail(f"consistently tagged PretextView-model map which the library calls accept: pretext-to-asm -o {case['cli_out']} exits with {code}: {err}", case)
            return None
        # a chromosome list that is already wrong in memory (known class or not) is reported there, not a second time for the file
        csv_ok = not any("chromosome list CSV" in m for m, _ in problems)
        problems.extend((m, None) for m in written_problems(case, files, csvs, judge_csv=csv_ok))
    if problems:
        # a failure carries class strings only if EVERY problem of the case is explained by a named class; a case with any
        # unexplained problem is a plain failure (classes []), with the unexplained problems first in the message
        all_classed = all(c for _, c in problems)
        classes = sorted({c for _, c in problems}) if all_classed else []
        problems = sorted(problems, key=lambda mc: mc[1] is not None)
        msg = "; ".join(m for m, _ in problems[:3])
        if side is not None and all_classed:
            side.setdefault(tuple(classes), []).append({"message": msg, "input": case, "classes": classes})
        else:
            col.fail(msg, case, classes)
    return judged


def replay(inp):
    col = Collector("replay")
    check(inp, col)
    return col.failures[0]["message"] if col.failures else None


# ---------------------------------------------------------------------------------------------- generator

LENS = (20, 40, 40, 70, 150, 150, 400)


def make_case(rng, idx, allow_unloc_only=True):
    two = rng.random() < 0.35
    bpt = rng.choice(pg.BPTS)
    prefix = rng.choice(("SUPER_", "SUPER_", "chr", "Chr_"))
    hap_tags = rng.choice((("Hap1", "Hap2"), ("HAP1", "HAP2"), ("Mat", "Pat"))) if two else ()
    cut_mode = rng.random() < 0.3
    n_groups = rng.choice((1, 2, 2, 3, 3, 4, 5, 11)) if not two else rng.choice((1, 2, 2, 3, 5))
    src_n = 0
    inp = []
    cache = {}

    def new_pieces(n_contigs=None, hap=None, cut_p=0.6, min_len=0, lens=LENS, gap_choices=((10, "scaffold"), (1, "contig"), (200, "scaffold"), None)):
        """a fresh input scaffold and its pieces (whole, or cut in cut_mode)"""
        nonlocal src_n
        src_n += 1
        k = n_contigs or rng.choice((1, 1, 2))
        lt = [rng.choice([x for x in lens if x >= min_len]) for _ in range(k)]
        if two:
            h = hap or rng.choice(hap_tags)
            form = rng.choice((h.upper(), h.lower(), h))
            name = f"{form}_SCAFFOLD_{src_n}" if form.isupper() else f"{form}_scaffold_{src_n}"
            naming = "fasta"
        else:
            name = f"scaffold_{src_n}"
            naming = rng.choice(("own", "fasta", "offset"))
        gaps = [rng.choice(gap_choices) for _ in range(k - 1)]
        s = pg.make_scaffold(name, lt, [rng.choice((1, -1)) for _ in range(k)], gaps, naming, tag=str(src_n))
        inp.append(s)
        ln = pg.rows_len(s["rows"])
        rounding = rng.choice(("floor", "ceil"))
        n = pg.texels(ln, bpt, rounding)
        if n < 1:
            return []
        cs = pg.sample_cut_set(s["rows"], bpt, n, rng, 2, cache) if cut_mode and rng.random() < cut_p else ()
        return pg.pieces_of(s, bpt, rounding, cs)

    plan = []
    tags_left = list(NAME_TAGS)
    rng.shuffle(tags_left)
    for _ in range(n_groups):
        name_tag = tags_left.pop() if tags_left and rng.random() < 0.2 else None
        members = hap_tags if two else (None,)
        singleton = two and rng.random() < 0.15
        for h in members[:1] if singleton else members:
            pcs = []
            unloc_only = allow_unloc_only and rng.random() < 0.004
            for p in new_pieces(hap=h, min_len=40):
                pcs.append((p, rng.choice((1, -1)), ["Unloc"] if unloc_only else []))
            if rng.random() < 0.3:
                for p in new_pieces(hap=h):
                    pcs.append((p, rng.choice((1, -1)), ["Unloc"] if unloc_only else []))
            for _ in range(rng.choice((0, 0, 0, 1, 2, 3))):
                if cut_mode and rng.random() < 0.25:
                    # a gappy scaffold of short contigs cut into pieces, only some of which are marked Unloc
                    src = new_pieces(rng.choice((2, 3)), hap=h, cut_p=1.0, lens=(7, 20, 40, 40, 150), gap_choices=((100, "scaffold"), (10, "scaffold"), (200, "scaffold")))
                    for p in src:
                        pcs.append((p, rng.choice((1, -1)), ["Unloc"] if rng.random() < 0.5 else []))
                    continue
                for p in new_pieces(1, hap=h, cut_p=0.1):
                    pcs.append((p, rng.choice((1, -1)), ["Unloc"]))
            if rng.random() < 0.15:
                for p in new_pieces(1, hap=h):
                    pcs.append((p, rng.choice((1, -1)), ["Haplotig"]))
            if not pcs:
                continue
            if rng.random() < 0.3:
                head, rest = pcs[:1], pcs[1:]
                rng.shuffle(rest)
                pcs = head + rest
            plan.append({"painted": True, "hap": h, "name_tag": name_tag, "singleton": singleton, "pieces": pcs})
    # unplaced scaffolds, haplotigs in scaffolds of their own
    for _ in range(rng.randint(0, 4)):
        pcs = new_pieces()
        if pcs and rng.random() < 0.8:
            tg = ["Haplotig"] if rng.random() < 0.4 else []
            plan.append({"painted": False, "hap": None, "name_tag": None, "pieces": [(p, rng.choice((1, -1)), list(tg)) for p in pcs]})
    # chromosomes the curator named but did not paint (small sex / B chromosomes): one or two pieces, anywhere in the map
    if tags_left and rng.random() < 0.15:
        for _ in range(rng.choice((1, 1, 2))):
            if not tags_left:
                break
            pcs = new_pieces(1, cut_p=0.5, min_len=40)
            if pcs and rng.random() < 0.3:
                pcs = pcs + new_pieces(1, hap=pcs[0][0].split("_")[0] if two else None, cut_p=0.0)
            if pcs:
                sc = {"painted": False, "hap": None, "name_tag": tags_left.pop(), "pieces": [(p, rng.choice((1, -1)), []) for p in pcs]}
                plan.insert(rng.randint(0, len(plan)), sc)
    mp = pg.plan_to_map(plan, bpt, rng)
    return {"input": inp, "map": mp, "prefix": prefix, "via": pg.pick_via(inp, idx), "mode": "two" if two else "single"}


# ------------------------------------------------------------------------------- enumerated: order of the haplotypes

HAP_SETS2 = (("Hap1", "Hap2"), ("HAP1", "HAP2"), ("Mat", "Pat"), ("hapA", "hapB"))
HAP_SETS3 = (("Hap1", "Hap2", "Hap3"), ("Mat", "Pat", "Alt"))
FIRST_SIZES = (400, 300, 200)  # chromosomes of the first haplotype
OTHER_SIZES = (100, 500, 900)  # their homologues: a group's rank by its first haplotype differs from its rank by the others, by the sum and by the largest member


def hap_order_case(order, sizes, bpt, rng, n, extra=None):
    """
    order   the haplotype tags in the order of their first appearance in the map
    sizes   {tag: [chromosome length per group]}; the painted scaffolds are written group by group, inside a group in `order`
    extra   None | ("double", g)  the LAST haplotype of `order` has a second homologue (60 bp) in group g
                 | ("unloc", g)   the first haplotype's chromosome of group g is followed by a 250 bp Unloc piece
                 | ("single", g)  group g has no homologue of the last haplotype (its first-haplotype scaffold is tagged Singleton)
    """
    inp = []
    plan = []

    def src(h, size):
        name = f"{h.upper()}_SCAFFOLD_{len(inp) + 1}"
        sc = pg.make_scaffold(name, [size], [rng.choice((1, -1))], None, "fasta", tag=str(len(inp) + 1))
        inp.append(sc)
        return pg.pieces_of(sc, bpt, "floor", ())[0]

    for g in range(len(sizes[order[0]])):
        for h in order:
            here = extra is not None and extra[1] == g
            if here and extra[0] == "single" and h == order[-1]:
                continue
            pcs = [(src(h, sizes[h][g]), rng.choice((1, -1)), [])]
            if here and extra[0] == "unloc" and h == order[0]:
                pcs.append((src(h, 250), rng.choice((1, -1)), ["Unloc"]))
            plan.append({"painted": True, "hap": h, "name_tag": None, "singleton": here and extra[0] == "single" and h == order[0], "pieces": pcs})
            if here and extra[0] == "double" and h == order[-1]:
                plan.append({"painted": True, "hap": h, "name_tag": None, "pieces": [(src(h, 60), rng.choice((1, -1)), [])]})
    mp = pg.plan_to_map(plan, bpt, rng)
    return {"input": inp, "map": mp, "prefix": ("SUPER_", "chr", "Chr_")[n % 3], "via": pg.pick_via(inp, n), "mode": ("two", "three")[len(order) - 2], "family": "hap-order"}


def hap_order_cases(tier, rng):
    """
    ENUMERATED scope "the first haplotype decides": maps of 2 or 3 haplotypes (tag sets HAP_SETS2 / HAP_SETS3) with EVERY order
    of first appearance of the haplotype tags, 3 groups of homologues (quick: also 2), the first haplotype's chromosomes 400 /
    300 / 200 bp in every order, the other haplotypes' homologues 100 / 500 / 900 bp in every order (so the size order differs
    between the haplotypes, and from the order by sum or by largest member); every fourth case with a second homologue of
    the last haplotype in a group, an Unloc piece that lifts a first-haplotype chromosome over a longer one, or a Singleton.
    quick: every tag set x order of appearance x order of the first haplotype's sizes (three haplotypes: two of the six), one or two of
    the others' size orders in rotation; thorough: all.
    """
    quick = tier == "quick"
    n = 0
    for n_hap, sets in ((2, HAP_SETS2), (3, HAP_SETS3)):
        for tags in sets:
            for pi, order in enumerate(itertools.permutations(tags)):
                firsts = list(itertools.permutations(FIRST_SIZES))
                others = list(itertools.product(itertools.permutations(OTHER_SIZES), repeat=n_hap - 1))
                for fi, first in enumerate(firsts):
                    if quick and n_hap == 3 and fi % 3 != order.index(tags[0]):
                        continue
                    pick = (fi * 5 + pi * 7 + len(tags[0])) % len(others)
                    for oi, other in enumerate(others):
                        if quick and oi != pick and (n_hap == 3 or oi != (pick + 3) % len(others)):
                            continue
                        n += 1
                        n_groups = 2 if quick and n % 3 == 0 else 3
                        sizes = {order[0]: list(first[:n_groups])}
                        for h, o in zip(order[1:], other, strict=True):
                            sizes[h] = list(o[:n_groups])
                        extra = None
                        if n % 4 == 0:
                            extra = (("double", "unloc", "single")[(n // 4) % 3], (n // 12) % n_groups)
                        yield hap_order_case(order, sizes, (1.0, 10.0)[n % 2], rng, n, extra)


# ------------------------------------------------------------------------------- enumerated: pieces that come to nothing


def sliver_host(kind, bpt, name, naming, tag, rng):
    """
    an input scaffold and its PretextView pieces, one of which (-> its index) is too small to be resolved at this texel size:
      trim_end / trim_start  the last / first texel of a 30-texel contig
      resolver               contig A, 100 bp gap, a short contig B lying across a texel boundary, 10 bp gap, contig C (150 bp),
                             cut in front of the gap and on the boundary inside B: the middle piece holds the gap and the smaller
                             part of B (less than a texel), the third piece the rest of B and C
    """
    f = pg.bptF(bpt)
    if kind in ("trim_end", "trim_start"):
        m = 30
        sc = pg.make_scaffold(name, [math.floor(m * f)], [rng.choice((1, -1))], None, naming, tag=tag)
        n = pg.texels(pg.rows_len(sc["rows"]), bpt, "ceil")
        pcs = pg.pieces_of(sc, bpt, "ceil", (n - 1,) if kind == "trim_end" else (1,))
        return sc, pcs, (1 if kind == "trim_end" else 0)
    len_b, left = {1.0: (2, 1), 2.5: (3, 1), 10.0: (7, 3), 33.3: (40, 13)}[bpt]
    tb = math.ceil(Fraction(230) / f)
    bb = math.floor(tb * f)  # last base in front of the texel boundary inside B
    len_a = bb - left - 100
    sc = pg.make_scaffold(name, [len_a, len_b, 150], [rng.choice((1, -1)) for _ in range(3)], [(100, "scaffold"), (10, "scaffold")], naming, tag=tag)
    n = pg.texels(pg.rows_len(sc["rows"]), bpt, "floor")
    ta = math.ceil(Fraction(len_a + 40) / f)
    pcs = pg.pieces_of(sc, bpt, "floor", (ta, tb))
    return sc, pcs, 1


def emptied_piece_case(series, kind, pos, sizes, bpt, rng, n, tail=False):
    """
    series "haplotig": a painted chromosome, then len(sizes) + 1 Haplotig pieces in Pretext order, the one at position `pos`
           being the unresolvable piece of sliver_host(kind) (its scaffold is painted, the other pieces of it are plain), the
           others whole input scaffolds of `sizes` bp in unpainted scaffolds of their own (tail: behind a painted chromosome)
    series "unloc": ONE painted scaffold: a 400 bp chromosome piece, then len(sizes) + 1 Unloc pieces, the one at position `pos`
           being the unresolvable piece (its neighbours of the same input scaffold stay plain pieces next to it)
    """
    inp = []
    naming = ("own", "fasta", "offset")[n % 3]

    def src(size):
        i = len(inp) + 1
        sc = pg.make_scaffold(f"scaffold_{i}", [size], [rng.choice((1, -1))], None, naming, tag=str(i))
        inp.append(sc)
        return pg.pieces_of(sc, bpt, "floor", ())[0]

    tag = {"haplotig": "Haplotig", "unloc": "Unloc"}[series]
    plan = [{"painted": True, "hap": None, "name_tag": None, "pieces": [(src(400), rng.choice((1, -1)), [])]}]
    host, host_pcs, sliver = sliver_host(kind, bpt, f"scaffold_{len(inp) + 1}", naming, str(len(inp) + 1), rng)
    inp.append(host)
    host_plan = [(pc, 1 if kind == "resolver" else rng.choice((1, -1)), [tag] if j == sliver else []) for j, pc in enumerate(host_pcs)]
    real = list(sizes)
    if series == "haplotig":
        for i in range(len(sizes) + 1):
            if i == pos:
                plan.append({"painted": True, "hap": None, "name_tag": None, "pieces": host_plan})
            else:
                pc = (src(real.pop(0)), rng.choice((1, -1)), ["Haplotig"])
                if tail:
                    plan.append({"painted": True, "hap": None, "name_tag": None, "pieces": [(src(300), 1, []), pc]})
                else:
                    plan.append({"painted": False, "hap": None, "name_tag": None, "pieces": [pc]})
    else:
        pcs = plan[0]["pieces"]
        for i in range(len(sizes) + 1):
            if i == pos:
                pcs.extend(host_plan)
            else:
                pcs.append((src(real.pop(0)), rng.choice((1, -1)), ["Unloc"]))
        plan.append({"painted": True, "hap": None, "name_tag": None, "pieces": [(src(300), 1, [])]})
    mp = pg.plan_to_map(plan, bpt, rng)
    return {"input": inp, "map": mp, "prefix": ("SUPER_", "chr")[n % 2], "via": pg.pick_via(inp, n), "mode": "single", "family": f"emptied-{series}"}


def emptied_piece_cases(tier, rng):
    """
    ENUMERATED scope "a numbered piece comes to nothing": a series of 3-4 Haplotig pieces (H_1..H_n) or of 3-4 Unloc pieces of
    one chromosome (<chromosome>_unloc_1..m) one of which - the first, a middle or the last of the series in Pretext order -
    cannot be resolved at the map's texel size (sliver_host: the last or first texel of a long contig, or the smaller part of a
    sub-texel contig shared with the neighbouring piece), the others 150 / 90 / 40 bp (thorough: also 90 / 90 / 40) in every order.
    The numbers of the scaffolds that ARE written must be 1..n without holes in non-increasing length, wherever the lost piece
    stood.  (Unloc series with a piece lost to the neighbour AFTER the unlocs were numbered: known class c10-unloc-number-hole.)
    """
    quick = tier == "quick"
    n = 0
    for series in ("haplotig", "unloc"):
        for kind in ("trim_end", "trim_start", "resolver"):
            for n_real, pos in ((2, 0), (2, 1), (2, 2), (3, 0), (3, 1), (3, 2), (3, 3)):
                for size_set in ((150, 90, 40),) if quick else ((150, 90, 40), (90, 90, 40)):
                    orders = sorted(set(itertools.permutations(size_set[:n_real] if n_real == 2 else size_set)))
                    for oi, sizes in enumerate(orders):
                        for bpt in (1.0, 10.0, 33.3, 2.5):
                            n += 1
                            if quick and (oi + pos + (bpt == 10.0)) % len(orders) != 0:
                                continue
                            if quick and bpt not in (10.0, (1.0, 33.3)[pos % 2]):
                                continue
                            yield emptied_piece_case(series, kind, pos, sizes, bpt, rng, n, tail=n % 3 == 0)


# ------------------------------------------------------------------------------- enumerated: named but not painted


def name_tag_case(haps, kind, tag, place, with_x, bpt, rng, n):
    """
    a map of 2 painted autosomes per haplotype (haps = () or (A, B): pairs of homologues), with_x: a painted pair tagged X,
    two untagged unplaced scaffolds, and ONE scaffold that carries the chromosome-name tag `tag` but is NOT painted:
      kind  one   a whole input scaffold          join  two whole input scaffolds
            cut   the two halves of one input scaffold, in order
            hap   (two-haplotype maps) a whole input scaffold named after one haplotype, also tagged with the other
      place front = first scaffold of the map / between = behind the first autosomes / back = behind the painted scaffolds /
            last = behind the unplaced ones
    """
    inp = []

    def src(h, size):
        i = len(inp) + 1
        name = f"{h.upper()}_SCAFFOLD_{i}" if h else f"scaffold_{i}"
        sc = pg.make_scaffold(name, [size], [rng.choice((1, -1))], None, "fasta" if h else ("own", "fasta", "offset")[n % 3], tag=str(i))
        inp.append(sc)
        return sc

    def whole(sc):
        return (pg.pieces_of(sc, bpt, "floor", ())[0], rng.choice((1, -1)), [])

    members = haps or (None,)
    sizes = {0: (400, 300), 1: (350, 380)}
    plan = []
    for g in range(2):
        for hi, h in enumerate(members):
            plan.append({"painted": True, "hap": h, "name_tag": None, "pieces": [whole(src(h, sizes[hi][g]))]})
    n_first = len(members)
    if with_x:
        for hi, h in enumerate(members):
            plan.append({"painted": True, "hap": h, "name_tag": "X", "pieces": [whole(src(h, 200 - 20 * hi))]})
    n_painted = len(plan)
    for h in members:
        plan.append({"painted": False, "hap": None, "name_tag": None, "pieces": [whole(src(h, 70))]})
    if not haps:
        plan.append({"painted": False, "hap": None, "name_tag": None, "pieces": [whole(src(None, 40))]})
    h0 = haps[n % 2] if haps else None
    first = src(h0, 150)
    if kind == "join":
        pcs = [whole(first), whole(src(h0, 90))]
    elif kind == "cut":
        n_tex = pg.texels(pg.rows_len(first["rows"]), bpt, "floor")
        pcs = [(pc, 1, []) for pc in pg.pieces_of(first, bpt, "floor", (n_tex // 2,))]
    else:
        pcs = [whole(first)]
    named = {"painted": False, "hap": haps[1 - n % 2] if kind == "hap" else None, "name_tag": tag, "pieces": pcs}
    plan.insert({"front": 0, "between": n_first, "back": n_painted, "last": len(plan)}[place], named)
    mp = pg.plan_to_map(plan, bpt, rng)
    return {"input": inp, "map": mp, "prefix": ("SUPER_", "chr", "Chr_")[n % 3], "via": ("agp", "tpf", "objects")[n % 3], "mode": "two" if haps else "single",
            "family": "name-tag", "cli_out": CLI_OUT_NAMES[n % len(CLI_OUT_NAMES)]}


def name_tag_cases(tier, rng):
    """
    ENUMERATED scope "named but not painted" (statement: name-tagged scaffolds become <prefix><tag>, are written behind the
    autosomes and in front of the unplaced scaffolds, and have a line in the chromosome list): name_tag_case for every kind x
    place x no haplotypes / two haplotypes; the tag (Y, W, Z, B1, B2), a painted X pair, prefix, texel size and output format
    rotate.  Every case also runs the command line.  thorough: x every tag x with / without X x texel sizes 1 and 10.
    """
    quick = tier == "quick"
    tags = ("Y", "W", "Z", "B1", "B2")
    n = 0
    for haps in ((), ("Hap1", "Hap2"), ("Mat", "Pat")):
        for kind in ("one", "join", "cut") + (("hap",) if haps else ()):
            for place in ("front", "between", "back", "last"):
                if quick:
                    n += 1
                    if haps == ("Mat", "Pat") and n % 2:
                        continue
                    yield name_tag_case(haps, kind, tags[n % len(tags)], place, n % 3 != 0, (1.0, 10.0)[(n // 2) % 2], rng, n)
                    continue
                for tag in tags:
                    for with_x in (False, True):
                        for bpt in (1.0, 10.0):
                            n += 1
                            yield name_tag_case(haps, kind, tag, place, with_x, bpt, rng, n)


# ------------------------------------------------------------------------------- enumerated: the files of Primary-tag mode


def primary_written_case(haps, primary, tagged, n_groups, extras, n_nohap, bpt, rng, n):
    """
    a two-haplotype map (haps = (A, B)) of which only haplotype P = haps[primary] is curated: its first painted scaffold carries
    the Primary tag.  n_groups pairs of painted homologues (A then B); tagged: every painted scaffold carries its haplotype's
    tag (else the haplotypes are known from the input names <HAP>_SCAFFOLD_<n> alone); extras: "unloc" an Unloc piece on the last
    chromosome of the OTHER haplotype, "named" a painted pair tagged Z, "haplotig" a Haplotig piece; unplaced scaffolds of both
    haplotypes; n_nohap unplaced scaffolds that belong to no haplotype, each ANYWHERE in the map (first scaffold of the map,
    between the chromosomes, in front of / behind the other haplotype's scaffolds) under names that sort anywhere (scaffold_<n>,
    unplaced_<n>, CTG<n>, MT, AAA<n>, ZZ<n>, ptg<n>l) and, at texel size 10, one more that is too short to be in the map.
    Never three haplotypes: the statement quantifies over one or two.
    The command line writes P to *.primary.curated.* and everything else that is curated to *.all_haplotigs.curated.*
    """
    p_hap, o_hap = haps[primary], haps[1 - primary]
    inp = []

    def src(h, lengths, name=None):
        i = len(inp) + 1
        name = name or (f"{h.upper()}_SCAFFOLD_{i}" if h else f"scaffold_{i}")
        sc = pg.make_scaffold(name, lengths, [rng.choice((1, -1)) for _ in lengths], [(10, "scaffold")] * (len(lengths) - 1), "fasta", tag=str(i))
        inp.append(sc)
        return sc

    def whole(sc, tags=()):
        return (pg.pieces_of(sc, bpt, "floor", ())[0], rng.choice((1, -1)), list(tags))

    sizes = {0: (300, 400, 250, 200), 1: (380, 280, 90, 350)}
    plan = []
    for g in range(n_groups):
        for hi, h in enumerate(haps):
            pcs = [whole(src(h, [sizes[hi][g]] if g else [sizes[hi][g], 40]))]
            if "unloc" in extras and h == o_hap and g == n_groups - 1:
                pcs.append(whole(src(h, [60]), ["Unloc"]))
            plan.append({"painted": True, "hap": h if tagged else None, "name_tag": None, "pieces": pcs, "of": h})
    if "named" in extras:
        for hi, h in enumerate(haps):
            plan.append({"painted": True, "hap": h if tagged else None, "name_tag": "Z", "pieces": [whole(src(h, [150 - 10 * hi]))], "of": h})
    for h in (o_hap, p_hap, o_hap):
        plan.append({"painted": False, "hap": None, "name_tag": None, "pieces": [whole(src(h, [rng.choice((70, 90, 120))]))]})
    if "haplotig" in extras:
        plan.append({"painted": False, "hap": None, "name_tag": None, "pieces": [whole(src(o_hap, [80]), ["Haplotig"])]})
    forms = ["scaffold_{}", "unplaced_{}", "CTG{}", "MT", "AAA{}", "ZZ{}", "ptg{}l"]
    rng.shuffle(forms)
    for _ in range(n_nohap):
        sc = src(None, [rng.choice((40, 70, 150))], name=forms.pop().format(len(inp) + 1))
        plan.insert(rng.randint(0, len(plan)), {"painted": False, "hap": None, "name_tag": None, "pieces": [whole(sc)]})
    if bpt > 7 and n % 2:
        src(None, [7], name=forms.pop().format(len(inp) + 1))  # shorter than a texel: absent from the map, of no haplotype
    first = next(k for k, sc in enumerate(plan) if sc["painted"] and sc.get("of") == p_hap)
    for sc in plan:
        sc.pop("of", None)
    mp = pg.plan_to_map(plan, bpt, rng)
    psc = mp["scaffolds"][first]
    where = rng.choice(("all", "first", "last"))
    for i, piece in enumerate(psc):
        if where == "all" or (where == "first" and i == 0) or (where == "last" and i == len(psc) - 1):
            piece[4].append("Primary")
    return {"input": inp, "map": mp, "prefix": ("SUPER_", "chr", "Chr_")[n % 3], "via": ("agp", "tpf", "objects")[n % 3], "mode": "two",
            "family": "primary-written", "cli_out": CLI_OUT_NAMES[n % len(CLI_OUT_NAMES)]}


def primary_written_cases(tier, rng):
    """
    ENUMERATED scope "the files of Primary-tag mode": primary_written_case for each haplotype tag set x curated haplotype (first /
    second of the map) x haplotype tags present / names only x 0, 1 or 2 unplaced scaffolds of no haplotype in seeded places of the
    map under names that sort in front of, between and behind the other names (with 0 and no absent scaffold the all_haplotigs
    file is one assembly, else it is put together from two) x 1-3 pairs of chromosomes x extras (Unloc
    on the other haplotype, a named pair Z, a Haplotig).  quick: pairs / extras / texel size rotate; thorough: every subset of
    the extras x 1-3 pairs x texel sizes 1 and 10.
    """
    quick = tier == "quick"
    all_extras = [tuple(x for x, keep in zip(("unloc", "named", "haplotig"), bits) if keep) for bits in itertools.product((False, True), repeat=3)]
    n = 0
    for haps in HAP_SETS2:
        for primary in (0, 1):
            for tagged in (True, False):
                for n_nohap in (0, 1, 2):
                    if quick:
                        n += 1
                        if (n + HAP_SETS2.index(haps)) % 2:
                            continue
                        yield primary_written_case(haps, primary, tagged, 1 + n % 3, all_extras[(n // 2) % 8], n_nohap, (1.0, 10.0)[(n // 2) % 2], rng, n)
                        continue
                    for extras in all_extras:
                        for n_groups in (1, 2, 3):
                            for bpt in (1.0, 10.0):
                                n += 1
                                yield primary_written_case(haps, primary, tagged, n_groups, extras, n_nohap, bpt, rng, n)


# ------------------------------------------------------------------------------- enumerated: tagged pieces of one input scaffold


def tagged_pieces_case(haps, special, pattern, style, spread, bpt, rng, n):
    """
    a map of one or two haplotypes (haps; 2 painted chromosomes each, tagged) and ONE input scaffold T cut at texel boundaries into
    len(pattern) pieces, each an unpainted Pretext scaffold of its own carrying the tag `special` (Haplotig / Contaminant /
    FalseDuplicate) and the haplotype tag pattern[i] (index into haps, or None = no haplotype tag): equal, different or partly
    missing haplotype tags on pieces that all go to the one assembly of their tag, where names must be unique.
      style  plain = T is called scaffold_<n>;  named = T is called <HAP>_SCAFFOLD_<n> after the first haplotype
      spread front = the pieces are the first scaffolds of the map / apart = one piece in front of each painted chromosome /
             back = behind the chromosomes
    """
    inp = []

    def src(h, lengths, gaps=None):
        i = len(inp) + 1
        name = f"{h.upper()}_SCAFFOLD_{i}" if h else f"scaffold_{i}"
        sc = pg.make_scaffold(name, lengths, [rng.choice((1, -1)) for _ in lengths], gaps, "fasta", tag=str(i))
        inp.append(sc)
        return sc

    plan = []
    for g in range(2):
        for hi, h in enumerate(haps):
            sc = src(h, [(400, 300)[g] - 30 * hi])
            plan.append({"painted": True, "hap": h, "name_tag": None, "pieces": [(pg.pieces_of(sc, bpt, "floor", ())[0], rng.choice((1, -1)), [])]})
    for h in haps:
        sc = src(h, [70])
        plan.append({"painted": False, "hap": None, "name_tag": None, "pieces": [(pg.pieces_of(sc, bpt, "floor", ())[0], 1, [])]})
    k = len(pattern)
    t_src = src(haps[0] if style == "named" else None, [120] * k if n % 2 else [120 * k], [(10, "scaffold")] * (k - 1) if n % 2 else None)
    n_tex = pg.texels(pg.rows_len(t_src["rows"]), bpt, "floor")
    cuts = tuple(n_tex * j // k for j in range(1, k))
    tagged = [{"painted": False, "hap": None if hi is None else haps[hi], "name_tag": None, "pieces": [(pc, rng.choice((1, -1)), [special])]}
              for pc, hi in zip(pg.pieces_of(t_src, bpt, "floor", cuts), pattern, strict=True)]
    if n % 3 == 0:
        tagged.reverse()
    n_painted = 2 * len(haps)
    if spread == "front":
        plan = tagged + plan
    elif spread == "back":
        plan = plan[:n_painted] + tagged + plan[n_painted:]
    else:
        for j, sc in enumerate(tagged):
            plan.insert(min(2 * j, len(plan)), sc)
    mp = pg.plan_to_map(plan, bpt, rng)
    return {"input": inp, "map": mp, "prefix": ("SUPER_", "chr", "Chr_")[n % 3], "via": ("agp", "tpf", "objects")[n % 3], "mode": "two" if len(haps) == 2 else "single",
            "family": "tagged-pieces", "cli_out": CLI_OUT_NAMES[n % len(CLI_OUT_NAMES)]}


def tagged_pieces_cases(tier, rng):
    """
    ENUMERATED scope "tagged pieces of one input scaffold" (statement: within each output assembly scaffold names are unique):
    tagged_pieces_case for 2 or 3 pieces x each of Haplotig / Contaminant / FalseDuplicate x EVERY pattern of haplotype tags on the
    pieces (first / second haplotype / none: equal, different, partly missing) in maps of two haplotypes (Hap1/Hap2, Mat/Pat) or
    one (Hap1: tag / none).  quick: two pieces: every pattern, three pieces: every fourth; name style, place and texel size
    rotate; thorough: x plain / named x front / apart / back x texel sizes 1 and 10.  Every case also runs the command line.
    """
    quick = tier == "quick"
    n = 0
    for haps in (("Hap1", "Hap2"), ("Mat", "Pat"), ("Hap1",)):
        if quick and haps == ("Mat", "Pat"):
            continue
        for k in (2, 3):
            for pi, pattern in enumerate(itertools.product([*range(len(haps)), None], repeat=k)):
                for si, special in enumerate(pg.SPECIAL_TAGS):
                    if quick:
                        n += 1
                        if k == 3 and (pi + si) % 4:
                            continue
                        yield tagged_pieces_case(haps, special, pattern, ("plain", "named")[n % 2], ("front", "apart", "back")[(n // 2) % 3], (1.0, 10.0)[(n // 3) % 2], rng, n)
                        continue
                    for style in ("plain", "named"):
                        for spread in ("front", "apart", "back"):
                            for bpt in (1.0, 10.0):
                                n += 1
                                yield tagged_pieces_case(haps, special, pattern, style, spread, bpt, rng, n)


def _fx(name, *rows):
    return {"name": name, "rows": list(rows)}


_P = ["Painted"]
# hand-made minimal cases that are always run (each reproduces one named class on the tree as first verified)
FIXED_CASES = [
    # unlocs are ranked before contigs are cut: the 4 bp piece outranks the 16 bp piece
    {
        "input": [_fx("scaffold_1", pg.F("scaffold_1", 1, 40)), _fx("scaffold_2", pg.F("scaffold_2", 1, 20))],
        "map": {"bpt": 1.0, "scaffolds": [[["scaffold_1", 1, 40, 1, _P], ["scaffold_2", 1, 4, 1, _P + ["Unloc"]], ["scaffold_2", 5, 20, 1, _P + ["Unloc"]]]]},
        "prefix": "SUPER_", "via": "agp", "mode": "single",
    },
    # a painted scaffold made of Unloc pieces only: its first unloc is listed as localised
    {
        "input": [_fx("scaffold_1", pg.F("scaffold_1", 1, 40)), _fx("scaffold_2", pg.F("scaffold_2", 1, 20))],
        "map": {"bpt": 1.0, "scaffolds": [[["scaffold_1", 1, 40, 1, _P]], [["scaffold_2", 1, 20, 1, _P + ["Unloc"]]]]},
        "prefix": "SUPER_", "via": "agp", "mode": "single",
    },
    # an Unloc piece (gap + 13 bp sliver of ctgB) takes number 1 and is emptied afterwards: SUPER_1_unloc_2 without _unloc_1
    {
        "input": [
            _fx("scaffold_1", pg.F("scaffold_1", 1, 400)),
            _fx("scaffold_2", pg.F("ctgA", 1, 120), pg.G(100), pg.F("ctgB", 1, 40), pg.G(10), pg.F("ctgC", 1, 150)),
            _fx("scaffold_3", pg.F("scaffold_3", 1, 34)),
        ],
        "map": {"bpt": 33.3, "scaffolds": [[["scaffold_1", 1, 399, 1, _P], ["scaffold_2", 1, 166, 1, _P], ["scaffold_2", 167, 233, 1, _P + ["Unloc"]],
                                           ["scaffold_2", 234, 399, 1, _P], ["scaffold_3", 1, 33, 1, _P + ["Unloc"]]]]},
        "prefix": "SUPER_", "via": "agp", "mode": "single",
    },
]


def run(tier, seed, **opts):
    rng = random.Random(seed)
    col = Collector(
        "seeded tagged PretextView-model maps: 1-11 painted chromosomes (two-haplotype maps: 1-5 pairs in first/second "
        "haplotype order, 15 % singletons) each built from 1-2 whole input scaffolds (30 % of the maps: cut at texel "
        "boundaries), 0-3 Unloc pieces, 15 % a Haplotig piece, 20 % name-tagged (X, Y, W, Z, B1, B2), 0.4 % unloc-only; 0-4 "
        "unplaced scaffolds (40 % tagged Haplotig); contig lengths from {20,40,40,70,150,150,400} so that equal sizes are "
        "frequent; prefixes SUPER_/chr/Chr_; PLUS enumerated: maps of 2-3 haplotypes with every order of first appearance of the "
        "haplotype tags and chromosome sizes whose order differs between the haplotypes; series of 3-4 Haplotig / Unloc pieces one of "
        "which (first, middle, last) is too small to be resolved and is not written; 15 % of the seeded maps and an enumerated scope (one / two joined / two cut pieces, "
        "front / between / back / last, 0 or 2 haplotypes) hold a scaffold that carries a chromosome-name tag (Y, W, Z, B1, B2) but is NOT painted; an enumerated scope of "
        "Primary-tag maps (either haplotype curated, haplotype tags or names only, 0-2 unplaced scaffolds of no haplotype behind the other haplotype, Unloc / named pair / "
        "Haplotig); an enumerated scope of 2-3 pieces of ONE input scaffold, each an unpainted scaffold tagged Haplotig / Contaminant / FalseDuplicate under every pattern of "
        "haplotype tags (equal, different, partly missing); oracle: names, numbering, size ranking, order and CSV from the statement, on the returned dict and - for every enumerated case of these two scopes and "
        "every n-th seeded case - on the assembly files and *.chromosome.list.csv files the pretext-to-asm command line WRITES (TPF or AGP, read back by hand); "
        "non-trivial = distinct completed case with >= 2 painted scaffolds or an Unloc/Haplotig piece"
    )
    n_cases = 3500 if tier == "quick" else 80000
    cli_every = 20 if tier == "quick" else 40  # every n-th seeded case is also run through the command line
    stats = {"rejected_tagging": 0, "judged": 0, "single": 0, "two": 0, "three": 0, "hap-order": 0, "emptied-haplotig": 0, "emptied-unloc": 0, "name-tag": 0, "primary-written": 0, "tagged-pieces": 0, "enumerated_rejected": 0, "cli": 0}
    side = {}

    def stream():
        for c in FIXED_CASES:
            yield -1, c
        for c in hap_order_cases(tier, random.Random(f"c10-hap-order-{seed}")):
            yield -1, c
        for c in emptied_piece_cases(tier, random.Random(f"c10-emptied-{seed}")):
            yield -1, c
        for c in name_tag_cases(tier, random.Random(f"c10-name-tag-{seed}")):
            yield -1, c
        for c in primary_written_cases(tier, random.Random(f"c10-primary-written-{seed}")):
            yield -1, c
        for c in tagged_pieces_cases(tier, random.Random(f"c10-tagged-pieces-{seed}")):
            yield -1, c
        for j in range(n_cases):
            c = make_case(rng, j)
            if j % cli_every == 3:
                c["cli_out"] = CLI_OUT_NAMES[(j // cli_every) % len(CLI_OUT_NAMES)]
            yield j, c

    for i, case in stream():
        if col.full:
            break
        judged = check(case, col, side)
        stats[case["mode"]] += 1
        stats["cli"] += bool(case.get("cli_out"))
        if case.get("family"):
            stats[case["family"]] += 1
            stats["enumerated_rejected"] += judged is None
        if judged is None:
            stats["rejected_tagging"] += 1
        else:
            stats["judged"] += judged
        n_painted = sum(1 for sc in case["map"]["scaffolds"] if sc and "Painted" in sc[0][4])
        deco = any(t in ("Unloc", "Haplotig") for sc in case["map"]["scaffolds"] for p in sc for t in p[4])
        col.case(pg.case_key(case), nontrivial=judged is not None and (n_painted >= 2 or deco), sample=case if (judged and n_painted >= 3 and i % 997 == 5) else None)
    for classes, lst in side.items():
        col.failures.extend(lst[:2])
    return col.result(
        bounds=(
            f"{len(FIXED_CASES)} fixed hand-made cases + {stats['hap-order']} enumerated haplotype-order cases + {stats['emptied-haplotig']} / {stats['emptied-unloc']} "
            f"enumerated lost-piece cases in a Haplotig / Unloc series + {stats['name-tag']} enumerated named-but-not-painted cases + {stats['primary-written']} enumerated Primary-tag-mode cases + {stats['tagged-pieces']} enumerated cases of 2-3 equally tagged pieces of one input scaffold under equal / different / missing haplotype tags "
            f"({stats['enumerated_rejected']} enumerated cases rejected) + {n_cases} seeded cases; cases also run through the command line (written files judged): {stats['cli']}; up to ~40 input scaffolds x <= 3 contigs (lengths 7-400, gaps 1-200); texel sizes {{1,2.5,10,33.3}}; painted scaffolds / "
            f"unloc pieces whose destination was identified and judged: {stats['judged']}; maps rejected with "
            f"TaggingError/ChrNamerError (allowed): {stats['rejected_tagging']}; single-haplotype={stats['single']} "
            f"two-haplotype={stats['two']} three-haplotype={stats['three']}; cases failing only in a named class: "
            + (", ".join(f"{'+'.join(k)}={len(v)}" for k, v in side.items()) or "none")
        ),
        exhaustive=False,
    )
