"""
C10 bounded tier: names and order of the output scaffolds, judged on the outputs of tagged PretextView-model maps.
  * names unique within each output assembly
  * painted scaffolds without a name tag: <prefix>1..<prefix>n, no holes, non-increasing sequence length (chromosome
    plus its unlocs); two-haplotype maps: the first haplotype decides, the homologue grouped with it has the same number
  * name-tagged painted scaffolds: <prefix><tag>;  Unloc pieces: <chromosome>_unloc_1..m, non-increasing length;
    haplotigs: H_1..H_n, non-increasing length
  * order in every assembly: autosomes (each directly followed by its unlocs), named chromosomes, unplaced, each in
    numeric-aware name order
  * chromosome-list CSV (AssemblyStats.chromosome_name_csv): one line per chromosome or unloc scaffold, localised = no
    exactly for unlocs
"Length" of unlocs / haplotigs is not qualified in the statement: a ranking is accepted if it is non-increasing in
sequence length OR in length including gaps.
"""

import random
import re

from . import pipeline_gen as pg
from .common import Collector

NAME_TAGS = ("X", "Y", "W", "Z", "B1", "B2")


def total_len(rows):
    return pg.rows_len(rows)


def classify(name, prefix):
    """('auto', number, unloc index|None) | ('named', base, unloc index|None) | ('unplaced',)"""
    if name.startswith(prefix):
        tail = name[len(prefix) :]
        m = re.fullmatch(r"(\d+)([A-Z]?)(?:_unloc_(\d+))?", tail)
        if m:
            return ("auto", int(m.group(1)), m.group(2), int(m.group(3)) if m.group(3) else None)
        m = re.fullmatch(r"(.+?)(?:_unloc_(\d+))?", tail)
        return ("named", m.group(1), "", int(m.group(2)) if m.group(2) else None)
    return ("unplaced",)


def anchor(in_toks, piece):
    """the sequence base nearest to the middle of the piece"""
    hi = min(piece[2], len(in_toks))
    mid = (piece[1] + hi) // 2
    for d in range(0, hi - piece[1] + 1):
        for q in (mid - d, mid + d):
            if piece[1] <= q <= hi and in_toks[q - 1][0] != "GAP":
                return in_toks[q - 1]
    return None


def non_increasing(xs):
    return all(a >= b for a, b in zip(xs, xs[1:]))


class Labeller:
    """
    Decides whether a failure is explained by one of the named mechanisms (class strings).  It never decides whether
    something IS a failure - that is the oracle's business - only whether a failure may carry a class.
    """

    def __init__(self, case, out, idx, in_toks, prefix):
        self.case, self.out, self.idx, self.in_toks, self.prefix = case, out, idx, in_toks, prefix
        self.mp = case["map"]
        # input contigs of every input scaffold in scaffold coordinates: (start, end, name, cstart, cend)
        self.rows_at = {}
        for s in case["input"]:
            pos = 0
            lst = []
            for r in s["rows"]:
                ln = pg.row_len(r)
                if r[0] == "F":
                    lst.append((pos + 1, pos + ln, r[1], r[2], r[3]))
                pos += ln
            self.rows_at[s["name"]] = lst
        # (assembly key, chromosome name) -> numbers of the painted Pretext scaffolds whose pieces ended up there
        self.k_of = {}
        for k, psc in enumerate(self.mp["scaffolds"], 1):
            if not any("Painted" in p[4] for p in psc):
                continue
            bases = set()
            for p in psc:
                if pg.piece_special(p):
                    continue
                t = anchor(in_toks[p[0]], p)
                for si, _ in idx.where.get((t[0], t[1]), []) if t else []:
                    key, sc, _ = idx.scaffolds[si]
                    if ("_unloc_" in sc["name"]) == ("Unloc" in p[4]):
                        bases.add((key, sc["name"].rsplit("_unloc_", 1)[0]))
            for b in bases:
                self.k_of.setdefault(b, set()).add(k)

    def scaffold_k(self, key, base):
        ks = self.k_of.get((key, base), set())
        if len(ks) != 1:
            return None
        (k,) = ks
        # the Pretext scaffold must not be claimed by another chromosome either
        if sum(1 for b, v in self.k_of.items() if k in v) != 1:
            return None
        return k

    def unloc_pieces(self, k):
        """Unloc-tagged pieces of Pretext scaffold k that overlap at least one contig (a gap-only piece finds nothing and gets no number)"""
        return [p for p in self.mp["scaffolds"][k - 1] if "Unloc" in p[4] and not pg.piece_special(p) and self.touched(p)]

    def unloc_only(self, key, base):
        k = self.scaffold_k(key, base)
        if k is None:
            return False
        # pieces that overlap no contig at all (gap-only) find nothing and are ignored
        plain = [p for p in self.mp["scaffolds"][k - 1] if not pg.piece_special(p) and self.touched(p)]
        return bool(plain) and all("Unloc" in p[4] for p in plain)

    def touched(self, piece):
        """input contigs overlapped by the piece: [(name, cstart, cend, lo, hi)] with lo..hi the contig bases inside the piece"""
        res = []
        toks = self.in_toks[piece[0]]
        for a, b, name, cs, ce in self.rows_at[piece[0]]:
            lo, hi = max(a, piece[1]), min(b, piece[2])
            if lo > hi:
                continue
            cov = sorted(toks[q - 1][1] for q in range(lo, hi + 1))
            res.append((name, cs, ce, cov[0], cov[-1]))
        return res

    def matchings(self, pieces, scaffolds, limit=2000):
        """every way to give each output scaffold a different piece whose range holds some of its bases: [{scaffold index: piece index}]"""
        holds = []
        for sc in scaffolds:
            seq = {(r[1], q) for r in sc["rows"] if r[0] == "F" for q in range(r[2], r[3] + 1)}
            holds.append([pi for pi, p in enumerate(pieces) if any((name, q) in seq for name, _, _, lo, hi in self.touched(p) for q in range(lo, hi + 1))])
        found = []

        def rec(si, used, cur):
            if len(found) >= limit:
                return
            if si == len(scaffolds):
                found.append(dict(cur))
                return
            for pi in holds[si]:
                if pi not in used:
                    used.add(pi)
                    cur[si] = pi
                    rec(si + 1, used, cur)
                    used.discard(pi)
                    del cur[si]

        rec(0, set(), {})
        return found

    def length_when_ranked(self, piece):
        """
        length of the rows an overlap lookup of the piece returns (first to last overlapped contig, gaps between included)
        after the large-overhang trim that is applied straight after the lookup: the quantity unlocs are ranked by
        """
        err = 1 + int(self.mp["bpt"] // 1)
        rows = [(a, b) for a, b, *_ in self.rows_at[piece[0]] if max(a, piece[1]) <= min(b, piece[2])]
        if not rows:
            return 0
        p1, p2 = piece[1], piece[2]
        if not (len(rows) == 1 and p2 - p1 + 1 > err):
            a, b = rows[0]
            if p1 - a > err and max(0, min(p2, b) - max(p1, a) + 1) < err:
                rows = rows[1:]
            if rows:
                a, b = rows[-1]
                if b - p2 > err and max(0, min(p2, b) - max(p1, a) + 1) < err:
                    rows = rows[:-1]
        return rows[-1][1] - rows[0][0] + 1 if rows else 0

    def awarded_away(self, piece):
        """every contig the piece touches is touched only in part, and lies unbroken across the piece boundary in the output"""
        tt = self.touched(piece)
        if not tt:
            return False
        for name, cs, ce, lo, hi in tt:
            sides = []
            if lo > cs:
                sides.append((lo - 1, lo))
            if hi < ce:
                sides.append((hi, hi + 1))
            if not sides:
                return False  # a contig lying wholly inside the piece cannot have been awarded to a neighbour
            joined = False
            for q1, q2 in sides:
                l1 = self.idx.where.get((name, q1), [])
                l2 = self.idx.where.get((name, q2), [])
                if len(l1) == 1 and len(l2) == 1 and l1[0][0] == l2[0][0] and abs(l1[0][1] - l2[0][1]) == 1:
                    joined = True
            if not joined:
                return False
        return True

    def hole_explained(self, key, base, lst):
        k = self.scaffold_k(key, base)
        if k is None:
            return False
        pieces = self.unloc_pieces(k)
        nums = [n for n, _ in lst]
        if not (len(pieces) > len(lst) and set(nums) <= set(range(1, len(pieces) + 1)) and len(set(nums)) == len(nums)):
            return False
        for m in self.matchings(pieces, [sc for _, sc in lst]):
            orphans = [p for pi, p in enumerate(pieces) if pi not in m.values()]
            if all(self.awarded_away(p) for p in orphans):
                return True
        return False

    def rank_explained(self, key, base, lst):
        k = self.scaffold_k(key, base)
        if k is None:
            return False
        pieces = self.unloc_pieces(k)
        everything = [p for psc in self.mp["scaffolds"] for p in psc]

        def shares(p):
            for name, cs, ce, _, _ in self.touched(p):
                for q in everything:
                    if q is not p and any(t[0] == name and t[1] == cs and t[2] == ce for t in self.touched(q)):
                        return True
            return False

        if not any(shares(p) for p in pieces):
            return False
        ranked = [self.length_when_ranked(p) for p in pieces]
        return any(non_increasing([ranked[m[si]] for si in range(len(lst))]) for m in self.matchings(pieces, [sc for _, sc in lst]))


def naming_problems(case, run):
    out = run.out
    prefix = case["prefix"]
    mp = case["map"]
    margin = pg.margin_of(mp["bpt"])
    in_toks = {s["name"]: pg.tokens(s["rows"]) for s in case["input"]}
    idx = pg.OutIndex(out)
    problems = []

    def P(msg, cls=None):
        problems.append((msg, cls))

    n_pieces_of = {}
    for psc in mp["scaffolds"]:
        for p in psc:
            n_pieces_of[p[0]] = n_pieces_of.get(p[0], 0) + 1
    lab = Labeller(case, out, idx, in_toks, prefix)

    # -- uniqueness and order, per assembly
    for key, asm in out.items():
        names = [sc["name"] for sc in asm["scaffolds"]]
        dup = sorted({n for n in names if names.count(n) > 1})
        if dup:
            P(f"assembly {key!r}: scaffold names not unique: {dup}")
            continue
        rank = {"auto": 0, "named": 1, "unplaced": 2}
        want = sorted(names, key=lambda n: (rank[classify(n, prefix)[0]], pg.natural_key(n)))
        if names != want:
            P(f"assembly {key!r}: scaffolds written in order {names}, expected {want}")
        # unloc numbering per chromosome: 1..m, non-increasing length
        by_base = {}
        for sc in asm["scaffolds"]:
            c = classify(sc["name"], prefix)
            if c[0] != "unplaced" and c[3] is not None:
                by_base.setdefault(sc["name"].rsplit("_unloc_", 1)[0], []).append((c[3], sc))
        for base, lst in by_base.items():
            lst.sort(key=lambda x: x[0])
            nums = [n for n, _ in lst]
            if nums != list(range(1, len(nums) + 1)):
                # class c10-unloc-number-hole ONLY IF: the chromosome has more Unloc-tagged pieces than unloc scaffolds because a
                # piece's overlap result was emptied (every contig it touched was awarded whole to a neighbouring piece) AND the
                # numbers present are a subset of 1..(number of Unloc pieces).  Any other hole / out-of-range number: no class.
                cls = "c10-unloc-number-hole" if lab.hole_explained(key, base, lst) else None
                P(f"assembly {key!r}: unlocs of {base} are numbered {nums}, expected 1..{len(nums)}", cls)
            if not (non_increasing([pg.seq_len(sc["rows"]) for _, sc in lst]) or non_increasing([total_len(sc["rows"]) for _, sc in lst])):
                # class c10-unloc-rank-precut-length ONLY IF: (a) an Unloc piece of this chromosome shares an input contig with
                # another Pretext piece and (b) the order IS non-increasing when every unloc is measured by the whole input
                # rows its piece overlapped when it was looked up (Labeller.length_when_ranked).  Otherwise: no class.
                cls = "c10-unloc-rank-precut-length" if lab.rank_explained(key, base, lst) else None
                P(f"assembly {key!r}: unlocs of {base} not in non-increasing length: {[(sc['name'], pg.seq_len(sc['rows'])) for _, sc in lst]}", cls)
        # autosome numbering: 1..n without holes (first haplotype / single haplotype), sizes non-increasing
        autos = {}
        for sc in asm["scaffolds"]:
            c = classify(sc["name"], prefix)
            if c[0] == "auto":
                autos.setdefault(c[1], 0)
                autos[c[1]] += pg.seq_len(sc["rows"])
        if autos and key == first_haplotype_key(case, out):
            nums = sorted(autos)
            if nums != list(range(1, len(nums) + 1)):
                P(f"assembly {key!r}: autosomes are numbered {nums}, expected 1..{len(nums)} without holes")
            sizes = [autos[n] for n in nums]
            if not non_increasing(sizes):
                P(f"assembly {key!r}: autosome numbers do not follow size: sequence length (with unlocs) by number {sizes}")
    # -- haplotigs
    if "Haplotig" in out:
        hs = out["Haplotig"]["scaffolds"]
        nums = []
        for sc in hs:
            m = re.fullmatch(r"H_(\d+)", sc["name"])
            if not m:
                P(f"haplotig scaffold named {sc['name']!r}")
            else:
                nums.append((int(m.group(1)), sc))
        nums.sort(key=lambda x: x[0])
        if [n for n, _ in nums] != list(range(1, len(nums) + 1)):
            P(f"haplotigs are numbered {[n for n, _ in nums]}, expected H_1..H_{len(nums)}")
        if not (non_increasing([pg.seq_len(sc["rows"]) for _, sc in nums]) or non_increasing([total_len(sc["rows"]) for _, sc in nums])):
            P(f"haplotigs not in non-increasing length: {[(sc['name'], pg.seq_len(sc['rows']), total_len(sc['rows'])) for _, sc in nums]}")

    # -- provenance: what each painted Pretext scaffold became
    def home(piece):
        core = pg.piece_core(in_toks[piece[0]], piece, margin)
        if core:
            t = core[0]
        elif n_pieces_of[piece[0]] == 1:
            t = anchor(in_toks[piece[0]], piece)  # an uncut scaffold: every base of it belongs to this piece
        else:
            t = None
        if not t:
            return None
        locs = idx.where.get((t[0], t[1]), [])
        return locs[0][0] if len(locs) == 1 else None

    infos = [pg.read_scaffold_tags(psc) for psc in mp["scaffolds"]]
    chrom_of = {}
    n_judged = 0
    for k, (psc, info) in enumerate(zip(mp["scaffolds"], infos, strict=True), 1):
        if not info["painted"] or (info["target"] is False and any(i["target"] for i in infos)):
            continue
        mains = {home(p) for p in psc if not pg.piece_special(p) and "Unloc" not in p[4]} - {None}
        unlocs = [home(p) for p in psc if not pg.piece_special(p) and "Unloc" in p[4]]
        unlocs = [u for u in unlocs if u is not None]
        base = None
        for si in mains:
            key, sc, _ = idx.scaffolds[si]
            c = classify(sc["name"], prefix)
            n_judged += 1
            if info["name_tag"]:
                if sc["name"] != prefix + info["name_tag"]:
                    P(f"Scaffold_{k} is painted and tagged {info['name_tag']!r} but was written as {sc['name']!r}, expected {prefix + info['name_tag']!r}")
            elif c[0] != "auto" or c[3] is not None:
                P(f"Scaffold_{k} is painted without a name tag but was written as {sc['name']!r}, expected {prefix}<n>")
            else:
                chrom_of[k] = (key, c[1])
            base = sc["name"]
        if len(set(unlocs)) != len(unlocs):
            P(f"two Unloc pieces of Scaffold_{k} were written to one scaffold")
        for si in unlocs:
            key, sc, _ = idx.scaffolds[si]
            n_judged += 1
            if "_unloc_" not in sc["name"]:
                P(f"an Unloc piece of Scaffold_{k} was written as {sc['name']!r}, expected <chromosome>_unloc_<n>")
            elif base is not None and sc["name"].rsplit("_unloc_", 1)[0] != base:
                P(f"an Unloc piece of Scaffold_{k} was written as {sc['name']!r} but its chromosome is {base!r}")
            elif base is None and k not in chrom_of:
                c = classify(sc["name"], prefix)
                if c[0] == "auto" and not info["name_tag"]:
                    chrom_of[k] = (key, c[1])
    # homologues share the number: painted scaffolds come in (first haplotype, second haplotype) pairs
    painted = [k for k, i in enumerate(infos, 1) if i["painted"] and not i["name_tag"] and i["hap"]]
    haps = []
    for k in painted:
        h = infos[k - 1]["hap"].lower()
        if h not in haps:
            haps.append(h)
    if len(haps) == 2:
        for a, b in zip(painted, painted[1:]):
            if infos[a - 1]["hap"].lower() == haps[0] and infos[b - 1]["hap"].lower() == haps[1] and a in chrom_of and b in chrom_of:
                if chrom_of[a][1] != chrom_of[b][1]:
                    P(f"homologues Scaffold_{a} and Scaffold_{b} got different numbers {chrom_of[a][1]} and {chrom_of[b][1]}")

    # -- chromosome list CSV
    stats = run.build.assembly_stats
    for key, asm in out.items():
        if not asm["curated"]:
            continue
        with pg.quiet():
            text = stats.chromosome_name_csv(run.raw_out[key])
        lines = [ln.split(",") for ln in (text or "").splitlines()]
        want = [(sc["name"], "no" if "_unloc_" in sc["name"] else "yes") for sc in asm["scaffolds"] if classify(sc["name"], prefix)[0] != "unplaced"]
        got = [(ln[0], ln[-1]) for ln in lines]
        if any(len(ln) != 3 for ln in lines) or got != want:
            # class c10-unloc-only-chromosome-csv ONLY IF: every line has 3 columns, the names are all right, and each wrong
            # line is the FIRST line of a chromosome that has no chromosome scaffold, reads localised=yes instead of no, and the
            # painted Pretext scaffold behind that chromosome consists solely of Unloc pieces (gap-only pieces, which overlap no
            # contig, and Haplotig/Contaminant/FalseDuplicate pieces, which go elsewhere, not counted).  Anything else: no class.
            diffs = [i for i, (w, g) in enumerate(zip(want, got)) if w != g]
            only_unloc_first = (
                all(len(ln) == 3 for ln in lines)
                and len(want) == len(got)
                and bool(diffs)
                and all(
                    want[i][0] == got[i][0]
                    and (want[i][1], got[i][1]) == ("no", "yes")
                    and not any(x[0].rsplit("_unloc_", 1)[0] == want[i][0].rsplit("_unloc_", 1)[0] for x in want[:i])
                    and lab.unloc_only(key, want[i][0].rsplit("_unloc_", 1)[0])
                    for i in diffs
                )
            )
            P(f"assembly {key!r}: chromosome list CSV has (name, localised) {got}, expected {want}", "c10-unloc-only-chromosome-csv" if only_unloc_first else None)
    return problems, n_judged


def first_haplotype_key(case, out):
    """assembly key whose numbering must be hole-free and size-ranked: the primary, or the first haplotype of the map"""
    for psc in case["map"]["scaffolds"]:
        info = pg.read_scaffold_tags(psc)
        if info["painted"] and not info["name_tag"]:
            if info["hap"] is None:
                return None
            for key in out:
                if isinstance(key, str) and key.lower() == info["hap"].lower():
                    return key
            return info["hap"]
    return None


def check(case, col, side=None):
    run = pg.run_case(case)
    if run.error is not None:
        if type(run.error).__name__ in ("TaggingError", "ChrNamerError"):
            return None
        col.fail(f"consistently tagged PretextView-model map: no names were produced, remapping crashed ({run.stage}): {run.error_text}", case)
        return None
    problems, judged = naming_problems(case, run)
    if problems:
        # a failure carries class strings only if EVERY problem of the case is explained by a named class; a case with any
        # unexplained problem is a plain failure (classes []), with the unexplained problems first in the message
        all_classed = all(c for _, c in problems)
        classes = sorted({c for _, c in problems}) if all_classed else []
        problems = sorted(problems, key=lambda mc: mc[1] is not None)
        msg = "; ".join(m for m, _ in problems[:3])
        if side is not None and all_classed:
            side.setdefault(tuple(classes), []).append({"message": msg, "input": case, "classes": classes})
        else:
            col.fail(msg, case, classes)
    return judged


def replay(inp):
    col = Collector("replay")
    check(inp, col)
    return col.failures[0]["message"] if col.failures else None


# ---------------------------------------------------------------------------------------------- generator

LENS = (20, 40, 40, 70, 150, 150, 400)


def make_case(rng, idx, allow_unloc_only=True):
    two = rng.random() < 0.35
    bpt = rng.choice(pg.BPTS)
    prefix = rng.choice(("SUPER_", "SUPER_", "chr", "Chr_"))
    hap_tags = rng.choice((("Hap1", "Hap2"), ("HAP1", "HAP2"), ("Mat", "Pat"))) if two else ()
    cut_mode = rng.random() < 0.3
    n_groups = rng.choice((1, 2, 2, 3, 3, 4, 5, 11)) if not two else rng.choice((1, 2, 2, 3, 5))
    src_n = 0
    inp = []
    cache = {}

    def new_pieces(n_contigs=None, hap=None, cut_p=0.6, min_len=0, lens=LENS, gap_choices=((10, "scaffold"), (1, "contig"), (200, "scaffold"), None)):
        """a fresh input scaffold and its pieces (whole, or cut in cut_mode)"""
        nonlocal src_n
        src_n += 1
        k = n_contigs or rng.choice((1, 1, 2))
        lt = [rng.choice([x for x in lens if x >= min_len]) for _ in range(k)]
        if two:
            h = hap or rng.choice(hap_tags)
            form = rng.choice((h.upper(), h.lower(), h))
            name = f"{form}_SCAFFOLD_{src_n}" if form.isupper() else f"{form}_scaffold_{src_n}"
            naming = "fasta"
        else:
            name = f"scaffold_{src_n}"
            naming = rng.choice(("own", "fasta", "offset"))
        gaps = [rng.choice(gap_choices) for _ in range(k - 1)]
        s = pg.make_scaffold(name, lt, [rng.choice((1, -1)) for _ in range(k)], gaps, naming, tag=str(src_n))
        inp.append(s)
        ln = pg.rows_len(s["rows"])
        rounding = rng.choice(("floor", "ceil"))
        n = pg.texels(ln, bpt, rounding)
        if n < 1:
            return []
        cs = pg.sample_cut_set(s["rows"], bpt, n, rng, 2, cache) if cut_mode and rng.random() < cut_p else ()
        return pg.pieces_of(s, bpt, rounding, cs)

    plan = []
    tags_left = list(NAME_TAGS)
    rng.shuffle(tags_left)
    for _ in range(n_groups):
        name_tag = tags_left.pop() if tags_left and rng.random() < 0.2 else None
        members = hap_tags if two else (None,)
        singleton = two and rng.random() < 0.15
        for h in members[:1] if singleton else members:
            pcs = []
            unloc_only = allow_unloc_only and rng.random() < 0.004
            for p in new_pieces(hap=h, min_len=40):
                pcs.append((p, rng.choice((1, -1)), ["Unloc"] if unloc_only else []))
            if rng.random() < 0.3:
                for p in new_pieces(hap=h):
                    pcs.append((p, rng.choice((1, -1)), ["Unloc"] if unloc_only else []))
            for _ in range(rng.choice((0, 0, 0, 1, 2, 3))):
                if cut_mode and rng.random() < 0.25:
                    # a gappy scaffold of short contigs cut into pieces, only some of which are marked Unloc
                    src = new_pieces(rng.choice((2, 3)), hap=h, cut_p=1.0, lens=(7, 20, 40, 40, 150), gap_choices=((100, "scaffold"), (10, "scaffold"), (200, "scaffold")))
                    for p in src:
                        pcs.append((p, rng.choice((1, -1)), ["Unloc"] if rng.random() < 0.5 else []))
                    continue
                for p in new_pieces(1, hap=h, cut_p=0.1):
                    pcs.append((p, rng.choice((1, -1)), ["Unloc"]))
            if rng.random() < 0.15:
                for p in new_pieces(1, hap=h):
                    pcs.append((p, rng.choice((1, -1)), ["Haplotig"]))
            if not pcs:
                continue
            if rng.random() < 0.3:
                head, rest = pcs[:1], pcs[1:]
                rng.shuffle(rest)
                pcs = head + rest
            plan.append({"painted": True, "hap": h, "name_tag": name_tag, "singleton": singleton, "pieces": pcs})
    # unplaced scaffolds, haplotigs in scaffolds of their own
    for _ in range(rng.randint(0, 4)):
        pcs = new_pieces()
        if pcs and rng.random() < 0.8:
            tg = ["Haplotig"] if rng.random() < 0.4 else []
            plan.append({"painted": False, "hap": None, "name_tag": None, "pieces": [(p, rng.choice((1, -1)), list(tg)) for p in pcs]})
    mp = pg.plan_to_map(plan, bpt, rng)
    return {"input": inp, "map": mp, "prefix": prefix, "via": pg.pick_via(inp, idx), "mode": "two" if two else "single"}


def _fx(name, *rows):
    return {"name": name, "rows": list(rows)}


_P = ["Painted"]
# hand-made minimal cases that are always run (each reproduces one named class on the tree as first verified)
FIXED_CASES = [
    # unlocs are ranked before contigs are cut: the 4 bp piece outranks the 16 bp piece
    {
        "input": [_fx("scaffold_1", pg.F("scaffold_1", 1, 40)), _fx("scaffold_2", pg.F("scaffold_2", 1, 20))],
        "map": {"bpt": 1.0, "scaffolds": [[["scaffold_1", 1, 40, 1, _P], ["scaffold_2", 1, 4, 1, _P + ["Unloc"]], ["scaffold_2", 5, 20, 1, _P + ["Unloc"]]]]},
        "prefix": "SUPER_", "via": "agp", "mode": "single",
    },
    # a painted scaffold made of Unloc pieces only: its first unloc is listed as localised
    {
        "input": [_fx("scaffold_1", pg.F("scaffold_1", 1, 40)), _fx("scaffold_2", pg.F("scaffold_2", 1, 20))],
        "map": {"bpt": 1.0, "scaffolds": [[["scaffold_1", 1, 40, 1, _P]], [["scaffold_2", 1, 20, 1, _P + ["Unloc"]]]]},
        "prefix": "SUPER_", "via": "agp", "mode": "single",
    },
    # an Unloc piece (gap + 13 bp sliver of ctgB) takes number 1 and is emptied afterwards: SUPER_1_unloc_2 without _unloc_1
    {
        "input": [
            _fx("scaffold_1", pg.F("scaffold_1", 1, 400)),
            _fx("scaffold_2", pg.F("ctgA", 1, 120), pg.G(100), pg.F("ctgB", 1, 40), pg.G(10), pg.F("ctgC", 1, 150)),
            _fx("scaffold_3", pg.F("scaffold_3", 1, 34)),
        ],
        "map": {"bpt": 33.3, "scaffolds": [[["scaffold_1", 1, 399, 1, _P], ["scaffold_2", 1, 166, 1, _P], ["scaffold_2", 167, 233, 1, _P + ["Unloc"]],
                                           ["scaffold_2", 234, 399, 1, _P], ["scaffold_3", 1, 33, 1, _P + ["Unloc"]]]]},
        "prefix": "SUPER_", "via": "agp", "mode": "single",
    },
]


def run(tier, seed, **opts):
    rng = random.Random(seed)
    col = Collector(
        "seeded tagged PretextView-model maps: 1-11 painted chromosomes (two-haplotype maps: 1-5 pairs in first/second "
        "haplotype order, 15 % singletons) each built from 1-2 whole input scaffolds (30 % of the maps: cut at texel "
        "boundaries), 0-3 Unloc pieces, 15 % a Haplotig piece, 20 % name-tagged (X, Y, W, Z, B1, B2), 0.4 % unloc-only; 0-4 "
        "unplaced scaffolds (40 % tagged Haplotig); contig lengths from {20,40,40,70,150,150,400} so that equal sizes are "
        "frequent; prefixes SUPER_/chr/Chr_; oracle: names, numbering, size ranking, order and CSV from the statement; "
        "non-trivial = distinct completed case with >= 2 painted scaffolds or an Unloc/Haplotig piece"
    )
    n_cases = 3500 if tier == "quick" else 80000
    stats = {"rejected_tagging": 0, "judged": 0, "single": 0, "two": 0}
    side = {}
    for i in range(-len(FIXED_CASES), n_cases):
        if col.full:
            break
        case = FIXED_CASES[i] if i < 0 else make_case(rng, i)
        judged = check(case, col, side)
        stats[case["mode"]] += 1
        if judged is None:
            stats["rejected_tagging"] += 1
        else:
            stats["judged"] += judged
        n_painted = sum(1 for sc in case["map"]["scaffolds"] if sc and "Painted" in sc[0][4])
        deco = any(t in ("Unloc", "Haplotig") for sc in case["map"]["scaffolds"] for p in sc for t in p[4])
        col.case(pg.case_key(case), nontrivial=judged is not None and (n_painted >= 2 or deco), sample=case if (judged and n_painted >= 3 and i % 997 == 5) else None)
    for classes, lst in side.items():
        col.failures.extend(lst[:2])
    return col.result(
        bounds=(
            f"{len(FIXED_CASES)} fixed hand-made cases + {n_cases} seeded cases; up to ~40 input scaffolds x <= 3 contigs (lengths 7-400, gaps 1-200); texel sizes {{1,2.5,10,33.3}}; painted scaffolds / "
            f"unloc pieces whose destination was identified and judged: {stats['judged']}; maps rejected with "
            f"TaggingError/ChrNamerError (allowed): {stats['rejected_tagging']}; single-haplotype={stats['single']} "
            f"two-haplotype={stats['two']}; cases failing only in a named class: "
            + (", ".join(f"{'+'.join(k)}={len(v)}" for k, v in side.items()) or "none")
        ),
        exhaustive=False,
    )
