"""
C14 bounded tier: reversal and reverse complement.

  * Scaffold.reverse over every row sequence up to a length from a pool (strands +, -, unknown; tags; gaps of
    two types and length 0): rows after one reversal == the model (order inverted, every strand negated, gap
    rows / intervals / tags / total length unchanged), rows after two reversals == the original rows, the
    original scaffold is left as it was
  * reverse_complement / revcomp_bytes_io: the complement of each of the 256 byte values against an
    independently written case-preserving IUPAC table (bounded/fasta_gen.py), twice == identity on all 1- and
    2-byte strings and on random byte strings, and equality with the base-by-base model on random strings
  * streaming: for generated FASTA files x scaffolds x buffer sizes x line lengths, the record streamed for
    scaffold.reverse() == the model reverse complement of the record streamed for the scaffold.
    Scaffolds with a strand-0 (unknown) fragment are included; a mismatch there is tagged with the known class
    "strand0-reversal" only if the same scaffold without its strand-0 rows passes.
  * OverlapResult.to_scaffold (the other place a reversal is made: "minus-strand baits reverse the fused overlap
    result"): for every row sequence from the same pool (all mixes of strands +,-,unknown, tags, gaps) x bait strand
    +,-,unknown (bait with/without tags, with/without overhangs): under a minus-strand bait the rows of the result ==
    the model reversal of the rows found (order inverted, every strand negated, intervals / tags / gaps kept) and
    reversing the result gives the rows found back; under any other bait strand the rows are unchanged; the overlap
    result itself is left as it was, a second call gives the same rows, name and length are kept.
    In the streaming part the same scaffolds are also wrapped in an OverlapResult: the record streamed for
    to_scaffold() under a minus-strand bait == the model reverse complement of the record streamed for the rows,
    under a plus/unknown bait == that record itself.  The known class is applied to the minus-bait comparison exactly
    as to scaffold.reverse(); a plus/unknown bait involves no reversal, so a mismatch there is never a known one.
"""

import io
import itertools
import random

from tola.assembly.fragment import Fragment
from tola.assembly.overlap_result import OverlapResult
from tola.assembly.scaffold import Scaffold
from tola.fasta.index import FastaIndex, index_fasta_file
from tola.fasta.simple import reverse_complement, revcomp_bytes_io
from tola.fasta.stream import FastaStream

from . import fasta_gen as G
from .common import Collector, row_from, row_spec, scaffold_from

KNOWN = "strand0-reversal"
MAX_KNOWN_REPORTED = 3
BAIT_TAGS = [[], ["Painted"], ["Hap2", "Painted", "Unloc"]]

POOL = [
    ["F", "c", 1, 4, 1, []],
    ["F", "c", 2, 3, -1, ["Painted"]],
    ["F", "d", 5, 9, 0, []],
    ["F", "c", 7, 7, -1, ["Hap1", "Unloc"]],
    ["F", "e", 3, 8, 0, ["Painted"]],
    ["G", 3, "scaffold"],
    ["G", 10, "contig"],
    ["G", 0, "scaffold"],
]


def close_index(fi):
    fh = fi.__dict__.pop("fasta_fileandle", None)
    if fh is not None:
        fh.close()


def norm(spec):
    return [*spec[:5], list(spec[5])] if spec[0] == "F" else list(spec[:3])


def model_reverse(specs):
    out = []
    for s in reversed(specs):
        out.append([s[0], s[1], s[2], s[3], -s[4], list(s[5])] if s[0] == "F" else list(s))
    return out


def specs_of(scaffold):
    return [norm(row_spec(r)) for r in scaffold.rows]


def check_reverse(specs):
    specs = [norm(s) for s in specs]
    sc = scaffold_from("sc", specs)
    try:
        rev = sc.reverse()
        after_one = specs_of(sc)
        rev2 = rev.reverse()
    except Exception as e:  # noqa: BLE001
        return [f"Scaffold.reverse raised {e!r}"]
    msgs = []
    if after_one != specs or specs_of(sc) != specs:
        msgs.append(f"reverse() changed the scaffold it was called on: rows {specs} became {after_one if after_one != specs else specs_of(sc)}")
    got = specs_of(rev)
    want = model_reverse(specs)
    if got != want:
        msgs.append(f"one reversal gives rows {got}, expected order inverted and every strand negated: {want}")
    want_len = sum(G.spec_length(s) for s in specs)
    if rev.length != want_len:
        msgs.append(f"reversed scaffold has length {rev.length}, rows sum to {want_len}")
    if specs_of(rev2) != specs:
        msgs.append(f"two reversals give rows {specs_of(rev2)}, original rows are {specs}")
    if not isinstance(rev, Scaffold) or rev.name != sc.name:
        msgs.append(f"reversal returned {type(rev).__name__} named {getattr(rev, 'name', None)!r}")
    return msgs


BAIT_WORD = {1: "a plus-strand bait", -1: "a minus-strand bait", 0: "an unknown-strand bait"}


def overlap_from(name, specs, bait_strand, bait_tags=(), overhang=0):
    """an OverlapResult holding the rows `specs`, found for a bait of the given strand.  overhang k: the rows found
    stick out k bp on each side of the bait (k < 0: the bait sticks out); neither matters to to_scaffold()."""
    total = sum(G.spec_length(s) for s in specs)
    start = 11
    end = start + total - 1
    b_start = start + overhang
    b_end = max(b_start, end - overhang)
    bait = Fragment("px_1", b_start, b_end, bait_strand, tuple(bait_tags))
    return OverlapResult(bait, [row_from(s) for s in specs], start, end, name=name, original_name="px_1")


def check_overlap(specs, bait_strand, bait_tags=(), overhang=0):
    specs = [norm(s) for s in specs]
    what = f"to_scaffold() of an overlap result found for {BAIT_WORD[bait_strand]}"
    try:
        ovr = overlap_from("sc", specs, bait_strand, bait_tags, overhang)
        got_sc = ovr.to_scaffold()
        after_one = specs_of(ovr)
        again = ovr.to_scaffold()
        back = got_sc.reverse() if bait_strand == -1 else None
    except Exception as e:  # noqa: BLE001
        return [f"{what} raised {e!r}"]
    msgs = []
    got = specs_of(got_sc)
    if bait_strand == -1:
        want = model_reverse(specs)
        if got != want:
            msgs.append(f"{what} gives rows {got}, expected the reversal of the rows found (order inverted, every strand negated): {want}")
        if specs_of(back) != specs:
            msgs.append(f"reversing {what} gives rows {specs_of(back)}, the rows found are {specs}")
    elif got != specs:
        msgs.append(f"{what} gives rows {got}, expected the rows found unchanged: {specs}")
    if after_one != specs or specs_of(ovr) != specs:
        msgs.insert(0, f"to_scaffold() changed the overlap result it was called on: rows {specs} became {after_one if after_one != specs else specs_of(ovr)}")
    if specs_of(again) != got:
        msgs.append(f"a second {what} gives rows {specs_of(again)}, the first gave {got}")
    want_len = sum(G.spec_length(s) for s in specs)
    if not isinstance(got_sc, Scaffold) or got_sc.name != "sc":
        msgs.append(f"{what} returned {type(got_sc).__name__} named {getattr(got_sc, 'name', None)!r}, the overlap result is named 'sc'")
    elif sum(r.length for r in got_sc.rows) != want_len:
        msgs.append(f"{what} has rows of total length {sum(r.length for r in got_sc.rows)}, the rows found sum to {want_len}")
    return msgs


def check_table():
    msgs = []
    for b in range(256):
        got = reverse_complement(bytes([b]))
        if got != bytes([G.COMPLEMENT[b]]):
            msgs.append(f"complement of byte {b} ({bytes([b])!r}) is {got!r}, IUPAC table says {bytes([G.COMPLEMENT[b]])!r}")
    return msgs


def check_involution(s):
    try:
        once = reverse_complement(s)
        twice = reverse_complement(once)
        via_io = revcomp_bytes_io(io.BytesIO(s)).getvalue()
    except Exception as e:  # noqa: BLE001
        return [f"reverse_complement({s[:20]!r}) raised {e!r}"]
    msgs = []
    if twice != s:
        msgs.append(f"reverse_complement twice of {s[:24]!r} gives {twice[:24]!r}")
    if once != G.revcomp(s):
        msgs.append(f"reverse_complement({s[:24]!r}) = {once[:24]!r}, base-by-base model gives {G.revcomp(s)[:24]!r}")
    if via_io != once:
        msgs.append(f"revcomp_bytes_io differs from reverse_complement on {s[:24]!r}")
    return msgs


def stream_seq(fi, scaffold, line_length, memo=None):
    """(name, residues) of the record written for the scaffold.  memo (one per file / buffer size / line length):
    scaffolds with the same name and rows are streamed once, so that the three ways of reversing one scaffold,
    which give the same rows when the property holds, do not cost three times the streaming."""
    key = (scaffold.name, repr(specs_of(scaffold))) if memo is not None else None
    if key in (memo or ()):
        return memo[key]
    out = io.BytesIO()
    FastaStream(out, fi, line_length=line_length).write_scaffold(scaffold)
    records, problems = G.parse_written_fasta(out.getvalue())
    if problems or len(records) != 1:
        raise ValueError(f"streamed output is not one record: {problems or len(records)}")
    res = records[0][0], b"".join(records[0][1])
    if memo is not None:
        memo[key] = res
    return res


def first_difference(got, want):
    k = next((i for i in range(min(len(got), len(want))) if got[i] != want[i]), min(len(got), len(want)))
    return f"first difference at {k + 1}: {got[k : k + 10]!r} vs {want[k : k + 10]!r}"


def reversal_commutes(fi, specs, line_length, via="reverse", memo=None):
    """via "reverse": scaffold.reverse();  via 1 / -1 / 0: to_scaffold() of an OverlapResult holding the same rows,
    found for a bait of that strand.  -> message or None"""
    sc = scaffold_from("sc", specs)
    try:
        name1, fwd = stream_seq(fi, sc, line_length, memo)
        other = sc.reverse() if via == "reverse" else overlap_from("sc", specs, via).to_scaffold()
        name2, rev = stream_seq(fi, other, line_length, memo)
    except Exception as e:  # noqa: BLE001
        return f"streaming raised {e!r}" if via == "reverse" else f"streaming to_scaffold() of the overlap result ({BAIT_WORD[via]}) raised {e!r}"
    if via != "reverse" and via != -1:
        want = None
    elif memo is None:
        want = G.revcomp(fwd)
    else:
        want = memo[("model revcomp", fwd)] = memo.get(("model revcomp", fwd)) or G.revcomp(fwd)
    if via == "reverse":
        if name1 != name2:
            return f"reversed scaffold streamed under the name {name2!r}, original {name1!r}"
        if rev != want:
            return (
                f"streaming the reversed scaffold gives {len(rev)} residues, the reverse complement of streaming the original has "
                f"{len(want)}; {first_difference(rev, want)}"
            )
        return None
    what = f"to_scaffold() of the overlap result found for {BAIT_WORD[via]}"
    if name1 != name2:
        return f"{what} streamed under the name {name2!r}, the overlap result is named {name1!r}"
    if via == -1:
        if rev != want:
            return (
                f"streaming {what} gives {len(rev)} residues, the reverse complement of streaming the rows found has "
                f"{len(want)}; {first_difference(rev, want)}"
            )
    elif rev != fwd:
        return f"streaming {what} gives {len(rev)} residues, streaming the rows found gives {len(fwd)}; {first_difference(rev, fwd)}"
    return None


def check_stream(fi, specs, line_length, via="reverse", memo=None):
    """-> (message or None, classes)"""
    msg = reversal_commutes(fi, specs, line_length, via, memo)
    if msg is None:
        return None, []
    has0 = any(s[0] == "F" and s[4] == 0 for s in specs)
    if has0 and via in ("reverse", -1):  # a plus/unknown bait makes no reversal: nothing there can be the known class
        without = [s for s in specs if not (s[0] == "F" and s[4] == 0)]
        if reversal_commutes(fi, without, line_length, via, memo) is None:
            return msg, [KNOWN]
    return msg, []


def open_case(case, path, bs):
    case.write(path)
    idx, _ = index_fasta_file(path, 250_000)
    fi = FastaIndex(path, bs)
    fi.index = idx
    return fi


def replay(inp):
    if inp["kind"] == "reverse":
        m = check_reverse(inp["rows"])
        return m[0] if m else None
    if inp["kind"] == "overlap":
        m = check_overlap(inp["rows"], inp["bait_strand"], inp["bait_tags"], inp["overhang"])
        return m[0] if m else None
    if inp["kind"] == "table":
        m = check_table()
        return m[0] if m else None
    if inp["kind"] == "bytes":
        m = check_involution(bytes(inp["bytes"]))
        return m[0] if m else None
    with G.quiet_logging(), G.workdir() as d:
        case = G.FastaCase.from_spec(inp["case"])
        fi = open_case(case, d / "r.fa", inp["buffer"])
        try:
            return check_stream(fi, inp["rows"], inp["line_length"], inp.get("via", "reverse"))[0]
        finally:
            close_index(fi)


def run(tier, seed, **opts):
    rng = random.Random(seed)
    quick = tier == "quick"
    max_rows = 4 if quick else 5
    col = Collector(
        f"reverse: every sequence of 0..{max_rows} rows from a pool of {len(POOL)} (strands +,-,?; tags; gaps incl. length 0); "
        "overlap result: the same row sequences x bait strand +,-,? (bait tags and overhangs rotating), to_scaffold() against the "
        "model reversal (minus bait) or the rows unchanged; "
        "complement: 256 byte values, all 1- and 2-byte strings, random byte strings; streaming: FASTA files with mixed-case "
        "IUPAC and non-IUPAC residues in several layouts x scaffolds of 1..3 rows from a pool of intervals x strands +,-,? "
        "and gaps x buffer sizes x line lengths, and random scaffolds over random files, each reversed three ways: "
        "scaffold.reverse(), to_scaffold() of an overlap result with a minus-strand bait (both: reverse complement expected), "
        "to_scaffold() with a plus- or unknown-strand bait (same record expected); non-trivial = distinct input with at "
        "least one fragment row (reverse, overlap result, streaming) / at least one byte (complement)"
    )
    known_seen = 0

    # 1. Scaffold.reverse
    for n in range(0, max_rows + 1):
        for combo in itertools.product(range(len(POOL)), repeat=n):
            rows = [POOL[i] for i in combo]
            msgs = check_reverse(rows)
            inp = {"kind": "reverse", "rows": rows}
            if msgs:
                col.fail(msgs[0], inp)
            col.case(("reverse", combo), nontrivial=any(r[0] == "F" for r in rows), sample=inp if combo == (0, 5, 2, 1) else None)
        if col.full:
            break
    # 1b. OverlapResult.to_scaffold: the same row sequences x bait strand; bait tags and overhangs (which must not
    #     matter) rotate with the case
    for n in range(0, max_rows + 1):
        for combo in itertools.product(range(len(POOL)), repeat=n):
            rows = [POOL[i] for i in combo]
            for bait_strand in (1, -1, 0):
                bait_tags = BAIT_TAGS[(sum(combo) + bait_strand) % len(BAIT_TAGS)]
                overhang = (0, 2, -3)[(sum(combo) + n + bait_strand) % 3]
                msgs = check_overlap(rows, bait_strand, bait_tags, overhang)
                inp = {"kind": "overlap", "rows": rows, "bait_strand": bait_strand, "bait_tags": bait_tags, "overhang": overhang}
                if msgs:
                    col.fail(msgs[0], inp)
                col.case(("overlap", combo, bait_strand), nontrivial=any(r[0] == "F" for r in rows),
                         sample=inp if (combo, bait_strand) == ((0, 5, 1, 2), -1) else None)
        if col.full:
            break
    # 2. complement table and involution
    for m in check_table():
        col.fail(m, {"kind": "table"})
    col.case(("table",))
    for a in range(256):
        strings = [bytes([a])] + [bytes([a, b]) for b in range(256)]
        for s in strings:
            msgs = check_involution(s)
            if msgs:
                col.fail(msgs[0], {"kind": "bytes", "bytes": list(s)})
            col.case(("bytes", s))
    for k in range(2000 if quick else 50000):
        n = rng.choice((0, 1, 3, 7, 30, 61, 200))
        s = bytes(rng.randrange(256) for _ in range(n)) if k % 2 else bytes(rng.choice(b"ACGTUacgtuRYMKSWHBVDNrymkswhbvdn-*Xx") for _ in range(n))
        msgs = check_involution(s)
        inp = {"kind": "bytes", "bytes": list(s)}
        if msgs:
            col.fail(msgs[0], inp)
        col.case(("bytes", s), nontrivial=n > 0, sample=inp if k == 4 else None)

    # 3. streaming a reversed scaffold
    with G.quiet_logging(), G.workdir() as d:
        path = d / "t.fa"
        r1 = b"AcgRtNnYKtGCUuXx-*MmSsWwHhBbVvDd"
        r2 = b"tTGmcAA"
        lays = [(4, b"\n", True), (5, b"\r\n", False), (60, b"\n", True), (1, b"\n", False), (7, b"\r\n", True)]
        if quick:
            lays = lays[:3]
        for w, eol, fin in lays:
            case = G.FastaCase([G.Rec("a", r1, b" d"), G.Rec("b", r2)], w, eol, fin)
            spec = case.spec()
            pool = []
            for name, s, e in (("a", 1, 32), ("a", 3, 9), ("a", 12, 19), ("b", 1, 7), ("b", 4, 4)):
                for strand in (1, -1, 0):
                    pool.append(["F", name, s, e, strand, []])
            pool += [["G", 0, "scaffold"], ["G", 2, "scaffold"], ["G", 7, "contig"]]
            for bs in (1, 3, 5, 250_000) if quick else (1, 2, 3, 4, 5, 7, 8, 31, 32, 33, 250_000):
                fi = open_case(case, path, bs)
                try:
                    for n in (1, 2, 3):
                        for combo in itertools.product(range(len(pool)), repeat=n):
                            if n == 3 and (sum(combo) + bs) % (6 if quick else 2):
                                continue
                            rows = [pool[i] for i in combo]
                            ll = (60, 3, 7)[(sum(combo) + n) % 3]
                            # scaffold.reverse(), a minus-strand bait, and one of plus / unknown bait
                            memo = {}
                            for via in ("reverse", -1, (1, 0)[(sum(combo) + bs) % 2]):
                                msg, classes = check_stream(fi, rows, ll, via, memo)
                                inp = {"kind": "stream", "case": spec, "buffer": bs, "rows": rows, "line_length": ll, "via": via}
                                if msg:
                                    if KNOWN in classes:
                                        known_seen += 1
                                        if known_seen <= MAX_KNOWN_REPORTED:
                                            col.fail(msg, inp, classes)
                                    else:
                                        col.fail(msg, inp, classes)
                                col.case(("stream", case.key(), bs, combo, ll, via), nontrivial=any(r[0] == "F" for r in rows),
                                         sample=inp if (bs, combo, via) in ((3, (1, 17, 6), "reverse"), (3, (4, 19, 0), -1)) else None)
                finally:
                    close_index(fi)
                    G.remove_with_caches(path)
                if col.full:
                    break
            if col.full:
                break
        # random scaffolds over random files
        for k in range(150 if quick else 5000):
            if col.full:
                break
            case = G.random_case(rng, max_len=80 if quick else 300)
            bs = rng.choice((1, 2, 3, 5, 7, case.width, case.width + 1, 61, 250_000))
            fi = open_case(case, path, bs)
            try:
                for _rep in range(8):
                    rows = []
                    p0 = rng.choice((0.0, 0.0, 0.15))
                    for _ in range(rng.randint(1, 5)):
                        if rng.random() < 0.25:
                            rows.append(["G", rng.choice((0, 1, bs, bs + 1, 3 * bs, 200)), "scaffold"])
                        else:
                            r = rng.choice(case.records)
                            L = len(r.seq)
                            s = rng.randint(1, L)
                            e = rng.choice((L, rng.randint(s, L)))
                            strand = 0 if rng.random() < p0 else rng.choice((1, -1))
                            rows.append(["F", r.name, s, e, strand, []])
                    ll = rng.choice((60, 60, 1, 5, 61))
                    memo = {}
                    for via in ("reverse", -1, (1, 0)[(k + _rep) % 2]):
                        msg, classes = check_stream(fi, rows, ll, via, memo)
                        inp = {"kind": "stream", "case": case.spec(), "buffer": bs, "rows": rows, "line_length": ll, "via": via}
                        if msg:
                            if KNOWN in classes:
                                known_seen += 1
                                if known_seen <= MAX_KNOWN_REPORTED:
                                    col.fail(msg, inp, classes)
                            else:
                                col.fail(msg, inp, classes)
                        col.case(("stream", case.key(), bs, repr(rows), ll, via), nontrivial=any(r[0] == "F" for r in rows))
            finally:
                close_index(fi)
                G.remove_with_caches(path)
    return col.result(
        bounds=(
            f"reverse: {len(POOL)}-row pool, sequences of 0..{max_rows}; overlap result: the same sequences x 3 bait strands; complement: exhaustive over 256 values and 65792 short strings, "
            f"{2000 if quick else 50000} random strings up to 200 bytes; streaming: 2-record file (32 and 7 residues) in {len(lays)} layouts, "
            "18 fragment rows + 3 gaps, all 1- and 2-row scaffolds and a fixed share of the 3-row ones, buffers "
            + ("1,3,5,250000" if quick else "1,2,3,4,5,7,8,31,32,33,250000")
            + f"; {150 if quick else 5000} random files x 8 random scaffolds; every streamed scaffold via reverse(), minus bait, plus-or-unknown bait"
        ),
        exhaustive=False,
        known_class_failures_seen=known_seen,
        known_class_failures_reported=min(known_seen, MAX_KNOWN_REPORTED),
    )
