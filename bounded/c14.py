"""
C14 bounded tier: reversal and reverse complement.

  * Scaffold.reverse over every row sequence up to a length from a pool (strands +, -, unknown; tags; gaps of
    two types and length 0): rows after one reversal == the model (order inverted, every strand negated, gap
    rows / intervals / tags / total length unchanged), rows after two reversals == the original rows, the
    original scaffold is left as it was
  * reverse_complement / revcomp_bytes_io: the complement of each of the 256 byte values against an
    independently written case-preserving IUPAC table (bounded/fasta_gen.py), twice == identity on all 1- and
    2-byte strings and on random byte strings, and equality with the base-by-base model on random strings
  * streaming: for generated FASTA files x scaffolds x buffer sizes x line lengths, the record streamed for
    scaffold.reverse() == the model reverse complement of the record streamed for the scaffold.
    The same on LONG inputs: byte strings and minus-strand fragments whose lengths sit around powers of two and
    typical block / buffer sizes (2**12+1, 2**16-1, 2**16, 2**16+1, 2**16+17, 2**17+5, 250001, 2**20+3, ...; thorough:
    2**k + {-1,0,1,17} for k = 10..22, 10**k+1, 2**24+5, random lengths), non-periodic content generated from
    (length, seed): length preserved, position-wise complement of the reversed input (whole string against the
    independent table, and base by base at the ends and around every 2**k position), twice == identity, same through
    revcomp_bytes_io and FastaSeq.rev_comp; and a FASTA record of such a length streamed through scaffolds with long
    minus-strand fragments with buffers larger than 2**16 (the default 250000, 2**16+17, record length +-1).
    Scaffolds with a strand-0 (unknown) fragment are included; a mismatch there is tagged with the known class
    "strand0-reversal" only if the same scaffold without its strand-0 rows passes.
  * OverlapResult.to_scaffold (the other place a reversal is made: "minus-strand baits reverse the fused overlap
    result"): for every row sequence from the same pool (all mixes of strands +,-,unknown, tags, gaps) x bait strand
    +,-,unknown (bait with/without tags, with/without overhangs): under a minus-strand bait the rows of the result ==
    the model reversal of the rows found (order inverted, every strand negated, intervals / tags / gaps kept) and
    reversing the result gives the rows found back; under any other bait strand the rows are unchanged; the overlap
    result itself is left as it was, a second call gives the same rows, name and length are kept.
    In the streaming part the same scaffolds are also wrapped in an OverlapResult: the record streamed for
    to_scaffold() under a minus-strand bait == the model reverse complement of the record streamed for the rows,
    under a plus/unknown bait == that record itself.  The known class is applied to the minus-bait comparison exactly
    as to scaffold.reverse(); a plus/unknown bait involves no reversal, so a mismatch there is never a known one.
  * histories: the statement is about every reversal of every scaffold, also of one that was reversed before and has
    been changed since.  A scaffold (or an overlap result) is taken through a sequence of reversals and edits on the
    SAME object - add_row, append_scaffold with and without a gap, rows assigned / popped / inserted / extended /
    replaced directly (`rows` is a public list), discard_start / discard_end / trim_fragment on an overlap result - and
    the scaffolds handed out by earlier reversals are edited and reversed as well.  Every reversal is judged against the
    rows its receiver holds at that moment (model reversal; a second reversal gives those rows back; length kept); the
    result must be a new object sharing no row list with any other, and no step may change an object it was not applied
    to.  In the streaming part every scaffold is also reversed *with a history* (its first half reversed once, the
    second half appended without a gap, then reversed): the streamed record == the reverse complement as before.
"""

import io
import itertools
import random

from tola.assembly.fragment import Fragment
from tola.assembly.overlap_result import OverlapResult
from tola.assembly.scaffold import Scaffold
from tola.fasta.index import FastaIndex, index_fasta_file
from tola.fasta.simple import reverse_complement, revcomp_bytes_io
from tola.fasta.stream import FastaStream

from . import fasta_gen as G
from .common import Collector, row_from, row_spec, scaffold_from

KNOWN = "strand0-reversal"
MAX_KNOWN_REPORTED = 3
BAIT_TAGS = [[], ["Painted"], ["Hap2", "Painted", "Unloc"]]

POOL = [
    ["F", "c", 1, 4, 1, []],
    ["F", "c", 2, 3, -1, ["Painted"]],
    ["F", "d", 5, 9, 0, []],
    ["F", "c", 7, 7, -1, ["Hap1", "Unloc"]],
    ["F", "e", 3, 8, 0, ["Painted"]],
    ["G", 3, "scaffold"],
    ["G", 10, "contig"],
    ["G", 0, "scaffold"],
]


def close_index(fi):
    fh = fi.__dict__.pop("fasta_fileandle", None)
    if fh is not None:
        fh.close()


def norm(spec):
    return [*spec[:5], list(spec[5])] if spec[0] == "F" else list(spec[:3])


def model_reverse(specs):
    out = []
    for s in reversed(specs):
        out.append([s[0], s[1], s[2], s[3], -s[4], list(s[5])] if s[0] == "F" else list(s))
    return out


def specs_of(scaffold):
    return [norm(row_spec(r)) for r in scaffold.rows]


def check_reverse(specs):
    specs = [norm(s) for s in specs]
    sc = scaffold_from("sc", specs)
    try:
        rev = sc.reverse()
        after_one = specs_of(sc)
        rev2 = rev.reverse()
    except Exception as e:  # noqa: BLE001
        return [f"Scaffold.reverse raised {e!r}"]
    msgs = []
    if after_one != specs or specs_of(sc) != specs:
        msgs.append(f"reverse() changed the scaffold it was called on: rows {specs} became {after_one if after_one != specs else specs_of(sc)}")
    got = specs_of(rev)
    want = model_reverse(specs)
    if got != want:
        msgs.append(f"one reversal gives rows {got}, expected order inverted and every strand negated: {want}")
    want_len = sum(G.spec_length(s) for s in specs)
    if rev.length != want_len:
        msgs.append(f"reversed scaffold has length {rev.length}, rows sum to {want_len}")
    if specs_of(rev2) != specs:
        msgs.append(f"two reversals give rows {specs_of(rev2)}, original rows are {specs}")
    if not isinstance(rev, Scaffold) or rev.name != sc.name:
        msgs.append(f"reversal returned {type(rev).__name__} named {getattr(rev, 'name', None)!r}")
    return msgs


BAIT_WORD = {1: "a plus-strand bait", -1: "a minus-strand bait", 0: "an unknown-strand bait"}


def overlap_from(name, specs, bait_strand, bait_tags=(), overhang=0):
    """an OverlapResult holding the rows `specs`, found for a bait of the given strand.  overhang k: the rows found
    stick out k bp on each side of the bait (k < 0: the bait sticks out); neither matters to to_scaffold()."""
    total = sum(G.spec_length(s) for s in specs)
    start = 11
    end = start + total - 1
    b_start = start + overhang
    b_end = max(b_start, end - overhang)
    bait = Fragment("px_1", b_start, b_end, bait_strand, tuple(bait_tags))
    return OverlapResult(bait, [row_from(s) for s in specs], start, end, name=name, original_name="px_1")


def check_overlap(specs, bait_strand, bait_tags=(), overhang=0):
    specs = [norm(s) for s in specs]
    what = f"to_scaffold() of an overlap result found for {BAIT_WORD[bait_strand]}"
    try:
        ovr = overlap_from("sc", specs, bait_strand, bait_tags, overhang)
        got_sc = ovr.to_scaffold()
        after_one = specs_of(ovr)
        again = ovr.to_scaffold()
        back = got_sc.reverse() if bait_strand == -1 else None
    except Exception as e:  # noqa: BLE001
        return [f"{what} raised {e!r}"]
    msgs = []
    got = specs_of(got_sc)
    if bait_strand == -1:
        want = model_reverse(specs)
        if got != want:
            msgs.append(f"{what} gives rows {got}, expected the reversal of the rows found (order inverted, every strand negated): {want}")
        if specs_of(back) != specs:
            msgs.append(f"reversing {what} gives rows {specs_of(back)}, the rows found are {specs}")
    elif got != specs:
        msgs.append(f"{what} gives rows {got}, expected the rows found unchanged: {specs}")
    if after_one != specs or specs_of(ovr) != specs:
        msgs.insert(0, f"to_scaffold() changed the overlap result it was called on: rows {specs} became {after_one if after_one != specs else specs_of(ovr)}")
    if specs_of(again) != got:
        msgs.append(f"a second {what} gives rows {specs_of(again)}, the first gave {got}")
    want_len = sum(G.spec_length(s) for s in specs)
    if not isinstance(got_sc, Scaffold) or got_sc.name != "sc":
        msgs.append(f"{what} returned {type(got_sc).__name__} named {getattr(got_sc, 'name', None)!r}, the overlap result is named 'sc'")
    elif sum(r.length for r in got_sc.rows) != want_len:
        msgs.append(f"{what} has rows of total length {sum(r.length for r in got_sc.rows)}, the rows found sum to {want_len}")
    return msgs


def check_table():
    msgs = []
    for b in range(256):
        got = reverse_complement(bytes([b]))
        if got != bytes([G.COMPLEMENT[b]]):
            msgs.append(f"complement of byte {b} ({bytes([b])!r}) is {got!r}, IUPAC table says {bytes([G.COMPLEMENT[b]])!r}")
    return msgs


def check_involution(s):
    try:
        once = reverse_complement(s)
        twice = reverse_complement(once)
        via_io = revcomp_bytes_io(io.BytesIO(s)).getvalue()
    except Exception as e:  # noqa: BLE001
        return [f"reverse_complement({s[:20]!r}) raised {e!r}"]
    msgs = []
    if twice != s:
        msgs.append(f"reverse_complement twice of {s[:24]!r} gives {twice[:24]!r}")
    if once != G.revcomp(s):
        msgs.append(f"reverse_complement({s[:24]!r}) = {once[:24]!r}, base-by-base model gives {G.revcomp(s)[:24]!r}")
    if via_io != once:
        msgs.append(f"revcomp_bytes_io differs from reverse_complement on {s[:24]!r}")
    return msgs


# ----------------------------------------------------------------------------------------------------------
# long inputs (lengths around powers of two and typical block / buffer sizes)

_LONG_ALPHABET = b"ACGTUacgtuRYMKSWHBVDNrymkswhbvdn-*Xx"
_TO_ALPHABET = bytes(_LONG_ALPHABET[i % len(_LONG_ALPHABET)] for i in range(256))
_COMPLEMENT_TABLE = bytes(G.COMPLEMENT)

LONG_QUICK = [2**12 + 1, 2**16 - 1, 2**16, 2**16 + 1, 2**16 + 17, 2**17 + 5, 250_001, 2**20 + 3]


def long_lengths(quick, rng):
    if quick:
        return list(LONG_QUICK)
    out = set(LONG_QUICK)
    for k in range(10, 23):
        out.update(2**k + d for d in (-1, 0, 1, 17))
    out.update(10**k + 1 for k in (3, 4, 5, 6))
    out.update((8192 + 5, 3 * 2**16 + 1, 5 * 2**16 - 2, 250_000, 500_003, 2**24 + 5))
    out.update(rng.randint(2**16 + 1, 5 * 2**16) for _ in range(12))
    return sorted(out)


def long_bytes(n, seed, alphabet):
    """non-periodic content, a function of (n, seed, alphabet) only: "bytes" = all 256 values, "iupac" = mixed-case
    IUPAC letters, U and a few non-IUPAC symbols (usable as FASTA residues)"""
    raw = random.Random(seed * 1_000_003 + n).randbytes(n)
    return raw if alphabet == "bytes" else raw.translate(_TO_ALPHABET)


def probe_positions(n):
    """the ends and the neighbourhood of every power of two (from either end)"""
    pos = set(range(min(n, 70))) | set(range(max(0, n - 70), n))
    k = 1
    while k < n:
        for c in (k, n - k):
            pos.update(i for i in range(c - 3, c + 4) if 0 <= i < n)
        k *= 2
    return sorted(pos)


def compare_revcomp(what, got, s):
    """got against the position-wise complement of the reversed input s -> message or None"""
    n = len(s)
    if len(got) != n:
        return f"{what} of {n} bytes returned {len(got)} bytes: length not preserved ({n - len(got)} missing)"
    for i in probe_positions(n):
        if got[i] != G.COMPLEMENT[s[n - 1 - i]]:
            return f"{what} of {n} bytes: byte {i + 1} of the result is {got[i]}, the complement of byte {n - i} of the input is {G.COMPLEMENT[s[n - 1 - i]]}"
    want = s.translate(_COMPLEMENT_TABLE)[::-1]
    if got != want:
        return f"{what} of {n} bytes is not the position-wise complement of the reversed input; {first_difference(got, want)}"
    return None


def check_long_bytes(n, seed, alphabet):
    from tola.fasta.simple import FastaSeq

    s = long_bytes(n, seed, alphabet)
    try:
        once = reverse_complement(s)
        twice = reverse_complement(once)
        via_io = revcomp_bytes_io(io.BytesIO(s)).getvalue()
        io_twice = revcomp_bytes_io(revcomp_bytes_io(io.BytesIO(s))).getvalue()
        via_seq = FastaSeq("x", s).rev_comp().sequence
    except Exception as e:  # noqa: BLE001
        return [f"reverse complement of {n} bytes raised {e!r}"]
    msgs = []
    for what, got in (("reverse_complement", once), ("revcomp_bytes_io", via_io), ("FastaSeq.rev_comp", via_seq)):
        m = compare_revcomp(what, got, s)
        if m:
            msgs.append(m)
    if twice != s:
        msgs.append(f"reverse_complement twice of {n} bytes gives {len(twice)} bytes, not the input back; {first_difference(twice, s)}")
    if io_twice != s:
        msgs.append(f"revcomp_bytes_io twice of {n} bytes gives {len(io_twice)} bytes, not the input back; {first_difference(io_twice, s)}")
    return msgs


def long_stream_rows(n):
    """scaffolds over one record "L" of n residues with minus-strand fragments as long as the record allows"""
    m = min(n - 2, 2**16 + 40)
    return [
        [["F", "L", 1, n, -1, []]],
        [["F", "L", 2, n - 1, 1, []], ["G", 3, "scaffold"], ["F", "L", 5, 4 + m - 3, -1, ["Painted"]]],
        [["F", "L", 3, n, -1, []], ["F", "L", 1, n - 7, -1, []]],
    ]


def long_case(n, seed, width, eol):
    return G.FastaCase([G.Rec("L", long_bytes(n, seed, "iupac"))], min(width, n), b"\r\n" if eol == "CRLF" else b"\n", True)


def check_long_stream(path, n, seed, width, eol, bs, jobs=None):
    """jobs: [(rows, line_length, via)] or None = all -> [(message, classes, rows, line_length, via)], number of checks"""
    fi = open_case(long_case(n, seed, width, eol), path, bs)
    out = []
    count = 0
    try:
        if jobs is None:
            jobs = [(rows, ll, via) for rows, ll in zip(long_stream_rows(n), (60, 61, 60)) for via in ("reverse", -1, 1)]
        memo = {}
        for rows, ll, via in jobs:
            msg, classes = check_stream(fi, rows, ll, via, memo)
            count += 1
            if msg:
                out.append((msg, classes, rows, ll, via))
    finally:
        close_index(fi)
        G.remove_with_caches(path)
    return out, count


# ----------------------------------------------------------------------------------------------------------
# histories: reversals and edits on the same objects

# edits of a Scaffold / of any object (direct edits of the public row list) / of an OverlapResult
SCAFFOLD_EDITS = ("add_row", "append", "append_gap")
LIST_EDITS = ("set", "pop", "pop_first", "extend", "insert", "assign", "clear", "reverse_rows")
OVERLAP_EDITS = ("discard_start", "discard_end", "trim")


def apply_history_edit(obj, op):
    """the edit as a caller would make it; one that does not apply to the object's present rows is the caller's affair"""
    kind = op[0]
    try:
        if kind == "add_row":
            obj.add_row(row_from(op[2]))
        elif kind == "append":
            obj.append_scaffold(scaffold_from("other", op[2]))
        elif kind == "append_gap":
            obj.append_scaffold(scaffold_from("other", op[2]), row_from(op[3]))
        elif kind == "set":
            obj.rows[op[2] % len(obj.rows)] = row_from(op[3])
        elif kind == "pop":
            obj.rows.pop()
        elif kind == "pop_first":
            obj.rows.pop(0)
        elif kind == "extend":
            obj.rows.extend(row_from(x) for x in op[2])
        elif kind == "insert":
            obj.rows.insert(op[2] % (len(obj.rows) + 1), row_from(op[3]))
        elif kind == "assign":
            obj.rows = [row_from(x) for x in op[2]]
        elif kind == "clear":
            obj.rows.clear()
        elif kind == "reverse_rows":
            obj.rows.reverse()
        elif kind == "discard_start":
            obj.discard_start()
        elif kind == "discard_end":
            obj.discard_end()
        elif kind == "trim":
            obj.trim_fragment(obj.rows[0])
    except Exception:  # noqa: BLE001
        pass


def check_history(rows, ops, bait_strand=None):
    """
    rows: the first object (number 0): a Scaffold, or with bait_strand an OverlapResult found for a bait of that strand.
    ops:  ["reverse", k] - object k is reversed the way it offers (Scaffold.reverse(), OverlapResult.to_scaffold()); the
          scaffold returned becomes the next object;  [edit, k, ...] - object k is edited (apply_history_edit).
    After an edit the rows the object then holds are read back (the edit itself is not on trial); every reversal is
    judged against the rows its receiver holds.  -> messages of the first step that goes wrong
    """
    specs = [norm(r) for r in rows]
    first = scaffold_from("sc", specs) if bait_strand is None else overlap_from("sc", specs, bait_strand)
    objs = [[first, specs]]
    for n, op in enumerate(ops):
        k = op[1]
        if k >= len(objs):
            continue
        obj, held = objs[k]
        ctx = f"step {n + 1} of the history {ops} on {'a scaffold' if bait_strand is None else 'an overlap result (' + BAIT_WORD[bait_strand] + ')'} with rows {specs}: "
        msgs = []
        if op[0] == "reverse":
            is_ovr = isinstance(obj, OverlapResult)
            call = "to_scaffold()" if is_ovr else "reverse()"
            try:
                new = obj.to_scaffold() if is_ovr else obj.reverse()
                got = specs_of(new)
                back = specs_of(new.reverse()) if not is_ovr or bait_strand == -1 else None
            except Exception as e:  # noqa: BLE001
                return [f"{ctx}{call} of object {k} raised {e!r}"]
            flipped = not is_ovr or bait_strand == -1
            want = model_reverse(held) if flipped else held
            if got != want:
                msgs.append(
                    f"{ctx}{call} of object {k}, which holds the rows {held}, gives rows {got}, expected "
                    f"{'order inverted and every strand negated' if flipped else 'the rows unchanged'}: {want}"
                )
            elif back is not None and back != held:
                msgs.append(f"{ctx}reversing the result of {call} of object {k} gives rows {back}, the rows held are {held}")
            want_len = sum(G.spec_length(x) for x in held)
            if not msgs and sum(r.length for r in new.rows) != want_len:
                msgs.append(f"{ctx}{call} of object {k} has rows of total length {sum(r.length for r in new.rows)}, the rows held sum to {want_len}")
            for j, (other, _) in enumerate(objs):
                if other is new:
                    msgs.append(f"{ctx}{call} of object {k} returned object {j} itself, not a new scaffold")
                elif other.rows is new.rows:
                    msgs.append(f"{ctx}{call} of object {k} returned a scaffold that shares its row list with object {j}")
            objs.append([new, got])
            k = None
        else:
            apply_history_edit(obj, op)
            objs[k][1] = specs_of(obj)
        for j, (other, was) in enumerate(objs):
            if j != k and specs_of(other) != was:
                msgs.append(f"{ctx}the step changed object {j}, to which it was not applied: rows {was} became {specs_of(other)}")
        if msgs:
            return msgs
    return []


def history_scripts(c, extra):
    """
    the enumerated histories of one start object; c: running number, extra: three row specs to edit with.
    Every edit kind between two reversals of the same object; an edit of the scaffold handed out by the first reversal;
    edits before the first reversal and several rounds.
    """
    x, y, z = extra
    gap = ["G", 200, "scaffold"]
    edits = [
        ["add_row", 0, x], ["append", 0, [y, z]], ["append", 0, [x]], ["append_gap", 0, [y], gap], ["append_gap", 0, [], gap],
        ["set", 0, c, x], ["pop", 0], ["pop_first", 0], ["extend", 0, [z, x]], ["insert", 0, c, y], ["assign", 0, [x, y]], ["clear", 0], ["reverse_rows", 0],
    ]  # fmt: skip
    for e in edits:
        yield [["reverse", 0], e, ["reverse", 0]]
    e1, e2, e3 = edits[c % len(edits)], edits[(c + 4) % len(edits)], edits[(c + 7) % len(edits)]
    r1, r2 = [e1[0], 1, *e1[2:]], [e2[0], 1, *e2[2:]]
    # the scaffold handed out is edited: the receiver reversed again, the result reversed
    yield [["reverse", 0], r1, ["reverse", 0], ["reverse", 1], r2, ["reverse", 1]]
    # edits first, then rounds of reversal and edit
    yield [e1, ["reverse", 0], e2, ["reverse", 0], e3, ["reverse", 0], ["reverse", 3]]
    # add_row (which every implementation sees) followed by an edit it may not see
    yield [["reverse", 0], ["add_row", 0, x], ["reverse", 0], e2, ["reverse", 0]]


def overlap_history_scripts(c, extra):
    x, y, _ = extra
    edits = [["discard_start", 0], ["discard_end", 0], ["trim", 0], ["set", 0, c, x], ["pop", 0], ["extend", 0, [y]], ["assign", 0, [y, x]], ["reverse_rows", 0], ["insert", 0, c, x]]
    for e in edits:
        yield [["reverse", 0], e, ["reverse", 0]]
    yield [["reverse", 0], [edits[c % 9][0], 1, *edits[c % 9][2:]] if edits[c % 9][0] not in OVERLAP_EDITS else ["pop", 1], ["reverse", 0], ["reverse", 1]]
    yield [edits[c % 9], ["reverse", 0], edits[(c + 2) % 9], ["reverse", 0], edits[(c + 5) % 9], ["reverse", 0]]


def random_history(rng, n_ops, overlap):
    pool = POOL
    ops = []
    n_objs = 1
    for _ in range(n_ops):
        k = rng.randrange(n_objs) if rng.random() < 0.4 else 0
        if rng.random() < 0.4:
            ops.append(["reverse", k])
            n_objs += 1
            continue
        kinds = LIST_EDITS + ((OVERLAP_EDITS * 2) if (overlap and k == 0) else (SCAFFOLD_EDITS * 2))
        kind = rng.choice(kinds)
        some = [rng.choice(pool) for _ in range(rng.randint(0, 2))]
        one = rng.choice(pool)
        if kind in ("add_row",):
            ops.append([kind, k, one])
        elif kind in ("append", "extend", "assign"):
            ops.append([kind, k, some])
        elif kind == "append_gap":
            ops.append([kind, k, some, ["G", 200, "scaffold"]])
        elif kind in ("set", "insert"):
            ops.append([kind, k, rng.randrange(6), one])
        else:
            ops.append([kind, k])
    return ops


def stream_seq(fi, scaffold, line_length, memo=None):
    """(name, residues) of the record written for the scaffold.  memo (one per file / buffer size / line length):
    scaffolds with the same name and rows are streamed once, so that the three ways of reversing one scaffold,
    which give the same rows when the property holds, do not cost three times the streaming."""
    key = (scaffold.name, repr(specs_of(scaffold))) if memo is not None else None
    if key in (memo or ()):
        return memo[key]
    out = io.BytesIO()
    FastaStream(out, fi, line_length=line_length).write_scaffold(scaffold)
    records, problems = G.parse_written_fasta(out.getvalue())
    if problems or len(records) != 1:
        raise ValueError(f"streamed output is not one record: {problems or len(records)}")
    res = records[0][0], b"".join(records[0][1])
    if memo is not None:
        memo[key] = res
    return res


def first_difference(got, want):
    k = next((i for i in range(min(len(got), len(want))) if got[i] != want[i]), min(len(got), len(want)))
    return f"first difference at {k + 1}: {got[k : k + 10]!r} vs {want[k : k + 10]!r}"


def reversal_commutes(fi, specs, line_length, via="reverse", memo=None):
    """via "reverse": scaffold.reverse();  via "history": the same scaffold reached with a history - its first half is
    reversed once (result dropped), then the second half is appended without a gap - and reversed;  via 1 / -1 / 0:
    to_scaffold() of an OverlapResult holding the same rows, found for a bait of that strand.  -> message or None"""
    sc = scaffold_from("sc", specs)
    try:
        name1, fwd = stream_seq(fi, sc, line_length, memo)
        if via == "history":
            h = len(specs) // 2
            sc = scaffold_from("sc", specs[:h])
            sc.reverse()
            sc.append_scaffold(scaffold_from("rest", specs[h:]))
            if specs_of(sc) != [norm(x) for x in specs]:
                return None  # the edit did not give the scaffold meant: nothing to say about its reversal
        other = sc.reverse() if via in ("reverse", "history") else overlap_from("sc", specs, via).to_scaffold()
        name2, rev = stream_seq(fi, other, line_length, memo)
    except Exception as e:  # noqa: BLE001
        return f"streaming raised {e!r}" if via in ("reverse", "history") else f"streaming to_scaffold() of the overlap result ({BAIT_WORD[via]}) raised {e!r}"
    if via not in ("reverse", "history", -1):
        want = None
    elif memo is None:
        want = G.revcomp(fwd)
    else:
        want = memo[("model revcomp", fwd)] = memo.get(("model revcomp", fwd)) or G.revcomp(fwd)
    if via in ("reverse", "history"):
        if name1 != name2:
            return f"reversed scaffold streamed under the name {name2!r}, original {name1!r}"
        if rev != want and via == "history":
            h = len(specs) // 2
            return (
                f"a scaffold whose first {h} rows were reversed once before the other {len(specs) - h} were appended (append_scaffold, no gap): "
                f"streaming its reversal gives {len(rev)} residues, the reverse complement of streaming it has {len(want)}; {first_difference(rev, want)}"
            )
        if rev != want:
            return (
                f"streaming the reversed scaffold gives {len(rev)} residues, the reverse complement of streaming the original has "
                f"{len(want)}; {first_difference(rev, want)}"
            )
        return None
    what = f"to_scaffold() of the overlap result found for {BAIT_WORD[via]}"
    if name1 != name2:
        return f"{what} streamed under the name {name2!r}, the overlap result is named {name1!r}"
    if via == -1:
        if rev != want:
            return (
                f"streaming {what} gives {len(rev)} residues, the reverse complement of streaming the rows found has "
                f"{len(want)}; {first_difference(rev, want)}"
            )
    elif rev != fwd:
        return f"streaming {what} gives {len(rev)} residues, streaming the rows found gives {len(fwd)}; {first_difference(rev, fwd)}"
    return None


def check_stream(fi, specs, line_length, via="reverse", memo=None):
    """-> (message or None, classes)"""
    msg = reversal_commutes(fi, specs, line_length, via, memo)
    if msg is None:
        return None, []
    has0 = any(s[0] == "F" and s[4] == 0 for s in specs)
    if has0 and via in ("reverse", "history", -1):  # a plus/unknown bait makes no reversal: nothing there can be the known class
        without = [s for s in specs if not (s[0] == "F" and s[4] == 0)]
        if reversal_commutes(fi, without, line_length, via, memo) is None:
            return msg, [KNOWN]
    return msg, []


def open_case(case, path, bs):
    case.write(path)
    idx, _ = index_fasta_file(path, 250_000)
    fi = FastaIndex(path, bs)
    fi.index = idx
    return fi


def replay(inp):
    if inp["kind"] == "reverse":
        m = check_reverse(inp["rows"])
        return m[0] if m else None
    if inp["kind"] == "overlap":
        m = check_overlap(inp["rows"], inp["bait_strand"], inp["bait_tags"], inp["overhang"])
        return m[0] if m else None
    if inp["kind"] == "history":
        m = check_history(inp["rows"], inp["ops"], inp.get("bait_strand"))
        return m[0] if m else None
    if inp["kind"] == "table":
        m = check_table()
        return m[0] if m else None
    if inp["kind"] == "bytes":
        m = check_involution(bytes(inp["bytes"]))
        return m[0] if m else None
    if inp["kind"] == "long-bytes":
        m = check_long_bytes(inp["length"], inp["seed"], inp["alphabet"])
        return m[0] if m else None
    if inp["kind"] == "long-stream":
        with G.quiet_logging(), G.workdir() as d:
            found, _ = check_long_stream(
                d / "r.fa", inp["length"], inp["seed"], inp["width"], inp["eol"], inp["buffer"], [(inp["rows"], inp["line_length"], inp["via"])]
            )
            return found[0][0] if found else None
    with G.quiet_logging(), G.workdir() as d:
        case = G.FastaCase.from_spec(inp["case"])
        fi = open_case(case, d / "r.fa", inp["buffer"])
        try:
            return check_stream(fi, inp["rows"], inp["line_length"], inp.get("via", "reverse"))[0]
        finally:
            close_index(fi)


def run(tier, seed, **opts):
    rng = random.Random(seed)
    quick = tier == "quick"
    max_rows = 4 if quick else 5
    col = Collector(
        f"reverse: every sequence of 0..{max_rows} rows from a pool of {len(POOL)} (strands +,-,?; tags; gaps incl. length 0); "
        "overlap result: the same row sequences x bait strand +,-,? (bait tags and overhangs rotating), to_scaffold() against the "
        "model reversal (minus bait) or the rows unchanged; "
        f"histories: row sequences of 0..{2 if quick else 3} rows as a scaffold or an overlap result, taken through reversals and edits of the "
        "same object (add_row, append_scaffold with / without gap, direct edits of the row list, discard_start / discard_end / "
        "trim_fragment) and of the scaffolds handed out, every edit kind between two reversals, plus seeded histories of 3..10 "
        "steps: each reversal against the rows held at that moment, results new and unshared, no step changes another object; "
        "complement: 256 byte values, all 1- and 2-byte strings, random byte strings, long byte strings with lengths around powers "
        "of two and typical block sizes (2**12+1 .. 2**20+3; thorough to 2**24+5); streaming: long records with minus-strand "
        "fragments longer than 2**16 and buffers larger than that; FASTA files with mixed-case "
        "IUPAC and non-IUPAC residues in several layouts x scaffolds of 1..3 rows from a pool of intervals x strands +,-,? "
        "and gaps x buffer sizes x line lengths, and random scaffolds over random files, each reversed four ways: "
        "scaffold.reverse(), reverse() of the same scaffold reached with a history (first half reversed once, rest appended), to_scaffold() of an overlap result with a minus-strand bait (both: reverse complement expected), "
        "to_scaffold() with a plus- or unknown-strand bait (same record expected); non-trivial = distinct input with at "
        "least one fragment row (reverse, overlap result, streaming) / at least one byte (complement)"
    )
    known_seen = 0

    # 1. Scaffold.reverse
    for n in range(0, max_rows + 1):
        for combo in itertools.product(range(len(POOL)), repeat=n):
            rows = [POOL[i] for i in combo]
            msgs = check_reverse(rows)
            inp = {"kind": "reverse", "rows": rows}
            if msgs:
                col.fail(msgs[0], inp)
            col.case(("reverse", combo), nontrivial=any(r[0] == "F" for r in rows), sample=inp if combo == (0, 5, 2, 1) else None)
        if col.full:
            break
    # 1b. OverlapResult.to_scaffold: the same row sequences x bait strand; bait tags and overhangs (which must not
    #     matter) rotate with the case
    for n in range(0, max_rows + 1):
        for combo in itertools.product(range(len(POOL)), repeat=n):
            rows = [POOL[i] for i in combo]
            for bait_strand in (1, -1, 0):
                bait_tags = BAIT_TAGS[(sum(combo) + bait_strand) % len(BAIT_TAGS)]
                overhang = (0, 2, -3)[(sum(combo) + n + bait_strand) % 3]
                msgs = check_overlap(rows, bait_strand, bait_tags, overhang)
                inp = {"kind": "overlap", "rows": rows, "bait_strand": bait_strand, "bait_tags": bait_tags, "overhang": overhang}
                if msgs:
                    col.fail(msgs[0], inp)
                col.case(("overlap", combo, bait_strand), nontrivial=any(r[0] == "F" for r in rows),
                         sample=inp if (combo, bait_strand) == ((0, 5, 1, 2), -1) else None)
        if col.full:
            break
    # 1c. histories: reversals and edits on the same objects.  Enumerated: every row sequence of 0..2 rows (thorough: 0..3)
    #     from the pool as a scaffold, and (1..2 / 1..3 rows) as an overlap result under each bait strand, x the scripts of
    #     history_scripts / overlap_history_scripts; seeded: random histories of 3..10 steps
    n_hist = 0
    hist_rows = 2 if quick else 3
    for n in range(0, hist_rows + 1):
        for combo in itertools.product(range(len(POOL)), repeat=n):
            rows = [POOL[i] for i in combo]
            c = sum(combo) + n
            extra = [POOL[(c + 1) % 5], POOL[5 + c % 3], POOL[(c + 3) % 5]]
            starts = [(None, history_scripts(c, extra))]
            if n:
                starts += [(b, overlap_history_scripts(c + b, extra)) for b in ((1, -1, 0) if not quick or n == 1 else (-1,))]
            for bait_strand, scripts in starts:
                for ops in scripts:
                    n_hist += 1
                    inp = {"kind": "history", "rows": rows, "ops": ops, "bait_strand": bait_strand}
                    msgs = check_history(rows, ops, bait_strand)
                    if msgs:
                        col.fail(msgs[0], inp)
                    col.case(("history", combo, repr(ops), bait_strand), sample=inp if n_hist in (400, 2500) else None)
        if col.full:
            break
    n_random_hist = 400 if quick else 30000
    rng_h = random.Random(seed * 1_000_003 + 14)  # a generator of their own: the streams below do not depend on the histories
    for k in range(n_random_hist):
        rows = [rng_h.choice(POOL) for _ in range(rng_h.randint(0, 4))]
        overlap = k % 3 == 0
        bait_strand = rng_h.choice((-1, -1, 1, 0)) if overlap else None
        ops = random_history(rng_h, rng_h.randint(3, 10), overlap)
        inp = {"kind": "history", "rows": rows, "ops": ops, "bait_strand": bait_strand}
        msgs = check_history(rows, ops, bait_strand)
        if msgs:
            col.fail(msgs[0], inp)
        col.case(("history", repr(rows), repr(ops), bait_strand))
    # 2. complement table and involution
    for m in check_table():
        col.fail(m, {"kind": "table"})
    col.case(("table",))
    for a in range(256):
        strings = [bytes([a])] + [bytes([a, b]) for b in range(256)]
        for s in strings:
            msgs = check_involution(s)
            if msgs:
                col.fail(msgs[0], {"kind": "bytes", "bytes": list(s)})
            col.case(("bytes", s))
    for k in range(2000 if quick else 50000):
        n = rng.choice((0, 1, 3, 7, 30, 61, 200))
        s = bytes(rng.randrange(256) for _ in range(n)) if k % 2 else bytes(rng.choice(b"ACGTUacgtuRYMKSWHBVDNrymkswhbvdn-*Xx") for _ in range(n))
        msgs = check_involution(s)
        inp = {"kind": "bytes", "bytes": list(s)}
        if msgs:
            col.fail(msgs[0], inp)
        col.case(("bytes", s), nontrivial=n > 0, sample=inp if k == 4 else None)

    # 2b. long byte strings
    lengths = long_lengths(quick, rng)
    for n in lengths:
        for alphabet in ("bytes", "iupac") if (not quick or n in (2**16 + 17, 2**17 + 5)) else (("bytes", "iupac")[n % 2],):
            inp = {"kind": "long-bytes", "length": n, "seed": seed, "alphabet": alphabet}
            for m in check_long_bytes(n, seed, alphabet)[:1]:
                col.fail(m, inp)
            col.case(("long-bytes", n, seed, alphabet), sample=inp if n == 2**16 + 17 and alphabet == "iupac" else None)

    # 3. streaming a reversed scaffold
    with G.quiet_logging(), G.workdir() as d:
        path = d / "t.fa"
        # 3a. long minus-strand fragments, buffers larger than the usual block sizes
        if quick:
            long_jobs = [(2**17 + 5, 60, "LF", (2**16 + 17, 250_000))]
        else:
            long_jobs = [
                (2**16 + 1, 60, "LF", (2**16 + 1, 250_000)),
                (2**17 + 5, 60, "LF", (2**12 + 1, 2**16, 2**16 + 17, 100_000, 2**17 + 4, 250_000)),
                (300_007, 61, "CRLF", (2**16 + 1, 250_000, 300_007)),
                (2**17 + 5, 10**9, "LF", (2**16 + 17, 250_000)),
                (2**20 + 3, 80, "LF", (250_000, 2**20 + 3, 2**21)),
            ]
        for n, width, eol, buffers in long_jobs:
            for bs in buffers:
                found, count = check_long_stream(path, n, seed, width, eol, bs)
                for msg, classes, rows, ll, via in found[:2]:
                    col.fail(
                        f"record of {n} residues, buffer_size {bs}: {msg}",
                        {"kind": "long-stream", "length": n, "seed": seed, "width": width, "eol": eol, "buffer": bs, "rows": rows, "line_length": ll, "via": via},
                        classes,
                    )
                for i in range(count):
                    col.case(("long-stream", n, seed, width, eol, bs, i))
        r1 = b"AcgRtNnYKtGCUuXx-*MmSsWwHhBbVvDd"
        r2 = b"tTGmcAA"
        lays = [(4, b"\n", True), (5, b"\r\n", False), (60, b"\n", True), (1, b"\n", False), (7, b"\r\n", True)]
        if quick:
            lays = lays[:3]
        for w, eol, fin in lays:
            case = G.FastaCase([G.Rec("a", r1, b" d"), G.Rec("b", r2)], w, eol, fin)
            spec = case.spec()
            pool = []
            for name, s, e in (("a", 1, 32), ("a", 3, 9), ("a", 12, 19), ("b", 1, 7), ("b", 4, 4)):
                for strand in (1, -1, 0):
                    pool.append(["F", name, s, e, strand, []])
            pool += [["G", 0, "scaffold"], ["G", 2, "scaffold"], ["G", 7, "contig"]]
            for bs in (1, 3, 5, 250_000) if quick else (1, 2, 3, 4, 5, 7, 8, 31, 32, 33, 250_000):
                fi = open_case(case, path, bs)
                try:
                    for n in (1, 2, 3):
                        for combo in itertools.product(range(len(pool)), repeat=n):
                            if n == 3 and (sum(combo) + bs) % (6 if quick else 2):
                                continue
                            rows = [pool[i] for i in combo]
                            ll = (60, 3, 7)[(sum(combo) + n) % 3]
                            # scaffold.reverse(), a minus-strand bait, and one of plus / unknown bait
                            memo = {}
                            # ... and, for the 1- and 2-row scaffolds and a share of the others, reverse() after a history
                            with_history = n < 3 or (quick and sum(combo) % 5 == 0) or (not quick and sum(combo) % 3 == 0)
                            for via in ("reverse", *(("history",) if with_history else ()), -1, (1, 0)[(sum(combo) + bs) % 2]):
                                msg, classes = check_stream(fi, rows, ll, via, memo)
                                inp = {"kind": "stream", "case": spec, "buffer": bs, "rows": rows, "line_length": ll, "via": via}
                                if msg:
                                    if KNOWN in classes:
                                        known_seen += 1
                                        if known_seen <= MAX_KNOWN_REPORTED:
                                            col.fail(msg, inp, classes)
                                    else:
                                        col.fail(msg, inp, classes)
                                col.case(("stream", case.key(), bs, combo, ll, via), nontrivial=any(r[0] == "F" for r in rows),
                                         sample=inp if (bs, combo, via) in ((3, (1, 17, 6), "reverse"), (3, (4, 19, 0), -1)) else None)
                finally:
                    close_index(fi)
                    G.remove_with_caches(path)
                if col.full:
                    break
            if col.full:
                break
        # random scaffolds over random files
        for k in range(150 if quick else 5000):
            if col.full:
                break
            case = G.random_case(rng, max_len=80 if quick else 300)
            bs = rng.choice((1, 2, 3, 5, 7, case.width, case.width + 1, 61, 250_000))
            fi = open_case(case, path, bs)
            try:
                for _rep in range(8):
                    rows = []
                    p0 = rng.choice((0.0, 0.0, 0.15))
                    for _ in range(rng.randint(1, 5)):
                        if rng.random() < 0.25:
                            rows.append(["G", rng.choice((0, 1, bs, bs + 1, 3 * bs, 200)), "scaffold"])
                        else:
                            r = rng.choice(case.records)
                            L = len(r.seq)
                            s = rng.randint(1, L)
                            e = rng.choice((L, rng.randint(s, L)))
                            strand = 0 if rng.random() < p0 else rng.choice((1, -1))
                            rows.append(["F", r.name, s, e, strand, []])
                    ll = rng.choice((60, 60, 1, 5, 61))
                    memo = {}
                    for via in ("reverse", "history", -1, (1, 0)[(k + _rep) % 2]):
                        msg, classes = check_stream(fi, rows, ll, via, memo)
                        inp = {"kind": "stream", "case": case.spec(), "buffer": bs, "rows": rows, "line_length": ll, "via": via}
                        if msg:
                            if KNOWN in classes:
                                known_seen += 1
                                if known_seen <= MAX_KNOWN_REPORTED:
                                    col.fail(msg, inp, classes)
                            else:
                                col.fail(msg, inp, classes)
                        col.case(("stream", case.key(), bs, repr(rows), ll, via), nontrivial=any(r[0] == "F" for r in rows))
            finally:
                close_index(fi)
                G.remove_with_caches(path)
    return col.result(
        bounds=(
            f"reverse: {len(POOL)}-row pool, sequences of 0..{max_rows}; overlap result: the same sequences x 3 bait strands; "
            f"histories: {n_hist} enumerated over sequences of 0..{hist_rows} rows, {n_random_hist} seeded of 3..10 steps; complement: exhaustive over 256 values and 65792 short strings, "
            f"{2000 if quick else 50000} random strings up to 200 bytes, {len(lengths)} long strings of {min(lengths)}..{max(lengths)} bytes "
            "(lengths around powers of two / block sizes); streaming: one-record files of "
            + ("131077 residues" if quick else "65537..1048579 residues")
            + " with long minus-strand fragments and buffers > 2**16; 2-record file (32 and 7 residues) in {len(lays)} layouts, "
            "18 fragment rows + 3 gaps, all 1- and 2-row scaffolds and a fixed share of the 3-row ones, buffers "
            + ("1,3,5,250000" if quick else "1,2,3,4,5,7,8,31,32,33,250000")
            + f"; {150 if quick else 5000} random files x 8 random scaffolds; every streamed scaffold via reverse(), reverse() after a history, minus bait, plus-or-unknown bait"
        ),
        exhaustive=False,
        known_class_failures_seen=known_seen,
        known_class_failures_reported=min(known_seen, MAX_KNOWN_REPORTED),
    )
