"""
C14 bounded tier: reversal and reverse complement.

  * Scaffold.reverse over every row sequence up to a length from a pool (strands +, -, unknown; tags; gaps of
    two types and length 0): rows after one reversal == the model (order inverted, every strand negated, gap
    rows / intervals / tags / total length unchanged), rows after two reversals == the original rows, the
    original scaffold is left as it was
  * reverse_complement / revcomp_bytes_io: the complement of each of the 256 byte values against an
    independently written case-preserving IUPAC table (bounded/fasta_gen.py), twice == identity on all 1- and
    2-byte strings and on random byte strings, and equality with the base-by-base model on random strings
  * streaming: for generated FASTA files x scaffolds x buffer sizes x line lengths, the record streamed for
    scaffold.reverse() == the model reverse complement of the record streamed for the scaffold.
    Scaffolds with a strand-0 (unknown) fragment are included; a mismatch there is tagged with the known class
    "strand0-reversal" only if the same scaffold without its strand-0 rows passes.
"""

import io
import itertools
import random

from tola.assembly.scaffold import Scaffold
from tola.fasta.index import FastaIndex, index_fasta_file
from tola.fasta.simple import reverse_complement, revcomp_bytes_io
from tola.fasta.stream import FastaStream

from . import fasta_gen as G
from .common import Collector, row_spec, scaffold_from

KNOWN = "strand0-reversal"
MAX_KNOWN_REPORTED = 3

POOL = [
    ["F", "c", 1, 4, 1, []],
    ["F", "c", 2, 3, -1, ["Painted"]],
    ["F", "d", 5, 9, 0, []],
    ["F", "c", 7, 7, -1, ["Hap1", "Unloc"]],
    ["F", "e", 3, 8, 0, ["Painted"]],
    ["G", 3, "scaffold"],
    ["G", 10, "contig"],
    ["G", 0, "scaffold"],
]


def close_index(fi):
    fh = fi.__dict__.pop("fasta_fileandle", None)
    if fh is not None:
        fh.close()


def norm(spec):
    return [*spec[:5], list(spec[5])] if spec[0] == "F" else list(spec[:3])


def model_reverse(specs):
    out = []
    for s in reversed(specs):
        out.append([s[0], s[1], s[2], s[3], -s[4], list(s[5])] if s[0] == "F" else list(s))
    return out


def specs_of(scaffold):
    return [norm(row_spec(r)) for r in scaffold.rows]


def check_reverse(specs):
    specs = [norm(s) for s in specs]
    sc = scaffold_from("sc", specs)
    try:
        rev = sc.reverse()
        rev2 = rev.reverse()
    except Exception as e:  # noqa: BLE001
        return [f"Scaffold.reverse raised {e!r}"]
    msgs = []
    if specs_of(sc) != specs:
        msgs.append(f"reverse() changed the scaffold it was called on: {specs_of(sc)}")
    got = specs_of(rev)
    want = model_reverse(specs)
    if got != want:
        msgs.append(f"one reversal gives rows {got}, expected order inverted and every strand negated: {want}")
    want_len = sum(G.spec_length(s) for s in specs)
    if rev.length != want_len:
        msgs.append(f"reversed scaffold has length {rev.length}, rows sum to {want_len}")
    if specs_of(rev2) != specs:
        msgs.append(f"two reversals give rows {specs_of(rev2)}, original rows are {specs}")
    if not isinstance(rev, Scaffold) or rev.name != sc.name:
        msgs.append(f"reversal returned {type(rev).__name__} named {getattr(rev, 'name', None)!r}")
    return msgs


def check_table():
    msgs = []
    for b in range(256):
        got = reverse_complement(bytes([b]))
        if got != bytes([G.COMPLEMENT[b]]):
            msgs.append(f"complement of byte {b} ({bytes([b])!r}) is {got!r}, IUPAC table says {bytes([G.COMPLEMENT[b]])!r}")
    return msgs


def check_involution(s):
    try:
        once = reverse_complement(s)
        twice = reverse_complement(once)
        via_io = revcomp_bytes_io(io.BytesIO(s)).getvalue()
    except Exception as e:  # noqa: BLE001
        return [f"reverse_complement({s[:20]!r}) raised {e!r}"]
    msgs = []
    if twice != s:
        msgs.append(f"reverse_complement twice of {s[:24]!r} gives {twice[:24]!r}")
    if once != G.revcomp(s):
        msgs.append(f"reverse_complement({s[:24]!r}) = {once[:24]!r}, base-by-base model gives {G.revcomp(s)[:24]!r}")
    if via_io != once:
        msgs.append(f"revcomp_bytes_io differs from reverse_complement on {s[:24]!r}")
    return msgs


def stream_seq(fi, scaffold, line_length):
    out = io.BytesIO()
    FastaStream(out, fi, line_length=line_length).write_scaffold(scaffold)
    records, problems = G.parse_written_fasta(out.getvalue())
    if problems or len(records) != 1:
        raise ValueError(f"streamed output is not one record: {problems or len(records)}")
    return records[0][0], b"".join(records[0][1])


def reversal_commutes(fi, specs, line_length):
    """-> message or None"""
    sc = scaffold_from("sc", specs)
    try:
        name1, fwd = stream_seq(fi, sc, line_length)
        name2, rev = stream_seq(fi, sc.reverse(), line_length)
    except Exception as e:  # noqa: BLE001
        return f"streaming raised {e!r}"
    if name1 != name2:
        return f"reversed scaffold streamed under the name {name2!r}, original {name1!r}"
    want = G.revcomp(fwd)
    if rev != want:
        k = next((i for i in range(min(len(rev), len(want))) if rev[i] != want[i]), min(len(rev), len(want)))
        return (
            f"streaming the reversed scaffold gives {len(rev)} residues, the reverse complement of streaming the original has "
            f"{len(want)}; first difference at {k + 1}: {rev[k : k + 10]!r} vs {want[k : k + 10]!r}"
        )
    return None


def check_stream(fi, specs, line_length):
    """-> (message or None, classes)"""
    msg = reversal_commutes(fi, specs, line_length)
    if msg is None:
        return None, []
    has0 = any(s[0] == "F" and s[4] == 0 for s in specs)
    if has0:
        without = [s for s in specs if not (s[0] == "F" and s[4] == 0)]
        if reversal_commutes(fi, without, line_length) is None:
            return msg, [KNOWN]
    return msg, []


def open_case(case, path, bs):
    case.write(path)
    idx, _ = index_fasta_file(path, 250_000)
    fi = FastaIndex(path, bs)
    fi.index = idx
    return fi


def replay(inp):
    if inp["kind"] == "reverse":
        m = check_reverse(inp["rows"])
        return m[0] if m else None
    if inp["kind"] == "table":
        m = check_table()
        return m[0] if m else None
    if inp["kind"] == "bytes":
        m = check_involution(bytes(inp["bytes"]))
        return m[0] if m else None
    with G.quiet_logging(), G.workdir() as d:
        case = G.FastaCase.from_spec(inp["case"])
        fi = open_case(case, d / "r.fa", inp["buffer"])
        try:
            return check_stream(fi, inp["rows"], inp["line_length"])[0]
        finally:
            close_index(fi)


def run(tier, seed, **opts):
    rng = random.Random(seed)
    quick = tier == "quick"
    max_rows = 4 if quick else 5
    col = Collector(
        f"reverse: every sequence of 0..{max_rows} rows from a pool of {len(POOL)} (strands +,-,?; tags; gaps incl. length 0); "
        "complement: 256 byte values, all 1- and 2-byte strings, random byte strings; streaming: FASTA files with mixed-case "
        "IUPAC and non-IUPAC residues in several layouts x scaffolds of 1..3 rows from a pool of intervals x strands +,-,? "
        "and gaps x buffer sizes x line lengths, and random scaffolds over random files; non-trivial = distinct input with at "
        "least one fragment row (reverse, streaming) / at least one byte (complement)"
    )
    known_seen = 0

    # 1. Scaffold.reverse
    for n in range(0, max_rows + 1):
        for combo in itertools.product(range(len(POOL)), repeat=n):
            rows = [POOL[i] for i in combo]
            msgs = check_reverse(rows)
            inp = {"kind": "reverse", "rows": rows}
            if msgs:
                col.fail(msgs[0], inp)
            col.case(("reverse", combo), nontrivial=any(r[0] == "F" for r in rows), sample=inp if combo == (0, 5, 2, 1) else None)
        if col.full:
            break
    # 2. complement table and involution
    for m in check_table():
        col.fail(m, {"kind": "table"})
    col.case(("table",))
    for a in range(256):
        strings = [bytes([a])] + [bytes([a, b]) for b in range(256)]
        for s in strings:
            msgs = check_involution(s)
            if msgs:
                col.fail(msgs[0], {"kind": "bytes", "bytes": list(s)})
            col.case(("bytes", s))
    for k in range(2000 if quick else 50000):
        n = rng.choice((0, 1, 3, 7, 30, 61, 200))
        s = bytes(rng.randrange(256) for _ in range(n)) if k % 2 else bytes(rng.choice(b"ACGTUacgtuRYMKSWHBVDNrymkswhbvdn-*Xx") for _ in range(n))
        msgs = check_involution(s)
        inp = {"kind": "bytes", "bytes": list(s)}
        if msgs:
            col.fail(msgs[0], inp)
        col.case(("bytes", s), nontrivial=n > 0, sample=inp if k == 4 else None)

    # 3. streaming a reversed scaffold
    with G.quiet_logging(), G.workdir() as d:
        path = d / "t.fa"
        r1 = b"AcgRtNnYKtGCUuXx-*MmSsWwHhBbVvDd"
        r2 = b"tTGmcAA"
        lays = [(4, b"\n", True), (5, b"\r\n", False), (60, b"\n", True), (1, b"\n", False), (7, b"\r\n", True)]
        if quick:
            lays = lays[:3]
        for w, eol, fin in lays:
            case = G.FastaCase([G.Rec("a", r1, b" d"), G.Rec("b", r2)], w, eol, fin)
            spec = case.spec()
            pool = []
            for name, s, e in (("a", 1, 32), ("a", 3, 9), ("a", 12, 19), ("b", 1, 7), ("b", 4, 4)):
                for strand in (1, -1, 0):
                    pool.append(["F", name, s, e, strand, []])
            pool += [["G", 0, "scaffold"], ["G", 2, "scaffold"], ["G", 7, "contig"]]
            for bs in (1, 3, 5, 250_000) if quick else (1, 2, 3, 4, 5, 7, 8, 31, 32, 33, 250_000):
                fi = open_case(case, path, bs)
                try:
                    for n in (1, 2, 3):
                        for combo in itertools.product(range(len(pool)), repeat=n):
                            if n == 3 and (sum(combo) + bs) % (6 if quick else 2):
                                continue
                            rows = [pool[i] for i in combo]
                            ll = (60, 3, 7)[(sum(combo) + n) % 3]
                            msg, classes = check_stream(fi, rows, ll)
                            inp = {"kind": "stream", "case": spec, "buffer": bs, "rows": rows, "line_length": ll}
                            if msg:
                                if KNOWN in classes:
                                    known_seen += 1
                                    if known_seen <= MAX_KNOWN_REPORTED:
                                        col.fail(msg, inp, classes)
                                else:
                                    col.fail(msg, inp, classes)
                            col.case(("stream", case.key(), bs, combo, ll), nontrivial=any(r[0] == "F" for r in rows),
                                     sample=inp if (bs, combo) == (3, (1, 17, 6)) else None)
                finally:
                    close_index(fi)
                    G.remove_with_caches(path)
                if col.full:
                    break
            if col.full:
                break
        # random scaffolds over random files
        for k in range(150 if quick else 5000):
            if col.full:
                break
            case = G.random_case(rng, max_len=80 if quick else 300)
            bs = rng.choice((1, 2, 3, 5, 7, case.width, case.width + 1, 61, 250_000))
            fi = open_case(case, path, bs)
            try:
                for _rep in range(8):
                    rows = []
                    p0 = rng.choice((0.0, 0.0, 0.15))
                    for _ in range(rng.randint(1, 5)):
                        if rng.random() < 0.25:
                            rows.append(["G", rng.choice((0, 1, bs, bs + 1, 3 * bs, 200)), "scaffold"])
                        else:
                            r = rng.choice(case.records)
                            L = len(r.seq)
                            s = rng.randint(1, L)
                            e = rng.choice((L, rng.randint(s, L)))
                            strand = 0 if rng.random() < p0 else rng.choice((1, -1))
                            rows.append(["F", r.name, s, e, strand, []])
                    ll = rng.choice((60, 60, 1, 5, 61))
                    msg, classes = check_stream(fi, rows, ll)
                    inp = {"kind": "stream", "case": case.spec(), "buffer": bs, "rows": rows, "line_length": ll}
                    if msg:
                        if KNOWN in classes:
                            known_seen += 1
                            if known_seen <= MAX_KNOWN_REPORTED:
                                col.fail(msg, inp, classes)
                        else:
                            col.fail(msg, inp, classes)
                    col.case(("stream", case.key(), bs, repr(rows), ll), nontrivial=any(r[0] == "F" for r in rows))
            finally:
                close_index(fi)
                G.remove_with_caches(path)
    return col.result(
        bounds=(
            f"reverse: {len(POOL)}-row pool, sequences of 0..{max_rows}; complement: exhaustive over 256 values and 65792 short strings, "
            f"{2000 if quick else 50000} random strings up to 200 bytes; streaming: 2-record file (32 and 7 residues) in {len(lays)} layouts, "
            "18 fragment rows + 3 gaps, all 1- and 2-row scaffolds and a fixed share of the 3-row ones, buffers "
            + ("1,3,5,250000" if quick else "1,2,3,4,5,7,8,31,32,33,250000")
            + f"; {150 if quick else 5000} random files x 8 random scaffolds"
        ),
        exhaustive=False,
        known_class_failures_seen=known_seen,
        known_class_failures_reported=min(known_seen, MAX_KNOWN_REPORTED),
    )
