"""
Shared generator of small well-formed FASTA files and an independent pure-Python model of them.

Nothing in this module imports the FASTA code of the project: the model side (residue strings, faidx
quintuples, tilings into ACGT runs and other runs, reverse complement, rendering of assembly rows,
line wrapping, parsing of FASTA / AGP text that the tools wrote) is brute force, base by base and byte
by byte, so that the c03/c04/c06/c13/c14 modules can use it as their oracle.

Only the small CLI harness at the end (run_pretext_cli) touches the project, and only to *run* it.
"""

import contextlib
import itertools
import logging
import pathlib
import random
import tempfile

ACGT = frozenset(b"ACGTacgt")

# Fixed aperiodic fill strings: an enumerated 0/1 mask (1 = ACGT-class residue, 0 = other residue) is turned
# into a residue string by taking the i-th letter of one of these, so that a shifted, dropped or repeated
# residue is visible in the result (a periodic fill would hide shifts by one period).
_fill_rng = random.Random(20261003)
FILL_ACGT = bytes(_fill_rng.choice(b"AcGtaCgT") for _ in range(251))
FILL_OTHER = bytes(_fill_rng.choice(b"NnRNnYNKns") for _ in range(241))

DESCRIPTIONS = (b"", b" len=7 circular", b" trailing blank ", b"\tafter a tab", b" x\t")


# ----------------------------------------------------------------------------------------------------------
# model of a FASTA file


class Rec:
    """one record of the model: name, description bytes (verbatim after the name) and residue string"""

    __slots__ = ("name", "desc", "seq")

    def __init__(self, name, seq, desc=b""):
        self.name = name
        self.seq = bytes(seq)
        self.desc = bytes(desc)


class FastaCase:
    """records + layout (line width, line terminator, final newline present or not)"""

    def __init__(self, records, width, eol=b"\n", final_newline=True):
        self.records = list(records)
        self.width = int(width)
        self.eol = bytes(eol)
        self.final_newline = bool(final_newline)

    # JSON-able description, enough to rebuild the case
    def spec(self):
        return {
            "records": [[r.name, r.seq.decode("latin-1"), r.desc.decode("latin-1")] for r in self.records],
            "width": self.width,
            "eol": "CRLF" if self.eol == b"\r\n" else "LF",
            "final_newline": self.final_newline,
        }

    @classmethod
    def from_spec(cls, d):
        return cls(
            [Rec(n, s.encode("latin-1"), de.encode("latin-1")) for n, s, de in d["records"]],
            d["width"],
            b"\r\n" if d["eol"] == "CRLF" else b"\n",
            d["final_newline"],
        )

    def key(self):
        return (
            tuple((r.name, r.seq, r.desc) for r in self.records),
            self.width,
            self.eol,
            self.final_newline,
        )

    def seqs(self):
        return {r.name: r.seq for r in self.records}

    def render(self):
        """-> (file bytes, [layout per record]) ; layout = dict with the faidx quintuple of the statement"""
        out = bytearray()
        layout = []
        last = len(self.records) - 1
        for ri, r in enumerate(self.records):
            out += b">" + r.name.encode() + r.desc + self.eol
            offset = len(out)
            lines = [r.seq[i : i + self.width] for i in range(0, len(r.seq), self.width)]
            first_terminated = True
            for li, line in enumerate(lines):
                out += line
                if ri == last and li == len(lines) - 1 and not self.final_newline:
                    if li == 0:
                        first_terminated = False
                else:
                    out += self.eol
            layout.append(
                {
                    "name": r.name,
                    "length": len(r.seq),
                    "offset": offset,
                    "line_residues": len(lines[0]) if lines else 0,
                    "line_bytes": (len(lines[0]) if lines else 0) + len(self.eol),
                    # False only for a one-line last record of a file without final newline: that record
                    # has no full terminated line, so the fifth column is not determined by the file
                    "first_line_terminated": first_terminated,
                    "n_lines": len(lines),
                }
            )
        return bytes(out), layout

    def data(self):
        return self.render()[0]

    def write(self, path):
        data, layout = self.render()
        pathlib.Path(path).write_bytes(data)
        return layout


# ----------------------------------------------------------------------------------------------------------
# brute-force oracles


def is_acgt(b):
    return b in ACGT


def tiling(seq):
    """maximal runs, base by base: ('F', start, end) 1-based inclusive for ACGT runs, ('G', length) otherwise"""
    rows = []
    i = 0
    n = len(seq)
    while i < n:
        cls = seq[i] in ACGT
        j = i
        while j < n and (seq[j] in ACGT) == cls:
            j += 1
        rows.append(("F", i + 1, j) if cls else ("G", j - i))
        i = j
    return rows


def masked(seq):
    """the record with every non-ACGT symbol replaced by N"""
    return bytes(b if b in ACGT else 78 for b in seq)


_PAIRS = ("AT", "CG", "RY", "MK", "SS", "WW", "HD", "BV", "NN")


def iupac_complement_byte(b):
    """independently written case-preserving IUPAC complement of one byte value; other bytes unchanged"""
    ch = chr(b)
    for x, y in _PAIRS:
        for p, q in ((x, y), (y, x)):
            if ch == p:
                return ord(q)
            if ch == p.lower():
                return ord(q.lower())
    return b


COMPLEMENT = [iupac_complement_byte(b) for b in range(256)]


def revcomp(seq):
    out = bytearray()
    for i in range(len(seq) - 1, -1, -1):
        out.append(COMPLEMENT[seq[i]])
    return bytes(out)


def spec_length(spec):
    return spec[1] if spec[0] == "G" else spec[3] - spec[2] + 1


def apply_rows(seqs, specs, gap_character=b"N"):
    """
    the sequence an ordered list of row specs denotes over the model: specs are
    ['F', name, start, end, strand, ...] (1-based inclusive; strand -1 = reverse complement; 1 and 0 forward)
    or ['G', length, ...]
    """
    out = bytearray()
    for s in specs:
        if s[0] == "G":
            out += gap_character * s[1]
        else:
            src = seqs[s[1]]
            if not (1 <= s[2] <= s[3] <= len(src)):
                raise ValueError(f"row {s} outside sequence of length {len(src)}")
            piece = src[s[2] - 1 : s[3]]
            out += revcomp(piece) if s[4] == -1 else piece
    return bytes(out)


def wrap_lines(seq, line_length):
    return [seq[i : i + line_length] for i in range(0, len(seq), line_length)]


def expected_fasta(named_seqs, line_length):
    out = bytearray()
    for name, seq in named_seqs:
        out += b">" + name.encode() + b"\n"
        for line in wrap_lines(seq, line_length):
            out += line + b"\n"
    return bytes(out)


def parse_written_fasta(data):
    """
    independent parse of FASTA bytes written by the tools -> (records, problems)
    records = [(header text after '>', [sequence lines])]
    """
    problems = []
    records = []
    if not data:
        return records, problems
    if not data.endswith(b"\n"):
        problems.append("output does not end with a newline")
    lines = data.split(b"\n")
    if lines and lines[-1] == b"":
        lines.pop()
    for ln in lines:
        if ln.startswith(b">"):
            records.append((ln[1:].decode("latin-1"), []))
        elif not records:
            problems.append(f"sequence line {ln[:20]!r} before the first header")
        else:
            records[-1][1].append(ln)
    return records, problems


def check_wrapping(lines, line_length):
    """clause 'wrapped at the line length with no empty or over-long lines' for one record"""
    msgs = []
    for i, ln in enumerate(lines):
        if len(ln) == 0:
            msgs.append(f"empty line {i + 1}")
        elif len(ln) > line_length:
            msgs.append(f"line {i + 1} has {len(ln)} > {line_length} characters")
        elif i < len(lines) - 1 and len(ln) != line_length:
            msgs.append(f"line {i + 1} of {len(lines)} has {len(ln)} characters, not {line_length}")
        if b"\r" in ln or b">" in ln:
            msgs.append(f"line {i + 1} contains a stray terminator or header byte: {ln[:30]!r}")
    return msgs


def compare_written_fasta(data, expected, line_length):
    """
    data: bytes written; expected: [(name, sequence bytes)] in order.  Returns list of messages (clauses of
    C03: record set and order, unique names, sequence content, wrapping).
    """
    records, msgs = parse_written_fasta(data)
    got_names = [h for h, _ in records]
    want_names = [n for n, _ in expected]
    if got_names != want_names:
        msgs.append(f"record names/order {got_names[:8]} differ from scaffold names/order {want_names[:8]}")
        return msgs
    for (name, lines), (_, want) in zip(records, expected):
        got = b"".join(lines)
        if got != want:
            k = next((i for i in range(min(len(got), len(want))) if got[i] != want[i]), min(len(got), len(want)))
            msgs.append(
                f"record {name}: {len(got)} residues written, {len(want)} expected; first difference at "
                f"residue {k + 1}: got {got[k : k + 12]!r} expected {want[k : k + 12]!r}"
            )
        for m in check_wrapping(lines, line_length):
            msgs.append(f"record {name}: {m}")
    return msgs


def parse_agp_text(text):
    """
    independent AGP reader (split on tabs) -> (objects, problems);
    objects = ordered list of (object name, [row dict]); row dict has the raw columns
    """
    problems = []
    objects = []
    seen = set()
    for n, line in enumerate(text.split("\n"), 1):
        if line == "" or line.startswith("#"):
            continue
        f = line.split("\t")
        if len(f) < 9:
            problems.append(f"line {n}: {len(f)} columns, at least 9 expected: {line!r}")
            continue
        if not objects or objects[-1][0] != f[0]:
            if f[0] in seen:
                problems.append(f"line {n}: object {f[0]!r} is not contiguous in the file")
            seen.add(f[0])
            objects.append((f[0], []))
        objects[-1][1].append({"line": n, "cols": f})
    return objects, problems


def check_agp_object(name, rows):
    """
    the coordinate clauses of C06 for one object -> (messages, object end, row specs)
    row specs are ['F', comp, start, end, strand, tags] / ['G', length, type] as read from the text
    """
    msgs = []
    pos = 0
    specs = []
    strand_of = {"+": 1, "-": -1, "?": 0}
    for i, r in enumerate(rows, 1):
        f = r["cols"]
        where = f"{name} line {r['line']}"
        try:
            beg, end, part = int(f[1]), int(f[2]), int(f[3])
        except ValueError:
            msgs.append(f"{where}: non-numeric object begin/end/part {f[1:4]}")
            continue
        if beg != pos + 1:
            msgs.append(f"{where}: row begins at {beg}, previous row ended at {pos} (hole or overlap)")
        if part != i:
            msgs.append(f"{where}: part number {part}, expected {i}")
        span = end - beg + 1
        if span < 0:
            msgs.append(f"{where}: object end {end} before begin {beg}")
        if f[4] in ("U", "N"):
            if f[4] != "U":
                msgs.append(f"{where}: gap row carries {f[4]!r}, not 'U'")
            try:
                stated = int(f[5])
            except ValueError:
                stated = None
                msgs.append(f"{where}: gap length {f[5]!r} is not a number")
            if stated is not None and span != stated:
                msgs.append(f"{where}: gap row spans {span} but states length {stated}")
            if not f[6].strip():
                msgs.append(f"{where}: gap row has no gap type")
            if f[7] != "yes":
                msgs.append(f"{where}: gap linkage is {f[7]!r}, not 'yes'")
            specs.append(["G", stated if stated is not None else span, f[6]])
        elif f[4] == "W":
            try:
                cs, ce = int(f[6]), int(f[7])
            except ValueError:
                msgs.append(f"{where}: non-numeric component begin/end {f[6:8]}")
                continue
            if ce - cs + 1 != span:
                msgs.append(f"{where}: object span {span} != component span {ce - cs + 1}")
            if cs < 1 or ce < cs:
                msgs.append(f"{where}: component interval {cs}-{ce} is not a 1-based inclusive interval")
            if f[8] not in strand_of:
                msgs.append(f"{where}: orientation {f[8]!r}")
            specs.append(["F", f[5], cs, ce, strand_of.get(f[8], 1), list(f[9:])])
        else:
            msgs.append(f"{where}: component type {f[4]!r} is neither W nor a gap")
        pos = end
    return msgs, pos, specs


# ----------------------------------------------------------------------------------------------------------
# generators


def seq_from_mask(bits, shift=0):
    return bytes(
        FILL_ACGT[(i + shift) % len(FILL_ACGT)] if b else FILL_OTHER[(i + shift) % len(FILL_OTHER)]
        for i, b in enumerate(bits)
    )


def masks(max_len, min_len=1):
    """every 0/1 mask of length min_len..max_len (1 = ACGT-class residue): all arrangements of runs"""
    for n in range(min_len, max_len + 1):
        yield from itertools.product((1, 0), repeat=n)


def layouts(widths=(1, 2, 3, 4, 5, 60)):
    for w in widths:
        for eol in (b"\n", b"\r\n"):
            for fin in (True, False):
                yield w, eol, fin


def letter_strings(max_len, alphabet=b"AcGtNnR"):
    """every residue string over the alphabet up to max_len (7**n strings of length n)"""
    for n in range(1, max_len + 1):
        for t in itertools.product(alphabet, repeat=n):
            yield bytes(t)


def random_seq(rng, n, width=None, p_other=0.25, alphabet=b"ACGTacgt", other=b"NnNNRYKMSWBDHVnrykmUu"):
    """
    random residue string of length n made of alternating ACGT runs and other runs; when width is given, run
    boundaries are biased to fall exactly on line boundaries (the case buffer flushes are sensitive to)
    """
    out = bytearray()
    cls = rng.random() >= p_other
    while len(out) < n:
        run = rng.choice((1, 1, 2, 3, 5, 8, 13, 21, 40))
        if width and rng.random() < 0.5:
            # extend the run to the next line boundary
            run = (width - len(out) % width) + width * rng.choice((0, 0, 1, 2))
        run = min(run, n - len(out))
        src = alphabet if cls else other
        out += bytes(rng.choice(src) for _ in range(run))
        cls = not cls
    return bytes(out)


def random_case(rng, max_records=3, max_len=200, widths=(1, 2, 3, 4, 5, 7, 10, 60, 61, 80), min_len=1):
    width = rng.choice(widths)
    nrec = rng.randint(1, max_records)
    recs = []
    for i in range(nrec):
        kind = rng.random()
        if kind < 0.2:
            n = width * rng.randint(1, 4)  # exact multiple of the width
        elif kind < 0.3:
            n = rng.randint(1, max(1, width))  # single line
        else:
            n = rng.randint(min_len, max_len)
        n = max(min_len, min(n, max_len))
        seq = random_seq(rng, n, width)
        if rng.random() < 0.08:
            seq = bytes(rng.choice(b"NnR") for _ in range(n))  # record without any ACGT
        recs.append(Rec(f"{rng.choice(('s', 'chr', 'ctg.', 'Sc_'))}{i + 1}", seq, rng.choice(DESCRIPTIONS)))
    return FastaCase(recs, width, rng.choice((b"\n", b"\r\n")), rng.random() < 0.6)


def interesting_buffers(case, huge=250_000):
    """1, 2, primes, line width +-1, record and run lengths +-1, larger than everything"""
    s = {1, 2, 3, 5, 7, 11, 13, huge}
    for d in (-1, 0, 1):
        s.add(case.width + d)
        s.add(2 * case.width + d)
        for r in case.records:
            s.add(len(r.seq) + d)
            for row in tiling(r.seq):
                s.add((row[1] if row[0] == "G" else row[2] - row[1] + 1) + d)
    return sorted(b for b in s if b >= 1)


@contextlib.contextmanager
def workdir():
    with tempfile.TemporaryDirectory(prefix="bounded_fa_") as d:
        yield pathlib.Path(d)


def remove_with_caches(path):
    for p in (path, pathlib.Path(str(path) + ".fai"), pathlib.Path(str(path) + ".agp")):
        p.unlink(missing_ok=True)


# ----------------------------------------------------------------------------------------------------------
# quiet logging + CLI harness (the only part that runs project code)


@contextlib.contextmanager
def quiet_logging():
    """
    the library logs warnings ("Overwriting FAI index file ...") and the CLI reconfigures the root logger
    with handlers bound to CliRunner's streams; keep all of that away from the real stderr and restore the
    root logger afterwards
    """
    root = logging.getLogger()
    saved = (root.handlers[:], root.level)
    for h in saved[0]:
        root.removeHandler(h)
    root.addHandler(logging.NullHandler())
    try:
        yield
    finally:
        for h in root.handlers[:]:
            root.removeHandler(h)
        for h in saved[0]:
            root.addHandler(h)
        root.setLevel(saved[1])


def reset_logging_after_cli():
    root = logging.getLogger()
    for h in root.handlers[:]:
        root.removeHandler(h)
    root.addHandler(logging.NullHandler())
    root.setLevel(logging.WARNING)


def run_pretext_cli(tmp, fasta_bytes, pretext_text, output="x.fa", extra=()):
    """
    pretext-to-asm --assembly in.fa --pretext p.agp --output <output> in directory tmp (fresh sub-directory
    per call is the caller's business).  Returns dict(exit_code, exception, files={name: bytes}).
    """
    from click.testing import CliRunner

    from tola.assembly.scripts.pretext_to_asm import cli

    tmp = pathlib.Path(tmp)
    (tmp / "in.fa").write_bytes(fasta_bytes)
    (tmp / "p.agp").write_text(pretext_text)
    args = ["--assembly", str(tmp / "in.fa"), "--pretext", str(tmp / "p.agp"), "--log-level", "ERROR", "--no-write-log"]
    if output:
        args += ["--output", str(tmp / output)]
    args += list(extra)
    try:
        res = CliRunner().invoke(cli, args)
    finally:
        reset_logging_after_cli()
    files = {}
    for p in sorted(tmp.iterdir()):
        if p.is_file():
            files[p.name] = p.read_bytes()
    exc = res.exception
    return {
        "exit_code": res.exit_code,
        "exception": None if exc is None or isinstance(exc, SystemExit) else repr(exc),
        "files": files,
    }


def contigs_of(case):
    """per record: [(start, end)] of the ACGT runs, from the model"""
    return {r.name: [(t[1], t[2]) for t in tiling(r.seq) if t[0] == "F"] for r in case.records}


def pretext_agp(scaffolds, bp_per_texel=1.0):
    """
    scaffolds: [[(input name, start, end, strand symbol, [tags])...]] -> PretextView-style AGP text with a
    100 bp 'scaffold' gap row between consecutive fragments (what PretextView writes)
    """
    lines = [
        "##agp-version\t2.1",
        "# DESCRIPTION: Generated by PretextView Version 0.2.5",
        f"# HiC MAP RESOLUTION: {bp_per_texel:.6f} bp/texel",
    ]
    for si, rows in enumerate(scaffolds, 1):
        pos = 0
        part = 0
        for ri, (name, start, end, strand, tags) in enumerate(rows):
            if ri:
                part += 1
                lines.append("\t".join([f"Scaffold_{si}", str(pos + 1), str(pos + 100), str(part), "U", "100", "scaffold", "yes", "proximity_ligation"]))
                pos += 100
            part += 1
            ln = end - start + 1
            lines.append("\t".join([f"Scaffold_{si}", str(pos + 1), str(pos + ln), str(part), "W", name, str(start), str(end), strand, *tags]))
            pos += ln
    return "\n".join(lines) + "\n"


def random_cli_case(rng, big=False):
    """
    a FASTA input (2-4 records, each 1-4 contigs separated by N runs, contigs 40-400 residues, or one very
    long gap and contig when big) and a Pretext AGP that paints whole records and pieces cut at contig/gap
    boundaries, forward and reversed, some unplaced (left for the tool to add)
    """
    width = rng.choice((60, 60, 80, 7, 13))
    eol = rng.choice((b"\n", b"\n", b"\r\n"))
    recs = []
    nrec = rng.randint(2, 4)
    for i in range(nrec):
        seq = bytearray()
        for c in range(rng.randint(1, 4)):
            if c:
                seq += b"N" * rng.choice((1, 10, 59, 60, 100, 200, 201))
            n = rng.randint(40, 400)
            seq += bytes(rng.choice(b"ACGTacgt") for _ in range(n))
        if rng.random() < 0.15:
            seq = b"NNNNN" + seq
        if rng.random() < 0.15:
            seq += b"nnn"
        recs.append(Rec(f"scaffold_{i + 1}", bytes(seq), rng.choice((b"", b"", b" desc", b" d "))))
    if big:
        width = 60
        a = bytes(rng.choice(b"ACGT") for _ in range(1_234))
        b = bytes(rng.choice(b"ACGTacgt") for _ in range(300_017))
        recs[0] = Rec("scaffold_1", a + b"N" * 250_000 + b + b"N" * 500_001 + a[:700], b"")
    case = FastaCase(recs, width, eol, rng.random() < 0.7)
    ctg = contigs_of(case)
    scaffolds = []
    for r in case.records:
        how = rng.random()
        cs = ctg[r.name]
        tags = ["Painted"] if rng.random() < 0.7 else []
        if how < 0.2 and not big:
            continue  # unplaced: not mentioned in the Pretext file
        if how < 0.55 or len(cs) < 2 or (big and r is case.records[0]):
            scaffolds.append([(r.name, 1, len(r.seq), rng.choice("+-"), tags)])
        else:
            # cut between two contigs: the cut point lies inside the N run, at its end
            k = rng.randint(1, len(cs) - 1)
            cut = cs[k][0] - 1
            left = (r.name, 1, cut, rng.choice("+-"), tags)
            right = (r.name, cut + 1, len(r.seq), rng.choice("+-"), tags)
            if rng.random() < 0.5:
                scaffolds.append([left])
                scaffolds.append([right])
            else:
                scaffolds.append([right, left] if rng.random() < 0.5 else [left, right])
    if not scaffolds:
        r = case.records[0]
        scaffolds.append([(r.name, 1, len(r.seq), "+", ["Painted"])])
    if rng.random() < 0.4 and len(scaffolds) > 1:
        # join two Pretext scaffolds into one
        a = scaffolds.pop(rng.randrange(len(scaffolds)))
        scaffolds[rng.randrange(len(scaffolds))].extend(a)
    return case, pretext_agp(scaffolds, rng.choice((1.0, 1.0, 3.5))), scaffolds
