"""
C09 bounded tier: per-piece routing oracle.  For PretextView-model maps decorated with consistent tagging, the interior
of every piece (bases more than 3 x (1 + floor(bp/texel)) from the piece ends, cf. C02) and every base of an input
scaffold that is absent from the map must be written to the assembly the statement names:
  Haplotig / Contaminant / FalseDuplicate on the piece     -> that assembly (not curated), wherever the piece sits
  Target seen in this or an earlier Pretext scaffold, and this scaffold has no Target tag -> Contaminant
  Target seen anywhere in the map, sequence absent from the map                            -> Contaminant
  scaffold carries a haplotype tag                        -> that haplotype's assembly
  unplaced (unpainted or absent) scaffold whose input name starts with <haplotype>_ (case-insensitive) -> that haplotype
  everything else                                         -> primary
"Absent from the map" is judged contig by contig: a contig of the input assembly none of whose bases lies inside a piece
of the map is absent, whether its whole input scaffold is missing (a scaffold shorter than a texel) or only a part of it
(the tail PretextView rounds away, a piece the curator threw out of the map while other contigs of the same input scaffold
are painted into a Target scaffold, sit in an untagged scaffold, or carry a tag).  Its destination does not depend on where
the rest of its input scaffold went: Contaminant if a Target tag is seen anywhere in the map, else the haplotype its input
scaffold is named after, else primary.
Which tag is a haplotype's name is read from --help: "Upper case letters followed by zero or more digits are assumed to be
chromosome names ... Any other tags are assumed to be the name of a haplotype" (pipeline_gen.read_scaffold_tags): h1, m, p1,
1a, ii, HA, hap1 name haplotypes just as Hap1 does, and a scaffold carrying such a tag goes to that haplotype whatever the
names of its pieces say.
Known class "name-derived-haplotype" (README.md): an unplaced input scaffold whose name matches ^[^_]+_.+_\\d+$ with a
prefix that is not a haplotype tag of the map is routed to an invented assembly.
"Starts with that haplotype's name" says nothing about the rest of the name.  Scope `shaped` (shaped_name_cases): unplaced and
absent input scaffolds called <haplotype in upper / lower / tag case>_<middle>_<digits> where <middle> is anything assemblers,
polishers and sequence databases put into names: letters and digits, further underscores, '.', '-', '#', '|', ':', '=', '+',
'@', ';', ',', '(', ')', '~', '/', '*', a single character, a letter outside ASCII; <digits> with leading zeros or long.  All of them HAVE
the shape <known haplotype>_<anything>_<digits>, so neither known class applies: a failure here is a plain failure.

The destination is observed at two places (the property's observe_at):
  1. the dict returned by BuildAssembly.assemblies_with_scaffolds_fused: the key under which every base is found AND the
     `curated` flag of every assembly: Haplotig / Contaminant / FalseDuplicate are the only assemblies that are not
     curated ("never to a curated assembly"); the primary assembly and every haplotype's assembly are curated;
  2. for cases carrying "cli_out" (an --output file name), the files the real command line (pretext-to-asm, run in
     process) writes into a temporary directory: every judged base is looked up in the written assembly files and the
     NAME of the file(s) holding it is compared with the documented destination (--help, property statement):
        Contaminant    -> the separate 'Contaminants' file   *.contaminants.*      (not *.curated.*, not *.primary.*)
        FalseDuplicate -> the false-duplicates file          *.falseduplicates.*   (not *.curated.*, not *.primary.*)
        Haplotig       -> the separate 'Haplotigs' file      *.haplotigs.* / *_haplotigs.*   (not *.primary.*)
        primary        -> *.primary.curated.*  not carrying a haplotype's name
        haplotype h    -> a separate curated file carrying the haplotype's name: *.<h>*.curated.* ; when the statement
                          sends no sequence at all to the primary assembly (a map of haplotypes only), no judged
                          sequence is misrouted and the returned dict has no primary assembly, the file is
                          *.<h>.*.primary.curated.*   (<ToLID>.hap1.1.primary.curated.fa)
     A name component is a '.'-separated part of the file name, compared in lower case.

Primary-tag mode (README: "`Primary` for tagging the only curated haplotype in a multi-haplotype PretextView map"; --help:
"Primary in a multi-haplotype Pretext map where only one of the haplotypes is being curated, is used to tag the first
'Painted' chromosome in the curated haplotype").  The haplotype of the Pretext scaffold that carries the Primary tag is
the curated haplotype: its assembly IS the primary assembly; the other haplotypes are not curated chromosomes of their
own, they are written together, apart from the primary assembly.  The tag destinations do not depend on the mode.
Documented destinations in this mode, per piece:
        Contaminant / FalseDuplicate / Haplotig piece (of any haplotype, anywhere)
                       -> *.contaminants.* / *.falseduplicates.* / the separate Haplotigs file *.haplotigs.*, none of them
                          *.curated.*, *.primary.* or the merged file of the other haplotypes ("never to a curated assembly")
        the curated haplotype (tagged scaffolds, and unplaced / absent scaffolds named <haplotype>_...)
                       -> *.primary.curated.*    (may carry that haplotype's name, never another's)
        every other haplotype
                       -> a *.curated.* file that is not *.primary.* and not a tag file: *.all_haplotigs.curated.* (all
                          other haplotypes merged) or a file carrying that haplotype's name
   in the returned dict the curated haplotype's sequence is under ONE key ("Primary" or the haplotype's name, not both).
   Sequence of the curated haplotype that is walked before the Primary tag has been seen is not judged (the tag is
   documented to sit on the FIRST painted chromosome of that haplotype; the generator puts only tagged pieces before it).
"""

import itertools
import math
import pathlib
import random
import tempfile
from fractions import Fraction

from . import cli_gen
from . import pipeline_gen as pg
from .common import Collector

HAP_TAG_SETS = (("Hap1", "Hap2"), ("HAP1", "HAP2"), ("Mat", "Pat"), ("hapA", "hapB"), ("Maternal", "Paternal"))
HAP_TAG_TRIPLES = (("Hap1", "Hap2", "Hap3"), ("Mat", "Pat", "Alt"))
# haplotype names in other spellings.  --help: "Upper case letters followed by zero or more digits are assumed to be chromosome
# names ... Any other tags are assumed to be the name of a haplotype": a lower-case letter with or without digits (hifiasm's
# h1 / h2, m / p for maternal / paternal, a / b), digits before the letter, lower-case roman numerals, several upper-case
# letters without or with digits - none of them is an upper-case letter followed by digits, all of them name haplotypes
ODD_HAP_TAG_SETS = (("h1", "h2"), ("m", "p"), ("a", "b"), ("p1", "p2"), ("1a", "2a"), ("i", "ii"), ("HA", "HB"), ("MAT", "PAT"), ("hap1", "hap2"), ("x", "y"), ("Hb1", "Hb2"))
ODD_HAP_TAG_TRIPLES = (("h1", "h2", "h3"), ("m", "p", "u"), ("a", "b", "c"))
TAG_FILE_WORD = {"Haplotig": "haplotigs", "Contaminant": "contaminants", "FalseDuplicate": "falseduplicates"}


def hap_by_name(name, hap_tags):
    """haplotype whose name (case-insensitively) followed by '_' starts the input name"""
    low = name.lower()
    for h in hap_tags:
        if low.startswith(h.lower() + "_"):
            return h
    return None


def leftover_contigs(case):
    """
    {input scaffold name: [contig rows]} for input scaffolds of which a part IS in the map: the contigs that have no base
    inside any piece of the map (piece coordinates are positions in the input scaffold)
    """
    spans = {}
    for psc in case["map"]["scaffolds"]:
        for p in psc:
            spans.setdefault(p[0], []).append((p[1], p[2]))
    out = {}
    for s in case["input"]:
        mine = spans.get(s["name"])
        if not mine:
            continue
        pos = 0
        rows = []
        for r in s["rows"]:
            a, b = pos + 1, pos + pg.row_len(r)
            pos = b
            if r[0] == "F" and not any(x <= b and a <= y for x, y in mine):
                rows.append(r)
        if rows:
            out[s["name"]] = rows
    return out


def expected_routes(case):
    """
    -> ([(piece, Pretext scaffold number, destination)], {absent input scaffold name: destination}, hap tags,
        {partly placed input scaffold name: (contig rows absent from the map, destination)})
    """
    mp = case["map"]
    infos = [pg.read_scaffold_tags(psc) for psc in mp["scaffolds"]]
    hap_tags = []
    for i in infos:
        if i["hap"] and i["hap"].lower() not in [h.lower() for h in hap_tags]:
            hap_tags.append(i["hap"])
    routes = []
    target_seen = False
    for k, (psc, info) in enumerate(zip(mp["scaffolds"], infos, strict=True), 1):
        if info["target"]:
            target_seen = True
        for piece in psc:
            special = pg.piece_special(piece)
            if special:
                dest = special
            elif target_seen and not info["target"]:
                dest = "Contaminant"
            elif info["hap"]:
                dest = ("hap", info["hap"].lower())
            elif not info["painted"]:
                # unplaced scaffold: its input name is the name of the (single) input scaffold its pieces come from
                srcs = {p[0] for p in psc}
                h = hap_by_name(piece[0], hap_tags) if len(srcs) == 1 else "ambiguous"
                dest = ("hap", h.lower()) if h and h != "ambiguous" else (None if h is None else "ambiguous")
            else:
                dest = None
            routes.append((piece, k, dest))
    used = {p[0] for psc in mp["scaffolds"] for p in psc}
    absent = {}
    for s in case["input"]:
        if s["name"] not in used:
            if target_seen:
                absent[s["name"]] = "Contaminant"
            else:
                h = hap_by_name(s["name"], hap_tags)
                absent[s["name"]] = ("hap", h.lower()) if h else None
    leftover = {}
    for name, rows in leftover_contigs(case).items():
        if target_seen:
            leftover[name] = (rows, "Contaminant")
        else:
            h = hap_by_name(name, hap_tags)
            leftover[name] = (rows, ("hap", h.lower()) if h else None)
    return routes, absent, hap_tags, leftover


def primary_of(case, hap_tags):
    """
    Primary-tag mode: (number of the first Pretext scaffold carrying a Primary tag, its haplotype in lower case), else None.
    The haplotype is the scaffold's haplotype tag, else the haplotype its first piece is named after.
    """
    for k, psc in enumerate(case["map"]["scaffolds"], 1):
        if any("Primary" in p[4] for p in psc):
            h = pg.read_scaffold_tags(psc)["hap"] or hap_by_name(psc[0][0], hap_tags)
            return (k, h.lower()) if h else None
    return None


def key_matches(key, dest, primary=None):
    """primary: lower-case name of the curated haplotype of a Primary-tag mode map (its assembly is the primary assembly)"""
    if primary is not None and (dest is None or dest == ("hap", primary)):
        return key == "Primary" or (isinstance(key, str) and key.lower() == primary and key not in pg.SPECIAL_TAGS)
    if isinstance(dest, tuple):
        return isinstance(key, str) and key.lower() == dest[1] and key not in pg.SPECIAL_TAGS and key != "Primary"
    return key == dest


def show(dest, primary=None):
    if primary is not None and isinstance(dest, tuple):
        if dest[1] == primary:
            return f"the primary assembly (haplotype {primary!r} carries the Primary tag)"
        return f"haplotype {dest[1]!r} (not the Primary-tagged haplotype {primary!r})"
    return f"haplotype {dest[1]!r}" if isinstance(dest, tuple) else ("primary" if dest is None else dest)


def name_derived(name, hap_tags):
    m = pg.NAME_DERIVED_HAPLOTYPE.match(name)
    return bool(m) and m.group(1).lower() not in [h.lower() for h in hap_tags]


FIXED_FILE_WORDS = {"primary", "curated", "agp", "tpf", "fa", "fasta"}


def haplotypes_named(comps, tag_words, hap_tags, out_name):
    """
    the haplotypes a file name carries: a component beginning with a haplotype's name (the longest such name).  Components
    that say something else are not read as haplotype names: those of the --output name the files are derived from (root,
    version, extension), the words primary / curated, and the tag words (a haplotype called m, p or a must not be seen in
    mVulVul1, primary or agp)
    """
    rest = list(comps)
    for c in (out_name or "").lower().split("."):
        if c in rest:
            rest.remove(c)  # one occurrence: with -o x.agp and a haplotype called x, x.x.1.primary.curated.agp still names x
    skip = FIXED_FILE_WORDS | set(tag_words)
    haps = sorted((h.lower() for h in hap_tags), key=len, reverse=True)
    return {next((h for h in haps if c.startswith(h)), None) for c in rest if c not in skip} - {None}


def file_matches(fname, dest, hap_tags, haplotypes_only, out_name=None):
    """does the NAME of a written assembly file say `dest`?  (rules: see the module docstring)"""
    comps = fname.lower().split(".")
    tag_words = [c for c in comps if c in TAG_FILE_WORD.values() or c.endswith("_haplotigs")]
    primary_curated = any(a == "primary" and b == "curated" for a, b in zip(comps, comps[1:], strict=False))
    if dest in pg.SPECIAL_TAGS:
        word = TAG_FILE_WORD[dest]
        if not any(c == word or (dest == "Haplotig" and c.endswith("_" + word)) for c in comps):
            return False
        if "primary" in comps or len(tag_words) != 1:
            return False
        return dest == "Haplotig" or "curated" not in comps
    if tag_words:
        return False
    # the haplotypes the name carries: a component beginning with a haplotype's name (the longest such name)
    named = haplotypes_named(comps, tag_words, hap_tags, out_name)
    if dest is None:
        return primary_curated and not named
    h = dest[1]
    if named != {h}:
        return False
    if haplotypes_only:
        return primary_curated and h in comps
    return "curated" in comps


def file_matches_primary_mode(fname, dest, hap_tags, primary, out_name=None):
    """Primary-tag mode: does the NAME of a written assembly file say `dest`?  (rules: see the module docstring)"""
    comps = fname.lower().split(".")
    tag_words = [c for c in comps if c in TAG_FILE_WORD.values() or c.endswith("_haplotigs")]
    primary_curated = any(a == "primary" and b == "curated" for a, b in zip(comps, comps[1:], strict=False))
    named = haplotypes_named(comps, tag_words, hap_tags, out_name)
    if dest in pg.SPECIAL_TAGS:
        # the tag's own file: not curated, not primary, not the merged file of the other haplotypes
        return tag_words == [TAG_FILE_WORD[dest]] and "primary" not in comps and "curated" not in comps
    if dest is None or dest[1] == primary:
        return primary_curated and not tag_words and named <= {primary}
    if "primary" in comps or "curated" not in comps or named - {dest[1]}:
        return False
    return tag_words == ["all_haplotigs"] or (not tag_words and named == {dest[1]})


def show_file_dest_primary_mode(dest, primary):
    if dest in pg.SPECIAL_TAGS:
        return f"the '{TAG_FILE_WORD[dest]}' file (*.{TAG_FILE_WORD[dest]}.*, not *.curated.*, not *.primary.*, not *.all_haplotigs.*)"
    if dest is None or dest[1] == primary:
        return f"the primary file *.primary.curated.* (haplotype {primary!r} carries the Primary tag: it is the curated haplotype)"
    return f"the curated file of the haplotypes other than the Primary one (*.all_haplotigs.curated.* or *.{dest[1]}*.curated.*, never *.primary.*)"


def show_file_dest(dest, haplotypes_only):
    if dest in pg.SPECIAL_TAGS:
        return f"the '{TAG_FILE_WORD[dest]}' file"
    if dest is None:
        return "the primary file *.primary.curated.*"
    return f"the curated file of haplotype {dest[1]!r} " + (f"*.{dest[1]}.*.primary.curated.*" if haplotypes_only else f"*.{dest[1]}*.curated.*")


class FileIndex:
    """which written file holds which bases: contig name -> [(start, end, file name)]"""

    def __init__(self, files):
        self.spans = {}
        for fname, asm in files.items():
            for sc in asm["scaffolds"]:
                for r in sc["rows"]:
                    if r[0] == "F":
                        self.spans.setdefault(r[1], []).append((r[2], r[3], fname))

    def where_of(self, toks):
        """{file name (or '<nowhere>'): number of the sequence tokens found there}"""
        runs = []  # maximal runs of consecutive positions of one contig: [name, lo, hi]
        for t in toks:
            if t[0] == "GAP":
                continue
            if runs and runs[-1][0] == t[0] and (t[1] == runs[-1][2] + 1 or t[1] == runs[-1][1] - 1):
                runs[-1][1] = min(runs[-1][1], t[1])
                runs[-1][2] = max(runs[-1][2], t[1])
            else:
                runs.append([t[0], t[1], t[1]])
        counts = {}
        for name, lo, hi in runs:
            hits = []
            for s, e, fname in self.spans.get(name, ()):
                a, b = max(lo, s), min(hi, e)
                if a <= b:
                    counts[fname] = counts.get(fname, 0) + b - a + 1
                    hits.append((a, b))
            covered = 0
            reach = lo - 1
            for a, b in sorted(hits):
                if b > reach:
                    covered += b - max(a, reach + 1) + 1
                    reach = b
            if covered < hi - lo + 1:
                counts["<nowhere>"] = counts.get("<nowhere>", 0) + hi - lo + 1 - covered
        return counts


def routing_problems(case, out, files=None):
    """
    out    the dict returned by assemblies_with_scaffolds_fused, as plain data
    files  None, or {name of a written assembly file: {"scaffolds": [{"name", "rows"}]}} from the command line
    -> [(message, is_known_class)], number of judged pieces / absent scaffolds
    """
    inp = case["input"]
    margin = pg.margin_of(case["map"]["bpt"])
    in_toks = {s["name"]: pg.tokens(s["rows"]) for s in inp}
    first_contig = {s["name"]: next(r[1] for r in s["rows"] if r[0] == "F") for s in inp}
    idx = pg.OutIndex(out)
    fidx = FileIndex(files) if files is not None else None
    routes, absent, hap_tags, leftover = expected_routes(case)
    prim = primary_of(case, hap_tags)
    primary = prim[1] if prim else None
    out_name = case.get("cli_out")
    if prim:
        # sequence of the curated haplotype walked before the Primary tag has been seen: not judged
        routes = [(pc, k, "ambiguous" if k < prim[0] and (d is None or d == ("hap", primary)) else d) for pc, k, d in routes]
    # a map of haplotypes only: the statement sends no sequence to the primary assembly
    haplotypes_only = bool(hap_tags) and not any(d is None or d == "ambiguous" for _, _, d in routes) and not any(d is None for d in absent.values()) and not any(d is None for _, d in leftover.values())
    problems = []
    file_problems = []
    judged = 0

    def where_of(toks, index):
        keys = {}
        for t in toks:
            if t[0] == "GAP":
                continue
            locs = index.where.get((t[0], t[1]), [])
            for si, _ in locs:
                keys.setdefault(index.scaffolds[si][0], 0)
                keys[index.scaffolds[si][0]] += 1
            if not locs:
                keys.setdefault("<nowhere>", 0)
                keys["<nowhere>"] += 1
        return keys

    def judge_files(what, toks, dest):
        # only for sequence found under the right key of the dict: a base under a wrong key is reported above (with its
        # class, if it has one) and the name of its file is then a consequence of that
        if fidx is None:
            return
        names = fidx.where_of(toks)
        if primary is not None:
            wrong = {n: c for n, c in names.items() if not file_matches_primary_mode(n, dest, hap_tags, primary, out_name)}
            if wrong:
                file_problems.append((False, f"Primary-tag mode: {what} belongs in {show_file_dest_primary_mode(dest, primary)} but the command line wrote {wrong} bases to other files (files written: {sorted(files)})"))
            return
        loose = {n: c for n, c in names.items() if not file_matches(n, dest, hap_tags, False, out_name)}
        strict = {n: c for n, c in names.items() if not file_matches(n, dest, hap_tags, haplotypes_only, out_name)}
        if loose:
            file_problems.append((False, f"{what} belongs in {show_file_dest(dest, False)} but the command line wrote {loose} bases to other files (files written: {sorted(files)})"))
        elif strict:
            file_problems.append((True, f"{what} belongs in {show_file_dest(dest, True)} but the command line wrote {strict} bases to other files (files written: {sorted(files)})"))

    for piece, k, dest in routes:
        if dest == "ambiguous":
            continue
        core = pg.piece_core(in_toks[piece[0]], piece, margin)
        if not core:
            continue
        judged += 1
        keys = where_of(core, idx)
        bad = {key: n for key, n in keys.items() if not key_matches(key, dest, primary)}
        what = f"interior of piece {piece[0]}:{piece[1]}-{piece[2]} {piece[4]} of Scaffold_{k}"
        if bad:
            psc = case["map"]["scaffolds"][k - 1]
            info = pg.read_scaffold_tags(psc)
            src0 = psc[0][0]  # the input scaffold whose name the unplaced Pretext scaffold is known by
            unplaced_untagged = not info["painted"] and not info["hap"] and not pg.piece_special(piece)
            known = unplaced_untagged and class_of(src0, first_contig[src0], dest, bad, hap_tags)
            problems.append((f"{what} belongs in {show(dest, primary)} but {bad} bases were written elsewhere", known))
        else:
            judge_files(what, core, dest)
    for name, dest in absent.items():
        judged += 1
        keys = where_of(in_toks[name], idx)
        bad = {key: n for key, n in keys.items() if not key_matches(key, dest, primary)}
        what = f"input scaffold {name!r} is absent from the map and"
        if bad:
            known = class_of(name, first_contig[name], dest, bad, hap_tags)
            problems.append((f"{what} belongs in {show(dest, primary)} but {bad} bases were written elsewhere", known))
        else:
            judge_files(what, in_toks[name], dest)
    for name, (rows, dest) in leftover.items():
        judged += 1
        toks = pg.tokens(rows)
        keys = where_of(toks, idx)
        bad = {key: n for key, n in keys.items() if not key_matches(key, dest, primary)}
        ctgs = ", ".join(f"{r[1]}:{r[2]}-{r[3]}" for r in rows[:3]) + (", ..." if len(rows) > 3 else "")
        why = " (a Target tag has been seen: all sequence absent from the map is contaminant)" if dest == "Contaminant" else ""
        what = f"contig(s) {ctgs} of input scaffold {name!r} are absent from the map (other contigs of that scaffold are placed) and"
        if bad:
            known = class_of(name, rows[0][1], dest, bad, hap_tags)
            problems.append((f"{what} belong in {show(dest, primary)}{why} but {bad} bases were written elsewhere", known))
        else:
            judge_files(what, toks, dest)
    routed_right = not problems
    # the curated flag of every returned assembly: the tag destinations are the only assemblies that are not curated
    for key, asm in out.items():
        if key in pg.SPECIAL_TAGS:
            if asm["curated"]:
                problems.append((f"the {key} assembly is marked curated", False))
        elif not asm["curated"]:
            which = "primary assembly" if key is None else f"assembly of haplotype {key!r}"
            holds = sorted({sc["name"] for sc in asm["scaffolds"]})[:4]
            problems.append((f"the {which} (scaffolds {holds}...) is flagged NOT curated in the dict returned by assemblies_with_scaffolds_fused: only the Haplotig / Contaminant / FalseDuplicate assemblies are not curated", False))
    lows = [k.lower() for k in out if isinstance(k, str)]
    if len(lows) != len(set(lows)):
        problems.append((f"two output assemblies for one haplotype: {list(out)}", False))
    if primary is not None and "Primary" in out and primary in lows and not any(d == "ambiguous" for _, _, d in routes):
        problems.append((f"Primary-tag mode: the curated haplotype {primary!r} is split over two output assemblies: {list(out)}", False))
    # the strict shape *.<h>.*.primary.curated.* is asked for only if the run really is a map of haplotypes only: nothing
    # misrouted, and no primary assembly in the returned dict (a piece too short to be judged can still be misrouted - e.g.
    # a 20 bp unplaced piece of the known class - and create a primary assembly the statement does not expect)
    strict_applies = routed_right and None not in out
    problems.extend((msg, False) for only_strict, msg in file_problems if strict_applies or not only_strict)
    return problems, judged


# ---------------------------------------------------------------------------------------------- the command line


def parse_tpf_rows(text):
    """rows of a written TPF file, grouped into scaffolds (hand-written reader; no project code)"""
    scaffolds = {}
    pending = []
    last = None
    for line in text.splitlines():
        if not line.strip() or line.startswith("#"):
            continue
        cols = line.split("\t")
        if cols[0] == "GAP":
            gap = ("G", int(cols[2]), {"TYPE-2": "scaffold", "TYPE-3": "contig"}.get(cols[1], cols[1]))
            (scaffolds[last] if last is not None else pending).append(gap)
            continue
        name, rng_ = cols[1].rsplit(":", 1)
        start, end = rng_.split("-")
        rows = scaffolds.setdefault(cols[2], [])
        if pending:
            rows.extend(pending)
            pending = []
        rows.append(("F", name, int(start), int(end), {"PLUS": 1, "MINUS": -1}.get(cols[3], 0), ()))
        last = cols[2]
    return [{"name": n, "rows": r} for n, r in scaffolds.items()]


def parse_agp_rows(text):
    """rows of a written AGP file, grouped into scaffolds (hand-written reader; no project code)"""
    scaffolds = {}
    for line in text.splitlines():
        if not line.strip() or line.startswith("#"):
            continue
        cols = line.rstrip("\n").split("\t")
        rows = scaffolds.setdefault(cols[0], [])
        if cols[4] in ("U", "N"):
            rows.append(("G", int(cols[5]), cols[6]))
        else:
            rows.append(("F", cols[5], int(cols[6]), int(cols[7]), {"+": 1, "-": -1}.get(cols[8], 0), tuple(c for c in cols[9:] if c)))
    return [{"name": n, "rows": r} for n, r in scaffolds.items()]


def run_cli(case):
    """
    the case through the real command line (in process, temporary directory, removed): -a input (AGP or TPF text), -p
    PretextView AGP, -o <tmp>/out/<case["cli_out"]>, -c prefix.  -> (exit code, error text, {assembly file name: rows})
    """
    out_name = case["cli_out"]
    ext = out_name.rsplit(".", 1)[1].lower()
    with tempfile.TemporaryDirectory() as d:
        d = pathlib.Path(d)
        if case.get("via") == "tpf" and pg.tpf_ok(case["input"]):
            asm = d / "asm.tpf"
            asm.write_text(pg.input_tpf_text(case["input"]))
        else:
            asm = d / "asm.agp"
            asm.write_text(pg.input_agp_text(case["input"]))
        (d / "pretext.agp").write_text(pg.pretext_agp_text(case["map"]))
        out_dir = d / "out"
        out_dir.mkdir()
        args = ["-a", asm, "-p", d / "pretext.agp", "-o", out_dir / out_name, "-c", case.get("prefix", "SUPER_"), "--no-write-log", "-l", "ERROR"]
        code, _, err, exc = cli_gen.run_pretext_to_asm(args)
        files = {}
        for p in sorted(out_dir.iterdir()):
            if p.is_file() and p.name.lower().endswith("." + ext):
                text = p.read_text()
                files[p.name] = {"scaffolds": parse_tpf_rows(text) if ext == "tpf" else parse_agp_rows(text)}
    return code, ((exc or "") + " " + (err or "")).strip()[-300:], files


def class_of(scaffold_name, contig_name, dest, bad, hap_tags):
    """
    class of a misrouted unplaced, untagged scaffold (a label for triage; the oracle has already decided it is misrouted)
      True = "name-derived-haplotype"  ONLY IF the scaffold name and its first contig name match ^[^_]+_.+_\\d+$ with the
             same prefix before the first '_', that prefix is NOT a haplotype tag used in the map, the statement sends the
             scaffold to the primary assembly, and all misrouted bases are in the assembly whose key equals that prefix
             (case-insensitively)
      "haplotype-prefix-name-shape"    ONLY IF the scaffold name and its first contig name start (case-insensitively) with
             <haplotype tag used in the map>_ , neither matches ^[^_]+_.+_\\d+$, the statement sends the scaffold to that
             haplotype, and all misrouted bases are in the primary (None) assembly
      False  anything else: plain failure
    """
    wrong_keys = set(bad)
    if dest is None and name_derived(scaffold_name, hap_tags) and name_derived(contig_name, hap_tags):
        if name_key(scaffold_name) == name_key(contig_name) and all(isinstance(k, str) for k in wrong_keys):
            if {k.lower() for k in wrong_keys} == {name_key(contig_name)}:
                return True
    if isinstance(dest, tuple) and wrong_keys == {None}:
        if short_prefixed(scaffold_name, hap_tags) and short_prefixed(contig_name, hap_tags):
            h1, h2 = hap_by_name(scaffold_name, hap_tags), hap_by_name(contig_name, hap_tags)
            if h1.lower() == h2.lower() == dest[1]:
                return "haplotype-prefix-name-shape"
    return False


def short_prefixed(name, hap_tags):
    """begins with '<haplotype>_' but does not have the shape <hap>_<x>_<n> (label of a failure class, not an oracle)"""
    return hap_by_name(name, hap_tags) is not None and not pg.NAME_DERIVED_HAPLOTYPE.match(name)


def name_key(name):
    m = pg.NAME_DERIVED_HAPLOTYPE.match(name)
    return m.group(1).lower() if m else None


def check(case, col, known_failures=None):
    run = pg.run_case(case)
    if run.error is not None:
        if type(run.error).__name__ in ("TaggingError", "ChrNamerError"):
            return None  # the tagging was rejected: an allowed outcome, nothing is routed
        col.fail(f"consistently tagged PretextView-model map: remapping crashed ({run.stage}): {run.error_text}", case)
        return None
    files = None
    if case.get("cli_out"):
        code, err, files = run_cli(case)
        if code != 0:
            col.fail(f"consistently tagged PretextView-model map which the library calls accept: pretext-to-asm -o {case['cli_out']} exits with {code}: {err}", case)
            return None
    problems, judged = routing_problems(case, run.out, files)
    if problems:
        classed = all(k for _, k in problems)
        classes = sorted({"name-derived-haplotype" if k is True else k for _, k in problems if k})
        msg = "; ".join(m for m, _ in problems[:3])
        if classed and known_failures is not None:
            # a failure carries classes only if EVERY problem of the case has one (else it is a plain failure);
            # classed cases are recorded apart so that they do not exhaust the failure budget
            known_failures.setdefault(tuple(classes), []).append({"message": msg, "input": case, "classes": classes})
        else:
            col.fail(msg, case, classes if classed else ())
    return judged


def replay(inp):
    col = Collector("replay")
    check(inp, col)
    return col.failures[0]["message"] if col.failures else None


# ---------------------------------------------------------------------------------------------- generator


def make_case(rng, idx, short_names=True):
    mode = rng.choice(("single", "single", "two", "two", "one"))
    bpt = rng.choice(pg.BPTS)
    hap_tags = () if mode == "single" else rng.choice(HAP_TAG_SETS)[: 2 if mode == "two" else 1]
    if hap_tags and idx % 4 == 1:
        # every fourth haplotype map: a tag set in another spelling (the seeded stream is not touched)
        hap_tags = ODD_HAP_TAG_SETS[(idx // 4) % len(ODD_HAP_TAG_SETS)][: len(hap_tags)]
    n_src = rng.randint(3, 7)
    inp = []
    lens_big = [x for x in (40, 150, 400) if x >= 2 * bpt] or [400]
    for i in range(1, n_src + 1):
        k = rng.randint(1, 2)
        if i <= 2 or rng.random() < 0.7:
            lt = [rng.choice(lens_big + [150, 400]) for _ in range(k)]
        else:
            lt = [rng.choice((1, 2, 7))] * 1  # tiny: candidates for being absent from the map
        if mode == "single":
            name = f"scaffold_{i}"
            naming = rng.choice(("own", "fasta", "offset"))
            if rng.random() < 0.01:
                name = rng.choice((f"ctg_7_{i}", f"h1tg_00{i}_l_1", f"ptg_x_{i}"))  # known class
                naming = "fasta"
        else:
            naming = "fasta"
            r = rng.random()
            if r < 0.8:
                h = hap_tags[i % len(hap_tags)]
                form = rng.choice((h.upper(), h.lower(), h))
                name = f"{form}_SCAFFOLD_{i}" if form.isupper() else f"{form}_scaffold_{i}"
                if short_names and rng.random() < 0.02:
                    # begins with "<haplotype>_" as documented, but is not of the shape <hap>_<x>_<n>
                    name = rng.choice((f"{form}_{i}", f"{form}_ctg{i}"))
            else:
                name = f"scaffold_{i}"
        gaps = [rng.choice(((10, "scaffold"), (1, "contig"), (200, "scaffold"), None)) for _ in range(k - 1)]
        sp = [rng.choice((1, -1)) for _ in range(k)]
        inp.append(pg.make_scaffold(name, lt, sp, gaps, naming, tag=str(i)))
    # pieces
    pool = []
    cache = {}
    for s in inp:
        ln = pg.rows_len(s["rows"])
        rounding = rng.choice(("floor", "ceil"))
        n = pg.texels(ln, bpt, rounding)
        if n < 1 or (Fraction(ln) < pg.bptF(bpt) and rng.random() < 0.7):
            continue
        cs = () if rng.random() < 0.5 else pg.sample_cut_set(s["rows"], bpt, n, rng, 2, cache)
        pool.extend(pg.pieces_of(s, bpt, rounding, cs))
    rng.shuffle(pool)
    margin = pg.margin_of(bpt)
    # sources with names of the known class stay unplaced (the class is about unplaced scaffolds)
    paintable = [p for p in pool if mode != "single" or not pg.NAME_DERIVED_HAPLOTYPE.match(p[0])]
    solid = [p for p in paintable if p[2] - p[1] + 1 > 2 * margin + 2]
    plan = []
    # painted scaffolds
    if mode == "single":
        painted_haps = [None] * rng.randint(0, 3)
    elif mode == "one":
        painted_haps = [hap_tags[0]] * rng.randint(1, 2)
    else:
        painted_haps = list(hap_tags) * rng.randint(1, 2)
    name_tags = ["X", "W", "B1", "Z"]
    group_tag = None
    for j, h in enumerate(painted_haps):
        if not solid:
            break
        first = solid.pop()
        pool.remove(first)
        pcs = [first]
        paintable.remove(first)
        for _ in range(rng.randint(0, 2)):
            if paintable:
                p = paintable.pop()
                pool.remove(p)
                if p in solid:
                    solid.remove(p)
                pcs.append(p)
        if mode != "two" or j % 2 == 0:
            group_tag = name_tags.pop() if rng.random() < 0.2 else None
        plan.append({"painted": True, "hap": h, "name_tag": group_tag, "pieces": [(p, rng.choice((1, -1)), []) for p in pcs]})
    # unpainted scaffolds: single-source groups
    by_src = {}
    for p in pool:
        by_src.setdefault(p[0], []).append(p)
    unpainted = []
    for pcs in by_src.values():
        while pcs:
            take = rng.randint(1, len(pcs))
            grp, pcs = pcs[:take], pcs[take:]
            sc = {"painted": False, "hap": None, "name_tag": None, "pieces": [(p, rng.choice((1, -1)), []) for p in grp]}
            if hap_tags and rng.random() < 0.2:
                sc["hap"] = rng.choice(hap_tags)
            unpainted.append(sc)
    # interleave, keeping the painted scaffolds in their order
    order = plan + unpainted
    if rng.random() < 0.5:
        slots = sorted(rng.sample(range(len(order)), len(plan)))
        merged = [None] * len(order)
        for s_, sc in zip(slots, plan, strict=True):
            merged[s_] = sc
        it = iter(unpainted)
        order = [x if x is not None else next(it) for x in merged]
    # special tags and unlocs
    for sc in order:
        for i, (p, st, tg) in enumerate(sc["pieces"]):
            if (i > 0 or not sc["painted"]) and rng.random() < 0.25:
                tg.append(rng.choice(pg.SPECIAL_TAGS))
            elif sc["painted"] and i > 0 and rng.random() < 0.15:
                tg.append("Unloc")
    # Target mode
    if order and rng.random() < 0.35:
        if mode == "single":
            t = rng.randrange(len(order))
            for j, sc in enumerate(order):
                sc["target"] = j == t or (j > t and rng.random() < 0.5)
        else:
            seen = False
            for sc in order:
                if sc["painted"]:
                    sc["target"] = True
                    seen = True
                else:
                    sc["target"] = seen and rng.random() < 0.5
    if hap_tags and not any(sc["painted"] and sc["hap"] for sc in order):
        return make_case(rng, idx, short_names)  # no painted scaffold could be formed: the map would not show the haplotype at all
    mp = pg.plan_to_map(order, bpt, rng)
    return {"input": inp, "map": mp, "prefix": rng.choice(("SUPER_", "SUPER_", "chr")), "via": pg.pick_via(inp, idx), "mode": mode}


CLI_OUT_NAMES = ("out.tpf", "idTest1.2.agp", "x.agp", "mVulVul1.3.tpf")


def precede_cases(tier, rng):
    """
    ENUMERATED scope "a tagged piece comes before the first scaffold of an assembly": maps of 0, 1, 2 or 3 haplotypes
    with 2 (no haplotype: 3) painted chromosomes per haplotype in alternating haplotype order (every rotation of the
    haplotype order; quick: one order only), one unplaced scaffold per haplotype, at texel size 10 an input scaffold
    shorter than a texel which is absent from the map, and ONE piece tagged Haplotig, Contaminant or FalseDuplicate in
    every position:
       own   j   a Pretext scaffold of its own (unpainted) in front of painted scaffold j (j = 0: the first Pretext
                 scaffold of the map; j = number of painted scaffolds: between the chromosomes and the unplaced ones)
       ownp  j   the same, the piece painted
       tail  j   last piece of painted scaffold j            mid j   second of three pieces of painted scaffold j
       cut   j   the second half of the input scaffold of painted scaffold j, cut off and left behind it as a tagged piece
    each without and with Target mode (Target on every painted scaffold and on every second unplaced scaffold; tagged
    pieces in front of the first Target carry their own tag, as --help asks).  Every case also runs the command line.
    quick: texel size and output name/format rotate; thorough: texel sizes 1 and 10, 4 seeded repetitions of the tag
    placements (all / first / last piece) and strands, every second one with a second tagged piece of another kind in a
    seeded position.
    """
    quick = tier == "quick"
    n = 0
    for n_hap in (0, 1, 2, 3):
        tag_sets = [()] if n_hap == 0 else [t[:n_hap] for t in (HAP_TAG_SETS if n_hap < 3 else HAP_TAG_TRIPLES)]
        if n_hap and not quick:
            tag_sets += [t[:n_hap] for t in (ODD_HAP_TAG_SETS if n_hap < 3 else ODD_HAP_TAG_TRIPLES)]
        rotations = [0] if n_hap < 2 or quick else list(range(n_hap))
        n_painted = 3 if n_hap == 0 else 2 * n_hap
        places = [(kind, j) for kind in ("own", "ownp") for j in range(n_painted + 1)] + [(kind, j) for kind in ("tail", "mid", "cut") for j in range(n_painted)]
        for rot in rotations:
            for special in pg.SPECIAL_TAGS:
                for place in places:
                    for target in (False, True):
                        for rep in range(1 if quick else 4):
                            for bpt in ((1.0, 10.0)[n % 2],) if quick else (1.0, 10.0):
                                n += 1
                                haps = tag_sets[n % len(tag_sets)]
                                second = None
                                if not quick and rep % 2:
                                    second = (rng.choice([s for s in pg.SPECIAL_TAGS if s != special]), rng.choice(places))
                                yield precede_case(haps, rot, special, place, target, bpt, second, rng, n)


def primary_cases(tier, rng):
    """
    ENUMERATED scope "Primary-tag mode": the maps of precede_cases with 2 or 3 haplotypes (2 painted chromosomes per
    haplotype in alternating haplotype order, one unplaced scaffold per haplotype named <HAP>_SCAFFOLD_<n>, at texel size 10
    an absent input scaffold shorter than a texel), where the FIRST painted Pretext scaffold of one haplotype (the first,
    second or third haplotype of the map) carries the Primary tag (on all / the first / the last of its pieces), and ONE
    piece tagged Haplotig, Contaminant or FalseDuplicate in every position of precede_cases (own scaffold unpainted /
    painted in front of each painted scaffold, tail / middle / cut-off piece of each painted scaffold) PLUS one piece of
    each of the two other kinds in a seeded position, so every map holds all three kinds; without and with Target mode.
    Every case runs the command line.
    quick: one haplotype order, the curated haplotype / Target mode / texel size / output name rotate with the position and
    the kind of tag, three-haplotype maps: every second position; thorough: each haplotype curated in turn for every
    position, every rotation of the haplotype order, Target mode and texel size (1 or 10) seeded.
    """
    quick = tier == "quick"
    n = 0
    for n_hap in (2, 3):
        tag_sets = [t[:n_hap] for t in (HAP_TAG_SETS if n_hap < 3 else HAP_TAG_TRIPLES)]
        if not quick:
            tag_sets += [t[:n_hap] for t in (ODD_HAP_TAG_SETS if n_hap < 3 else ODD_HAP_TAG_TRIPLES)]
        n_painted = 2 * n_hap
        places = [(kind, j) for kind in ("own", "ownp") for j in range(n_painted + 1)] + [(kind, j) for kind in ("tail", "mid", "cut") for j in range(n_painted)]
        for rot in [0] if quick else range(n_hap):
            for si, special in enumerate(pg.SPECIAL_TAGS):
                for pi, place in enumerate(places):
                    if quick and n_hap == 3 and (pi + si) % 2:
                        continue  # quick: every second position of the three-haplotype maps (alternating with the kind of tag)
                    # quick: the curated haplotype and Target mode rotate with the position and the kind of tag
                    for primary in ((pi + si) % n_hap,) if quick else range(n_hap):
                        for target in ((False, True)[(pi // n_hap + si) % 2],) if quick else (rng.random() < 0.5,):
                            n += 1
                            bpt = (1.0, 10.0)[n % 2] if quick else rng.choice((1.0, 10.0))
                            haps = tag_sets[n % len(tag_sets)]
                            more = [(s, rng.choice(places)) for s in pg.SPECIAL_TAGS if s != special]
                            yield precede_case(haps, rot, special, place, target, bpt, None, rng, n, primary=primary, more=more)


def precede_case(haps, rot, special, place, target, bpt, second, rng, n, primary=None, more=()):
    """primary: None, or the index in `haps` of the haplotype whose first painted Pretext scaffold carries the Primary tag"""
    n_hap = len(haps)
    order = (list(haps[rot:] + haps[:rot]) * 2) if n_hap else [None] * 3
    inp = []
    counter = [0]

    def new_scaffold(hap, lengths, gaps=None):
        counter[0] += 1
        i = counter[0]
        name = f"{hap.upper()}_SCAFFOLD_{i}" if hap else f"scaffold_{i}"
        s = pg.make_scaffold(name, lengths, [rng.choice((1, -1)) for _ in lengths], gaps, "fasta" if hap else rng.choice(("own", "fasta")), tag=str(i))
        inp.append(s)
        return s

    def whole(s):
        return pg.pieces_of(s, bpt, "floor", ())[0]

    def tagged_plan(spec):
        painted = spec[1][0] == "ownp"
        src = new_scaffold(haps[0] if haps else None, [150])
        # a painted tagged piece of a haplotype map also carries its haplotype's tag (Hap1 Painted Haplotig)
        hap = haps[0] if haps and painted else None
        return {"painted": painted, "hap": hap, "name_tag": None, "target": False, "pieces": [(whole(src), rng.choice((1, -1)), [spec[0]])]}

    chrom_len = (400, 300, 250, 200, 180, 160)
    plan = []
    for j, h in enumerate(order):
        s = new_scaffold(h, [chrom_len[j], 40] if j % 3 == 1 else [chrom_len[j]], [(10, "scaffold")] if j % 3 == 1 else None)
        plan.append({"painted": True, "hap": h, "name_tag": None, "target": target, "pieces": [(whole(s), rng.choice((1, -1)), [])], "src": s})
    unplaced = []
    for k, h in enumerate(haps or (None, None)):
        s = new_scaffold(h, [120])
        unplaced.append({"painted": False, "hap": None, "name_tag": None, "target": target and k % 2 == 0, "pieces": [(whole(s), 1, [])]})
    if bpt > 7:
        new_scaffold(haps[-1] if haps else None, [7])  # shorter than a texel: absent from the map
    inserts = {}
    for spec in [(special, place)] + ([second] if second else []) + list(more):
        tag, (kind, j) = spec
        if kind in ("own", "ownp"):
            inserts.setdefault(j, []).append(tagged_plan(spec))
        elif kind == "cut":
            sc = plan[j]
            s = sc["src"]
            n_tex = pg.texels(pg.rows_len(s["rows"]), bpt, "floor")
            pcs = pg.pieces_of(s, bpt, "floor", (n_tex // 2,))
            if len(pcs) == 2 and sc["pieces"][0][0] == whole(s):  # not yet cut by an earlier tagged piece
                sc["pieces"][0] = (pcs[0], sc["pieces"][0][1], [])
                sc["pieces"].append((pcs[1], rng.choice((1, -1)), [tag]))
        else:
            sc = plan[j]
            src = new_scaffold(sc["hap"], [150])
            sc["pieces"].append((whole(src), rng.choice((1, -1)), [tag]))
            if kind == "mid":
                extra = new_scaffold(sc["hap"], [90])
                sc["pieces"].append((whole(extra), rng.choice((1, -1)), []))
    seq = []
    for j in range(len(plan) + 1):
        seq.extend(inserts.get(j, []))
        if j < len(plan):
            seq.append(plan[j])
    seq.extend(unplaced)
    for sc in seq:
        sc.pop("src", None)
    mp = pg.plan_to_map(seq, bpt, rng)
    mode = ("single", "one", "two", "three")[n_hap]
    case = {"input": inp, "map": mp, "prefix": ("SUPER_", "chr")[n % 2], "via": ("agp", "tpf", "objects")[n % 3], "mode": mode, "cli_out": CLI_OUT_NAMES[n % len(CLI_OUT_NAMES)]}
    if primary is not None:
        # the Primary tag: on the first painted Pretext scaffold of the curated haplotype (all / first / last piece)
        first = next(k for k, sc in enumerate(seq) if sc["painted"] and sc["hap"] == haps[primary])
        psc = mp["scaffolds"][first]
        where = rng.choice(("all", "first", "last"))
        for i, piece in enumerate(psc):
            if where == "all" or (where == "first" and i == 0) or (where == "last" and i == len(psc) - 1):
                piece[4].append("Primary")
        case["primary_mode"] = haps[primary]
    return case


# ------------------------------------------------------------------------------- haplotype tags decide, not names


def moved_case(haps, style, first, target, bpt, rng, n):
    """
    a two-haplotype map (haplotypes haps = (A, B); `first` = index of the haplotype whose chromosome comes first) in which
    the haplotype TAG of a scaffold and the NAME of its first piece disagree or the names say nothing:
      Scaffold_1  painted, tagged X   one input scaffold of X                       (X = haps[first], Y = the other)
      Scaffold_2  painted, tagged Y   one input scaffold of Y
      Scaffold_3  painted, tagged X   an input scaffold of Y (moved to X by the curator), then one of X
      Scaffold_4  painted, tagged Y   an input scaffold of X (moved to Y) alone
      Scaffold_5  unpainted, untagged an input scaffold of X          -> by its name
      Scaffold_6  unpainted, tagged Y an input scaffold of X          -> Y: the tag decides
      Scaffold_7  unpainted, tagged X two pieces of one input scaffold of Y  -> X
      Scaffold_8  unpainted, untagged an input scaffold of Y          -> by its name
    style "prefixed": input scaffolds are named <haplotype>_scaffold_<n> (the haplotype's name in upper / lower / tag case);
          "plain":    scaffold_<n>: no input name says anything, only the tags do, untagged unplaced scaffolds are primary;
          "bare":     <haplotype>_scaffold_<n> for painted sources, scaffold_<n> for the unplaced ones.
    target: every tagged scaffold also carries Target (the two untagged unplaced scaffolds become contaminants).
    """
    x, y = haps[first], haps[1 - first]
    inp = []

    def src(h, lengths, unplaced=False):
        i = len(inp) + 1
        if style == "plain" or (style == "bare" and unplaced):
            name = f"scaffold_{i}"
        else:
            form = rng.choice((h.upper(), h.lower(), h))
            name = f"{form}_SCAFFOLD_{i}" if form.isupper() and form != form.lower() else f"{form}_scaffold_{i}"
        sc = pg.make_scaffold(name, lengths, [rng.choice((1, -1)) for _ in lengths], [(10, "scaffold")] * (len(lengths) - 1), "fasta", tag=str(i))
        inp.append(sc)
        return sc

    def whole(sc):
        return (pg.pieces_of(sc, bpt, "floor", ())[0], rng.choice((1, -1)), [])

    def halves(sc):
        n_tex = pg.texels(pg.rows_len(sc["rows"]), bpt, "floor")
        return [(pc, rng.choice((1, -1)), []) for pc in pg.pieces_of(sc, bpt, "floor", (n_tex // 2,))]

    def P(painted, hap, pieces):
        return {"painted": painted, "hap": hap, "name_tag": None, "target": bool(target and hap), "pieces": pieces}

    plan = [
        P(True, x, [whole(src(x, [400]))]),
        P(True, y, [whole(src(y, [350]))]),
        P(True, x, [whole(src(y, [150])), whole(src(x, [250, 40]))]),
        P(True, y, [whole(src(x, [200]))]),
        P(False, None, [whole(src(x, [120], True))]),
        P(False, y, [whole(src(x, [90], True))]),
        P(False, x, halves(src(y, [150], True))),
        P(False, None, [whole(src(y, [120], True))]),
    ]
    mp = pg.plan_to_map(plan, bpt, rng)
    return {"input": inp, "map": mp, "prefix": ("SUPER_", "chr")[n % 2], "via": ("agp", "tpf", "objects")[n % 3], "mode": "two", "cli_out": CLI_OUT_NAMES[n % len(CLI_OUT_NAMES)], "moved": style}


def moved_cases(tier, rng):
    """
    ENUMERATED scope "the haplotype tag decides" (statement: scaffolds carrying a haplotype tag go to that haplotype's
    assembly): moved_case for EVERY haplotype tag set (HAP_TAG_SETS and the other spellings ODD_HAP_TAG_SETS: lower-case
    letter + digits, single lower-case letters, digits + letters, lower-case roman numerals, several upper-case letters) x
    naming style (prefixed / plain / bare).  Every case also runs the command line.
    quick: one case per tag set and style (which haplotype comes first, Target mode and texel size rotate); thorough: x which
    haplotype comes first x Target mode off / on x texel size 1 / 10 x 3 seeded repetitions (case of the names, tag placement
    on all / first / last piece, strands).
    """
    quick = tier == "quick"
    n = 0
    for haps in HAP_TAG_SETS + ODD_HAP_TAG_SETS:
        for si, style in enumerate(("prefixed", "plain", "bare")):
            if quick:
                n += 1
                yield moved_case(haps, style, (n + si) % 2, n % 5 == 0, (1.0, 10.0)[(n // 2) % 2], rng, n)
                continue
            for first in (0, 1):
                for target in (False, True):
                    for bpt in (1.0, 10.0):
                        for _ in range(3):
                            n += 1
                            yield moved_case(haps, style, first, target, bpt, rng, n)


# ------------------------------------------------------------------------------- partly placed input scaffolds

# (contig lengths, gaps between them): the input scaffold of which only a part is in the map
PARTIAL_GEOMS = (
    ((400, 90, 40), ((10, "scaffold"), (200, "scaffold"))),
    ((150, 40, 90), ((200, "scaffold"), None)),
    ((400, 7), (None,)),  # a tail shorter than a texel, abutting: absent when PretextView rounds the scaffold down
    ((150, 90, 2), ((10, "scaffold"), (10, "scaffold"))),  # the same behind a gap
    ((90, 150, 40, 400), ((200, "scaffold"), (10, "scaffold"), (1, "contig"))),
)
PARTIAL_HOSTS = ("own_painted", "tail", "unpainted_after", "unpainted_before", "unpainted_target", "special", "unloc")


def partial_pieces(s, bpt, rounding, dropped, pick):
    """
    the PretextView pieces of input scaffold `s` cut on texel boundaries that separate the contigs numbered in `dropped`
    from the others WITHOUT cutting a contig (boundary inside the gap between them, or exactly on their junction; `pick`
    chooses among several), minus the pieces holding the dropped contigs: what is left of the scaffold in a map after the
    curator threw those pieces out.  A boundary at the rounded end of the scaffold means the dropped tail is the part
    PretextView rounds away.  None if there is no such boundary at this texel size.
    """
    rows = s["rows"]
    n = pg.texels(pg.rows_len(rows), bpt, rounding)
    if n < 1:
        return None
    f = pg.bptF(bpt)
    spans = []
    pos = 0
    for r in rows:
        ln = pg.row_len(r)
        if r[0] == "F":
            spans.append((pos + 1, pos + ln))
        pos += ln
    cuts = []
    for j in range(len(spans) - 1):
        if (j in dropped) == (j + 1 in dropped):
            continue
        lo, hi = spans[j][1], spans[j + 1][0] - 1  # the boundary lies after base b, lo <= b <= hi
        t0 = math.ceil(Fraction(lo) / f)
        cands = [t for t in range(t0, t0 + 40) if math.floor(t * f) <= hi and 1 <= t <= n]
        if not cands or (cuts and cands[-1] <= cuts[-1]):
            return None
        cands = [t for t in cands if not cuts or t > cuts[-1]]
        cuts.append(cands[pick % len(cands)])
    bounds = [0, *cuts] + ([n] if not cuts or cuts[-1] != n else [])
    kept = []
    for a, b in itertools.pairwise(bounds):
        start, end = pg.texel_piece(a, b, bpt)
        inside = [j for j, (x, y) in enumerate(spans) if x <= end and start <= y]
        if inside and not any(j in dropped for j in inside):
            kept.append([s["name"], start, end])
    return kept


def partial_case(haps, geom, dropped, host, target, bpt, rounding, rng, n, cli=True):
    """
    a map of len(haps) haplotypes (2 painted chromosomes per haplotype, 3 without haplotypes; Target on every painted
    scaffold if `target`), one unplaced scaffold per haplotype, and ONE input scaffold P with contigs `geom` of which the
    contigs `dropped` are absent from the map; the rest of P sits in `host`:
      own_painted       a painted (Target) scaffold of its own         tail     behind a painted (Target) chromosome
      unpainted_after   an untagged unpainted scaffold behind the chromosomes (Target mode: itself contaminant)
      unpainted_before  an untagged unpainted scaffold in front of the first (Target) scaffold of the map
      unpainted_target  an unpainted scaffold carrying the Target tag
      special           behind a painted chromosome, tagged Haplotig / Contaminant / FalseDuplicate
      unloc             behind a painted chromosome, tagged Unloc
    None if P cannot be cut cleanly at this texel size.
    """
    n_hap = len(haps)
    order = (list(haps) * 2) if n_hap else [None] * 3
    inp = []
    counter = [0]

    def new_scaffold(hap, lengths, gaps=None, naming=None):
        counter[0] += 1
        i = counter[0]
        name = f"{hap.upper()}_SCAFFOLD_{i}" if hap else f"scaffold_{i}"
        naming = "fasta" if hap else (naming or rng.choice(("own", "fasta")))
        sc = pg.make_scaffold(name, lengths, [rng.choice((1, -1)) for _ in lengths], gaps, naming, tag=str(i))
        inp.append(sc)
        return sc

    def whole(sc):
        return pg.pieces_of(sc, bpt, "floor", ())[0]

    chrom_len = (400, 300, 250, 200, 180, 160)
    plan = []
    for j, h in enumerate(order):
        sc = new_scaffold(h, [chrom_len[j]])
        plan.append({"painted": True, "hap": h, "name_tag": None, "target": target, "pieces": [(whole(sc), rng.choice((1, -1)), [])]})
    unplaced = []
    for h in haps or (None,):
        sc = new_scaffold(h, [120])
        unplaced.append({"painted": False, "hap": None, "name_tag": None, "target": False, "pieces": [(whole(sc), 1, [])]})
    p_hap = haps[n % n_hap] if n_hap else None
    lengths, gaps = geom
    p_sc = new_scaffold(p_hap, list(lengths), list(gaps), naming=("fasta", "own", "offset")[n % 3])
    kept = partial_pieces(p_sc, bpt, rounding, set(dropped), n)
    if not kept:
        return None
    pcs = [(pc, rng.choice((1, -1)), []) for pc in kept]
    before = []
    if host == "own_painted":
        plan.append({"painted": True, "hap": p_hap, "name_tag": None, "target": target, "pieces": pcs})
    elif host in ("tail", "special", "unloc"):
        sc = next(x for x in plan if x["hap"] == p_hap)
        tag = {"tail": [], "unloc": ["Unloc"], "special": [pg.SPECIAL_TAGS[n % 3]]}[host]
        sc["pieces"].extend((pc, st, list(tag)) for pc, st, _ in pcs)
    elif host == "unpainted_before":
        before.append({"painted": False, "hap": None, "name_tag": None, "target": False, "pieces": pcs})
    else:
        unplaced.insert(n % (len(unplaced) + 1), {"painted": False, "hap": None, "name_tag": None, "target": target and host == "unpainted_target", "pieces": pcs})
    mp = pg.plan_to_map(before + plan + unplaced, bpt, rng)
    case = {"input": inp, "map": mp, "prefix": ("SUPER_", "chr")[n % 2], "via": pg.pick_via(inp, n), "mode": ("single", "one", "two", "three")[n_hap], "partial": host}
    if cli:
        case["cli_out"] = CLI_OUT_NAMES[n % len(CLI_OUT_NAMES)]
    return case


def proper_subsets(k):
    return [c for r in range(1, k) for c in itertools.combinations(range(k), r)]


def partial_cases(tier, rng):
    """
    ENUMERATED scope "an input scaffold is only partly in the map" (statement: once a Target tag has been seen ... all
    sequence absent from the map is treated as contaminant): every geometry of PARTIAL_GEOMS x every non-empty proper subset
    of its contigs absent from the map (leading, middle, trailing contigs; dropped pieces, and tails shorter than a texel
    that PretextView rounds away) x every place for the rest of the scaffold (PARTIAL_HOSTS) in maps of 0, 1 or 2 haplotypes.
    quick: Target mode three times out of four, number of haplotypes / texel size (1, 10) / rounding rotate, every fourth case
    through the command line; thorough: Target mode x 0-2 haplotypes x texel sizes 1, 10, 33.3 x floor/ceil plus one of these
    without Target mode, every seventh through the command line, PLUS 2000 seeded geometries (2-5 contigs of 2-400 bp, seeded
    gaps, seeded absent subset, Target mode three times out of four).
    """
    quick = tier == "quick"
    n = m = 0
    for geom in PARTIAL_GEOMS:
        for dropped in proper_subsets(len(geom[0])):
            for host in PARTIAL_HOSTS:
                if quick:
                    n += 1
                    combos = [((), ("Hap1",), ("Hap1", "Hap2"))[n % 3]], [n % 4 != 0], [(10.0, 1.0)[(n // 3) % 2]], [("floor", "ceil")[(n // 2) % 2]]
                    full = list(itertools.product(*combos))
                else:
                    # at 1 bp per texel nothing is rounded: one rounding
                    m += 1
                    grid = [(1.0, ("floor", "ceil")[m % 2]), (10.0, "floor"), (10.0, "ceil"), (33.3, "floor"), (33.3, "ceil")]
                    full = [(haps, True, bpt, rounding) for haps in ((), ("Mat",), ("Hap1", "Hap2")) for bpt, rounding in grid]
                    # without Target mode (control: absent contigs go by their scaffold's name): one combination in rotation
                    full.append((full[m % len(full)][0], False, (1.0, 10.0, 33.3)[m % 3], ("floor", "ceil")[m % 2]))
                for haps, target, bpt, rounding in full:
                    n += not quick
                    case = partial_case(haps, geom, dropped, host, target, bpt, rounding, rng, n, cli=n % (4 if quick else 7) == 1)
                    if case is None and quick:
                        case = partial_case(haps, geom, dropped, host, target, 1.0, rounding, rng, n, cli=n % 4 == 1)
                    if case is not None:
                        yield case
    if quick:
        return
    for i in range(2000):
        k = rng.randint(2, 5)
        lengths = tuple(rng.choice((2, 7, 40, 90, 150, 400)) for _ in range(k))
        gaps = tuple(rng.choice((None, (1, "contig"), (10, "scaffold"), (200, "scaffold"))) for _ in range(k - 1))
        dropped = rng.choice(proper_subsets(k))
        haps = rng.choice(((), ("Hap1",), rng.choice(HAP_TAG_SETS)))
        case = partial_case(haps, (lengths, gaps), dropped, rng.choice(PARTIAL_HOSTS), rng.random() < 0.75, rng.choice(pg.BPTS), rng.choice(("floor", "ceil")), rng, i, cli=i % 10 == 0)
        if case is not None:
            yield case


# ------------------------------------------------------------------------------- <haplotype>_<anything>_<digits>

# the middle part of an input name <haplotype>_<middle>_<digits>
NAME_MIDDLES = (
    # letters and digits
    "SCAFFOLD", "scaffold", "ctg12", "ptg000012l", "Contig7b", "a", "7",
    # further underscores
    "ctg_12", "scaffold_3_pilon", "a_b_c", "x__y",
    # what assemblers, polishers and databases put into names
    "contig-33", "ptg000012l.1", "h2tg07#pilon", "ctg|arrow", "utg:7", "tig=12", "ctg+1", "NC@7", "JAB01.1-RC", "tig00012;len=5", "ctg(2)", "s,1", "ctg~1", "a/b", "*", "-", ".",
    # a letter outside ASCII (cases holding it are not run through the command line: the files are written in the locale's encoding)
    "contig\u00e9",
)
NAME_DIGITS = ("{i}", "{i:03d}", "{i}000000", "0{i}")


def shaped_name_case(haps, middles, bpt, primary, rng, n, cli):
    """
    a map of len(haps) haplotypes: two painted chromosomes per haplotype (alternating, tagged; the first one of haplotype
    `primary` - an index, or None - also carries the Primary tag), one unplaced scaffold <HAP>_SCAFFOLD_<i> per haplotype, and
    for every middle part in `middles` an UNPLACED input scaffold (an unpainted, untagged Pretext scaffold of its own) and, at
    texel sizes above 7 bp, an input scaffold shorter than a texel that is ABSENT from the map, both called
    <haplotype>_<middle>_<digits>; the haplotype (rotating), its spelling in the name (upper / lower / as in the tag) and the
    form of the number rotate with n
    """
    n_hap = len(haps)
    margin = pg.margin_of(bpt)
    long_enough = max(120, 2 * margin + 60)
    inp = []

    def add(name, lengths):
        sc = pg.make_scaffold(name, lengths, [rng.choice((1, -1)) for _ in lengths], [(10, "scaffold")] * (len(lengths) - 1), "fasta", tag=str(len(inp) + 1))
        inp.append(sc)
        return sc

    def whole(sc):
        return pg.pieces_of(sc, bpt, rng.choice(("floor", "ceil")) if bpt > 1 else "floor", ())[0]

    plan = []
    for j, h in enumerate(list(haps) * 2):
        sc = add(f"{h.upper()}_SCAFFOLD_{len(inp) + 1}", [max(400 - 30 * j, long_enough)])
        plan.append({"painted": True, "hap": h, "name_tag": None, "target": False, "pieces": [(whole(sc), rng.choice((1, -1)), [])]})
    unplaced = []
    for h in haps:
        sc = add(f"{h.upper()}_SCAFFOLD_{len(inp) + 1}", [long_enough])
        unplaced.append({"painted": False, "hap": None, "name_tag": None, "target": False, "pieces": [(whole(sc), 1, [])]})
    k = n
    for middle in middles:
        for where in ("unplaced", "absent"):
            if where == "absent" and bpt <= 7:
                continue
            k += 1
            h = haps[k % n_hap]
            form = (h.upper(), h.lower(), h)[(k // n_hap) % 3]
            i = len(inp) + 1
            name = f"{form}_{middle}_{NAME_DIGITS[(k // 3) % len(NAME_DIGITS)].format(i=i)}"
            if where == "unplaced":
                sc = add(name, [long_enough] if k % 4 else [long_enough, 40])
                unplaced.append({"painted": False, "hap": None, "name_tag": None, "target": False, "pieces": [(whole(sc), rng.choice((1, -1)), [])]})
            else:
                add(name, [7] if k % 4 else [2, 2])
    rng.shuffle(unplaced)
    mp = pg.plan_to_map(plan + unplaced, bpt, rng)
    case = {"input": inp, "map": mp, "prefix": ("SUPER_", "chr")[n % 2], "via": pg.pick_via(inp, n), "mode": ("single", "one", "two", "three")[n_hap], "shaped": list(middles)}
    if cli and all(m.isascii() for m in middles):
        case["cli_out"] = CLI_OUT_NAMES[n % len(CLI_OUT_NAMES)]
    if primary is not None:
        psc = mp["scaffolds"][primary]  # the first painted scaffold of haplotype number `primary`
        where = rng.choice(("all", "first", "last"))
        for i, piece in enumerate(psc):
            if where == "all" or (where == "first" and i == 0) or (where == "last" and i == len(psc) - 1):
                piece[4].append("Primary")
        case["primary_mode"] = haps[primary]
    return case


def shaped_name_cases(tier, rng):
    """
    ENUMERATED scope "unplaced scaffolds whose input name starts with that haplotype's name go to that haplotype's assembly",
    whatever the rest of the name looks like: shaped_name_case for every middle part of NAME_MIDDLES (three per case; each one
    as an unplaced AND as an absent scaffold).
    quick: per group of three middles one two-haplotype map and one map rotating between Primary-tag mode, one haplotype and
    three haplotypes (texel size 10 / 33.3 rotating, every second case through the command line); thorough: every haplotype
    tag set (incl. the other spellings) x every group x texel sizes 1, 10, 33.3 x no Primary tag / Primary on the first / on the
    second haplotype x 2 seeded repetitions, plus one-haplotype and three-haplotype maps; every fifth through the command line.
    """
    quick = tier == "quick"
    groups = [NAME_MIDDLES[i : i + 3] for i in range(0, len(NAME_MIDDLES), 3)]
    n = 0
    if quick:
        for gi, middles in enumerate(groups):
            n += 1
            bpt = (10.0, 33.3)[gi % 2]
            yield shaped_name_case(HAP_TAG_SETS[gi % len(HAP_TAG_SETS)], middles, bpt, None, rng, n, cli=gi % 2 == 0)
            n += 1
            kind = gi % 4
            if kind in (0, 2):
                yield shaped_name_case(HAP_TAG_SETS[(gi + 1) % len(HAP_TAG_SETS)], middles, (33.3, 10.0)[gi % 2], (gi // 2) % 2, rng, n, cli=gi % 2 == 1 or kind == 0)
            elif kind == 1:
                yield shaped_name_case(ODD_HAP_TAG_SETS[gi % len(ODD_HAP_TAG_SETS)][:1], middles, 10.0, None, rng, n, cli=True)
            else:
                yield shaped_name_case(HAP_TAG_TRIPLES[gi % 2], middles, 10.0, None, rng, n, cli=False)
        return
    for haps in HAP_TAG_SETS + ODD_HAP_TAG_SETS:
        for middles in groups:
            for bpt in (1.0, 10.0, 33.3):
                for primary in (None, 0, 1):
                    for _ in range(2):
                        n += 1
                        yield shaped_name_case(haps, middles, bpt, primary, rng, n, cli=n % 5 == 0)
            n += 1
            yield shaped_name_case(haps[:1], middles, (10.0, 33.3)[n % 2], None, rng, n, cli=n % 5 == 0)
    for haps in HAP_TAG_TRIPLES + ODD_HAP_TAG_TRIPLES:
        for middles in groups:
            for primary in (None, 0, 1, 2):
                n += 1
                yield shaped_name_case(haps, middles, (10.0, 33.3, 1.0)[n % 3], primary, rng, n, cli=n % 5 == 0)


# hand-made minimal case that is always run: HAP1_3 begins with "<haplotype>_" but is written to the primary assembly
FIXED_CASES = [
    {
        "input": [
            {"name": "HAP1_SCAFFOLD_1", "rows": [pg.F("HAP1_SCAFFOLD_1", 1, 40)]},
            {"name": "HAP2_SCAFFOLD_2", "rows": [pg.F("HAP2_SCAFFOLD_2", 1, 40)]},
            {"name": "HAP1_3", "rows": [pg.F("HAP1_3", 1, 30)]},
        ],
        "map": {"bpt": 1.0, "scaffolds": [[["HAP1_SCAFFOLD_1", 1, 40, 1, ["Painted", "Hap1"]]], [["HAP2_SCAFFOLD_2", 1, 40, 1, ["Painted", "Hap2"]]], [["HAP1_3", 1, 30, 1, []]]]},
        "prefix": "SUPER_", "via": "agp", "mode": "two",
    }
]


def run(tier, seed, **opts):
    rng = random.Random(seed)
    col = Collector(
        "seeded PretextView-model maps with consistent tagging over 3-7 input scaffolds x <= 2 contigs: whole or cut "
        "pieces regrouped into painted scaffolds (0-4; in two-haplotype maps alternating haplotype tags, both members of "
        "a pair name-tagged or neither) and single-source unpainted scaffolds; Haplotig/Contaminant/FalseDuplicate on "
        "any piece that is not the first of a painted scaffold, Unloc pieces, name tags, Target mode (first Target at "
        "any scaffold), haplotype tag sets Hap1/Hap2, HAP1/HAP2, Mat/Pat, hapA/hapB, Maternal/Paternal with input names "
        "<HAP>_SCAFFOLD_<n> in upper/lower/tag case (2 %: <HAP>_<n> or <HAP>_ctg<n>), tags on all/first/last piece; 1 % of single-haplotype input scaffolds carry "
        "names of the known class; oracle: destination of every piece interior and of every absent scaffold, base by "
        "base, under the keys of the returned dict; curated flag of every returned assembly (only the three tag "
        "assemblies are not curated); PLUS an enumerated scope: one Haplotig/Contaminant/FalseDuplicate piece in every "
        "position (own scaffold unpainted/painted in front of each painted scaffold, incl. first scaffold of the map; tail / "
        "middle / cut-off piece of each painted scaffold) of maps of 0-3 haplotypes (every rotation of the haplotype order), "
        "without and with Target mode; the same maps of 2-3 haplotypes in Primary-tag mode (Primary tag on the first painted scaffold "
        "of each haplotype in turn, a Haplotig, a Contaminant and a FalseDuplicate piece in every map, one of them in every "
        "position): tag files not curated, curated haplotype in *.primary.curated.*, other haplotypes in "
        "*.all_haplotigs.curated.* / their own curated file; PLUS an enumerated scope of PARTLY placed input scaffolds (2-4 contigs, every non-empty "
        "proper subset of them absent from the map - dropped pieces and sub-texel tails rounded away -, the rest painted into a Target scaffold, "
        "in an untagged / Target-tagged unpainted scaffold before or after the first Target, or tagged Haplotig / Contaminant / "
        "FalseDuplicate / Unloc; Target mode on and off, 0-2 haplotypes): every absent contig is judged like an absent scaffold (Target "
        "seen anywhere -> Contaminant, else haplotype by input name, else primary); PLUS an enumerated scope 'the haplotype TAG decides': two-haplotype maps in which "
        "painted and unpainted scaffolds tagged with one haplotype begin with (or consist of) input scaffolds named after the other, or input names say nothing "
        "(scaffold_<n>), for every haplotype tag set incl. other spellings (h1/h2, m/p, a/b, p1/p2, 1a/2a, i/ii, x/y, HA/HB, MAT/PAT, hap1/hap2, Hb1/Hb2: anything but an "
        "upper-case letter followed by digits is documented as a haplotype name); every fourth seeded haplotype map uses one of these spellings; PLUS an enumerated scope of unplaced and absent input scaffolds named "
        "<haplotype>_<middle>_<digits> for every kind of middle part (word characters, further underscores, punctuation, non-ASCII) in one-, two-, three-haplotype and Primary-tag maps: they go to the haplotype their name starts with; every enumerated case and every n-th seeded case is also run through the "
        "pretext-to-asm command line (TPF or AGP output) and every judged base is looked up in the written files, whose "
        "names must be the documented destination (*.contaminants.*, *.falseduplicates.*, *haplotigs.*, "
        "*.primary.curated.*, *.<hap>.*.primary.curated.*); non-trivial = distinct completed case with >= 1 judged "
        "piece/scaffold and at least one tag besides Painted"
    )
    n_cases = 4000 if tier == "quick" else 120000
    cli_every = 25 if tier == "quick" else 40  # every n-th seeded case is also run through the command line
    stats = {"rejected_tagging": 0, "judged": 0, "single": 0, "one": 0, "two": 0, "three": 0, "enumerated": 0, "enumerated_rejected": 0, "cli": 0, "primary_mode": 0, "moved": 0, "moved_rejected": 0, "partial": 0, "partial_rejected": 0, "partial_with_absent_contigs": 0, "shaped": 0, "shaped_rejected": 0}
    known_failures = {}

    def stream():
        for c in FIXED_CASES:
            yield "fixed", -1, c
        for c in precede_cases(tier, random.Random(f"c09-precede-{seed}")):
            yield "enumerated", -1, c
        for c in primary_cases(tier, random.Random(f"c09-primary-{seed}")):
            yield "enumerated", -1, c
        for c in partial_cases(tier, random.Random(f"c09-partial-{seed}")):
            yield "partial", -1, c
        for c in moved_cases(tier, random.Random(f"c09-moved-{seed}")):
            yield "moved", -1, c
        for c in shaped_name_cases(tier, random.Random(f"c09-shaped-{seed}")):
            yield "shaped", -1, c
        for i in range(n_cases):
            c = make_case(rng, i)
            if i % cli_every == 5:
                c["cli_out"] = CLI_OUT_NAMES[(i // cli_every) % len(CLI_OUT_NAMES)]
            yield "seeded", i, c

    for family, i, case in stream():
        if col.full:
            break
        judged = check(case, col, known_failures)
        stats[case["mode"]] += 1
        stats["cli"] += bool(case.get("cli_out"))
        stats["primary_mode"] += bool(case.get("primary_mode"))
        if family == "enumerated":
            stats["enumerated"] += 1
            stats["enumerated_rejected"] += judged is None
        if family == "moved":
            stats["moved"] += 1
            stats["moved_rejected"] += judged is None
        if family == "shaped":
            stats["shaped"] += 1
            stats["shaped_rejected"] += judged is None
        if family == "partial":
            stats["partial"] += 1
            stats["partial_rejected"] += judged is None
            stats["partial_with_absent_contigs"] += judged is not None and bool(leftover_contigs(case))
        if judged is None:
            stats["rejected_tagging"] += 1
        else:
            stats["judged"] += judged
        tagged = any(t != "Painted" for sc in case["map"]["scaffolds"] for p in sc for t in p[4])
        col.case(pg.case_key(case), nontrivial=bool(judged) and tagged, sample=case if (judged and tagged and (i % 1201 == 7 or stats["enumerated"] == 77)) else None)
    stats["known_class_cases"] = ", ".join(f"{'+'.join(k)}={len(v)}" for k, v in known_failures.items()) or "none"
    for lst in known_failures.values():
        col.failures.extend(lst[:3])
    return col.result(
        bounds=(
            "3-7 input scaffolds x <= 2 contigs, contig lengths {1,2,7,40,150,400}, texel sizes {1,2.5,10,33.3}, <= 2 cuts per "
            f"scaffold, <= 4 painted scaffolds; {len(FIXED_CASES)} fixed hand-made case + {stats['enumerated']} enumerated tagged-piece-position cases "
            f"(all enumerated; {stats['enumerated_rejected']} of them rejected; {stats['primary_mode']} in Primary-tag mode) + {stats['partial']} partly-placed-input-scaffold cases "
            f"({stats['partial_rejected']} rejected, {stats['partial_with_absent_contigs']} completed with >= 1 contig of a placed scaffold absent from the map) + {stats['moved']} tag-against-name cases "
            f"({stats['moved_rejected']} rejected) + {stats['shaped']} cases with unplaced and absent scaffolds named <haplotype>_<middle>_<digits> for {len(NAME_MIDDLES)} middle parts "
            f"(letters/digits, further underscores, . - # | : = + @ ; , ( ) ~ / *, one character, a non-ASCII letter; {stats['shaped_rejected']} rejected) + {n_cases} seeded cases; cases also run through the command line: {stats['cli']}; "
            f"pieces/absent scaffolds judged: {stats['judged']}; maps "
            f"rejected with TaggingError/ChrNamerError (allowed, not judged): {stats['rejected_tagging']}; "
            f"modes: single={stats['single']} one-haplotype={stats['one']} two-haplotype={stats['two']} three-haplotype={stats['three']}; cases failing only in a "
            f"named class: {stats['known_class_cases']} (first 3 of each reported)"
        ),
        exhaustive=False,
    )
