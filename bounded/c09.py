"""
C09 bounded tier: per-piece routing oracle.  For PretextView-model maps decorated with consistent tagging, the interior
of every piece (bases more than 3 x (1 + floor(bp/texel)) from the piece ends, cf. C02) and every base of an input
scaffold that is absent from the map must be written to the assembly the statement names:
  Haplotig / Contaminant / FalseDuplicate on the piece     -> that assembly (not curated), wherever the piece sits
  Target seen in this or an earlier Pretext scaffold, and this scaffold has no Target tag -> Contaminant
  Target seen anywhere in the map, sequence absent from the map                            -> Contaminant
  scaffold carries a haplotype tag                        -> that haplotype's assembly
  unplaced (unpainted or absent) scaffold whose input name starts with <haplotype>_ (case-insensitive) -> that haplotype
  everything else                                         -> primary
Known class "name-derived-haplotype" (README.md): an unplaced input scaffold whose name matches ^[^_]+_.+_\\d+$ with a
prefix that is not a haplotype tag of the map is routed to an invented assembly.
"""

import random
from fractions import Fraction

from . import pipeline_gen as pg
from .common import Collector

HAP_TAG_SETS = (("Hap1", "Hap2"), ("HAP1", "HAP2"), ("Mat", "Pat"), ("hapA", "hapB"), ("Maternal", "Paternal"))


def hap_by_name(name, hap_tags):
    """haplotype whose name (case-insensitively) followed by '_' starts the input name"""
    low = name.lower()
    for h in hap_tags:
        if low.startswith(h.lower() + "_"):
            return h
    return None


def expected_routes(case):
    """-> ([(piece, Pretext scaffold number, destination)], {absent input scaffold name: destination}, hap tags)"""
    mp = case["map"]
    infos = [pg.read_scaffold_tags(psc) for psc in mp["scaffolds"]]
    hap_tags = []
    for i in infos:
        if i["hap"] and i["hap"].lower() not in [h.lower() for h in hap_tags]:
            hap_tags.append(i["hap"])
    routes = []
    target_seen = False
    for k, (psc, info) in enumerate(zip(mp["scaffolds"], infos, strict=True), 1):
        if info["target"]:
            target_seen = True
        for piece in psc:
            special = pg.piece_special(piece)
            if special:
                dest = special
            elif target_seen and not info["target"]:
                dest = "Contaminant"
            elif info["hap"]:
                dest = ("hap", info["hap"].lower())
            elif not info["painted"]:
                # unplaced scaffold: its input name is the name of the (single) input scaffold its pieces come from
                srcs = {p[0] for p in psc}
                h = hap_by_name(piece[0], hap_tags) if len(srcs) == 1 else "ambiguous"
                dest = ("hap", h.lower()) if h and h != "ambiguous" else (None if h is None else "ambiguous")
            else:
                dest = None
            routes.append((piece, k, dest))
    used = {p[0] for psc in mp["scaffolds"] for p in psc}
    absent = {}
    for s in case["input"]:
        if s["name"] not in used:
            if target_seen:
                absent[s["name"]] = "Contaminant"
            else:
                h = hap_by_name(s["name"], hap_tags)
                absent[s["name"]] = ("hap", h.lower()) if h else None
    return routes, absent, hap_tags


def key_matches(key, dest):
    if isinstance(dest, tuple):
        return isinstance(key, str) and key.lower() == dest[1] and key not in pg.SPECIAL_TAGS
    return key == dest


def show(dest):
    return f"haplotype {dest[1]!r}" if isinstance(dest, tuple) else ("primary" if dest is None else dest)


def name_derived(name, hap_tags):
    m = pg.NAME_DERIVED_HAPLOTYPE.match(name)
    return bool(m) and m.group(1).lower() not in [h.lower() for h in hap_tags]


def routing_problems(case, out):
    """-> [(message, is_known_class)]"""
    inp = case["input"]
    margin = pg.margin_of(case["map"]["bpt"])
    in_toks = {s["name"]: pg.tokens(s["rows"]) for s in inp}
    first_contig = {s["name"]: next(r[1] for r in s["rows"] if r[0] == "F") for s in inp}
    idx = pg.OutIndex(out)
    routes, absent, hap_tags = expected_routes(case)
    problems = []
    judged = 0

    def where_of(toks):
        keys = {}
        for t in toks:
            if t[0] == "GAP":
                continue
            locs = idx.where.get((t[0], t[1]), [])
            for si, _ in locs:
                keys.setdefault(idx.scaffolds[si][0], 0)
                keys[idx.scaffolds[si][0]] += 1
            if not locs:
                keys.setdefault("<nowhere>", 0)
                keys["<nowhere>"] += 1
        return keys

    for piece, k, dest in routes:
        if dest == "ambiguous":
            continue
        core = pg.piece_core(in_toks[piece[0]], piece, margin)
        if not core:
            continue
        judged += 1
        keys = where_of(core)
        bad = {key: n for key, n in keys.items() if not key_matches(key, dest)}
        if bad:
            psc = case["map"]["scaffolds"][k - 1]
            info = pg.read_scaffold_tags(psc)
            src0 = psc[0][0]  # the input scaffold whose name the unplaced Pretext scaffold is known by
            unplaced_untagged = not info["painted"] and not info["hap"] and not pg.piece_special(piece)
            known = unplaced_untagged and class_of(src0, first_contig[src0], dest, bad, hap_tags)
            problems.append(
                (f"interior of piece {piece[0]}:{piece[1]}-{piece[2]} {piece[4]} of Scaffold_{k} belongs in {show(dest)} but {bad} bases were written elsewhere", known)
            )
    for name, dest in absent.items():
        judged += 1
        keys = where_of(in_toks[name])
        bad = {key: n for key, n in keys.items() if not key_matches(key, dest)}
        if bad:
            known = class_of(name, first_contig[name], dest, bad, hap_tags)
            problems.append((f"input scaffold {name!r} is absent from the map and belongs in {show(dest)} but {bad} bases were written elsewhere", known))
    for key in pg.SPECIAL_TAGS:
        if key in out and out[key]["curated"]:
            problems.append((f"the {key} assembly is marked curated", False))
    lows = [k.lower() for k in out if isinstance(k, str)]
    if len(lows) != len(set(lows)):
        problems.append((f"two output assemblies for one haplotype: {list(out)}", False))
    return problems, judged


def class_of(scaffold_name, contig_name, dest, bad, hap_tags):
    """
    class of a misrouted unplaced, untagged scaffold (a label for triage; the oracle has already decided it is misrouted)
      True = "name-derived-haplotype"  ONLY IF the scaffold name and its first contig name match ^[^_]+_.+_\\d+$ with the
             same prefix before the first '_', that prefix is NOT a haplotype tag used in the map, the statement sends the
             scaffold to the primary assembly, and all misrouted bases are in the assembly whose key equals that prefix
             (case-insensitively)
      "haplotype-prefix-name-shape"    ONLY IF the scaffold name and its first contig name start (case-insensitively) with
             <haplotype tag used in the map>_ , neither matches ^[^_]+_.+_\\d+$, the statement sends the scaffold to that
             haplotype, and all misrouted bases are in the primary (None) assembly
      False  anything else: plain failure
    """
    wrong_keys = set(bad)
    if dest is None and name_derived(scaffold_name, hap_tags) and name_derived(contig_name, hap_tags):
        if name_key(scaffold_name) == name_key(contig_name) and all(isinstance(k, str) for k in wrong_keys):
            if {k.lower() for k in wrong_keys} == {name_key(contig_name)}:
                return True
    if isinstance(dest, tuple) and wrong_keys == {None}:
        if short_prefixed(scaffold_name, hap_tags) and short_prefixed(contig_name, hap_tags):
            h1, h2 = hap_by_name(scaffold_name, hap_tags), hap_by_name(contig_name, hap_tags)
            if h1.lower() == h2.lower() == dest[1]:
                return "haplotype-prefix-name-shape"
    return False


def short_prefixed(name, hap_tags):
    """begins with '<haplotype>_' but does not have the shape <hap>_<x>_<n> (label of a failure class, not an oracle)"""
    return hap_by_name(name, hap_tags) is not None and not pg.NAME_DERIVED_HAPLOTYPE.match(name)


def name_key(name):
    m = pg.NAME_DERIVED_HAPLOTYPE.match(name)
    return m.group(1).lower() if m else None


def check(case, col, known_failures=None):
    run = pg.run_case(case)
    if run.error is not None:
        if type(run.error).__name__ in ("TaggingError", "ChrNamerError"):
            return None  # the tagging was rejected: an allowed outcome, nothing is routed
        col.fail(f"consistently tagged PretextView-model map: remapping crashed ({run.stage}): {run.error_text}", case)
        return None
    problems, judged = routing_problems(case, run.out)
    if problems:
        classed = all(k for _, k in problems)
        classes = sorted({"name-derived-haplotype" if k is True else k for _, k in problems if k})
        msg = "; ".join(m for m, _ in problems[:3])
        if classed and known_failures is not None:
            # a failure carries classes only if EVERY problem of the case has one (else it is a plain failure);
            # classed cases are recorded apart so that they do not exhaust the failure budget
            known_failures.setdefault(tuple(classes), []).append({"message": msg, "input": case, "classes": classes})
        else:
            col.fail(msg, case, classes if classed else ())
    return judged


def replay(inp):
    col = Collector("replay")
    check(inp, col)
    return col.failures[0]["message"] if col.failures else None


# ---------------------------------------------------------------------------------------------- generator


def make_case(rng, idx, short_names=True):
    mode = rng.choice(("single", "single", "two", "two", "one"))
    bpt = rng.choice(pg.BPTS)
    hap_tags = () if mode == "single" else rng.choice(HAP_TAG_SETS)[: 2 if mode == "two" else 1]
    n_src = rng.randint(3, 7)
    inp = []
    lens_big = [x for x in (40, 150, 400) if x >= 2 * bpt] or [400]
    for i in range(1, n_src + 1):
        k = rng.randint(1, 2)
        if i <= 2 or rng.random() < 0.7:
            lt = [rng.choice(lens_big + [150, 400]) for _ in range(k)]
        else:
            lt = [rng.choice((1, 2, 7))] * 1  # tiny: candidates for being absent from the map
        if mode == "single":
            name = f"scaffold_{i}"
            naming = rng.choice(("own", "fasta", "offset"))
            if rng.random() < 0.01:
                name = rng.choice((f"ctg_7_{i}", f"h1tg_00{i}_l_1", f"ptg_x_{i}"))  # known class
                naming = "fasta"
        else:
            naming = "fasta"
            r = rng.random()
            if r < 0.8:
                h = hap_tags[i % len(hap_tags)]
                form = rng.choice((h.upper(), h.lower(), h))
                name = f"{form}_SCAFFOLD_{i}" if form.isupper() else f"{form}_scaffold_{i}"
                if short_names and rng.random() < 0.02:
                    # begins with "<haplotype>_" as documented, but is not of the shape <hap>_<x>_<n>
                    name = rng.choice((f"{form}_{i}", f"{form}_ctg{i}"))
            else:
                name = f"scaffold_{i}"
        gaps = [rng.choice(((10, "scaffold"), (1, "contig"), (200, "scaffold"), None)) for _ in range(k - 1)]
        sp = [rng.choice((1, -1)) for _ in range(k)]
        inp.append(pg.make_scaffold(name, lt, sp, gaps, naming, tag=str(i)))
    # pieces
    pool = []
    cache = {}
    for s in inp:
        ln = pg.rows_len(s["rows"])
        rounding = rng.choice(("floor", "ceil"))
        n = pg.texels(ln, bpt, rounding)
        if n < 1 or (Fraction(ln) < pg.bptF(bpt) and rng.random() < 0.7):
            continue
        cs = () if rng.random() < 0.5 else pg.sample_cut_set(s["rows"], bpt, n, rng, 2, cache)
        pool.extend(pg.pieces_of(s, bpt, rounding, cs))
    rng.shuffle(pool)
    margin = pg.margin_of(bpt)
    # sources with names of the known class stay unplaced (the class is about unplaced scaffolds)
    paintable = [p for p in pool if mode != "single" or not pg.NAME_DERIVED_HAPLOTYPE.match(p[0])]
    solid = [p for p in paintable if p[2] - p[1] + 1 > 2 * margin + 2]
    plan = []
    # painted scaffolds
    if mode == "single":
        painted_haps = [None] * rng.randint(0, 3)
    elif mode == "one":
        painted_haps = [hap_tags[0]] * rng.randint(1, 2)
    else:
        painted_haps = list(hap_tags) * rng.randint(1, 2)
    name_tags = ["X", "W", "B1", "Z"]
    group_tag = None
    for j, h in enumerate(painted_haps):
        if not solid:
            break
        first = solid.pop()
        pool.remove(first)
        pcs = [first]
        paintable.remove(first)
        for _ in range(rng.randint(0, 2)):
            if paintable:
                p = paintable.pop()
                pool.remove(p)
                if p in solid:
                    solid.remove(p)
                pcs.append(p)
        if mode != "two" or j % 2 == 0:
            group_tag = name_tags.pop() if rng.random() < 0.2 else None
        plan.append({"painted": True, "hap": h, "name_tag": group_tag, "pieces": [(p, rng.choice((1, -1)), []) for p in pcs]})
    # unpainted scaffolds: single-source groups
    by_src = {}
    for p in pool:
        by_src.setdefault(p[0], []).append(p)
    unpainted = []
    for pcs in by_src.values():
        while pcs:
            take = rng.randint(1, len(pcs))
            grp, pcs = pcs[:take], pcs[take:]
            sc = {"painted": False, "hap": None, "name_tag": None, "pieces": [(p, rng.choice((1, -1)), []) for p in grp]}
            if hap_tags and rng.random() < 0.2:
                sc["hap"] = rng.choice(hap_tags)
            unpainted.append(sc)
    # interleave, keeping the painted scaffolds in their order
    order = plan + unpainted
    if rng.random() < 0.5:
        slots = sorted(rng.sample(range(len(order)), len(plan)))
        merged = [None] * len(order)
        for s_, sc in zip(slots, plan, strict=True):
            merged[s_] = sc
        it = iter(unpainted)
        order = [x if x is not None else next(it) for x in merged]
    # special tags and unlocs
    for sc in order:
        for i, (p, st, tg) in enumerate(sc["pieces"]):
            if (i > 0 or not sc["painted"]) and rng.random() < 0.25:
                tg.append(rng.choice(pg.SPECIAL_TAGS))
            elif sc["painted"] and i > 0 and rng.random() < 0.15:
                tg.append("Unloc")
    # Target mode
    if order and rng.random() < 0.35:
        if mode == "single":
            t = rng.randrange(len(order))
            for j, sc in enumerate(order):
                sc["target"] = j == t or (j > t and rng.random() < 0.5)
        else:
            seen = False
            for sc in order:
                if sc["painted"]:
                    sc["target"] = True
                    seen = True
                else:
                    sc["target"] = seen and rng.random() < 0.5
    if hap_tags and not any(sc["painted"] and sc["hap"] for sc in order):
        return make_case(rng, idx, short_names)  # no painted scaffold could be formed: the map would not show the haplotype at all
    mp = pg.plan_to_map(order, bpt, rng)
    return {"input": inp, "map": mp, "prefix": rng.choice(("SUPER_", "SUPER_", "chr")), "via": pg.pick_via(inp, idx), "mode": mode}


# hand-made minimal case that is always run: HAP1_3 begins with "<haplotype>_" but is written to the primary assembly
FIXED_CASES = [
    {
        "input": [
            {"name": "HAP1_SCAFFOLD_1", "rows": [pg.F("HAP1_SCAFFOLD_1", 1, 40)]},
            {"name": "HAP2_SCAFFOLD_2", "rows": [pg.F("HAP2_SCAFFOLD_2", 1, 40)]},
            {"name": "HAP1_3", "rows": [pg.F("HAP1_3", 1, 30)]},
        ],
        "map": {"bpt": 1.0, "scaffolds": [[["HAP1_SCAFFOLD_1", 1, 40, 1, ["Painted", "Hap1"]]], [["HAP2_SCAFFOLD_2", 1, 40, 1, ["Painted", "Hap2"]]], [["HAP1_3", 1, 30, 1, []]]]},
        "prefix": "SUPER_", "via": "agp", "mode": "two",
    }
]


def run(tier, seed, **opts):
    rng = random.Random(seed)
    col = Collector(
        "seeded PretextView-model maps with consistent tagging over 3-7 input scaffolds x <= 2 contigs: whole or cut "
        "pieces regrouped into painted scaffolds (0-4; in two-haplotype maps alternating haplotype tags, both members of "
        "a pair name-tagged or neither) and single-source unpainted scaffolds; Haplotig/Contaminant/FalseDuplicate on "
        "any piece that is not the first of a painted scaffold, Unloc pieces, name tags, Target mode (first Target at "
        "any scaffold), haplotype tag sets Hap1/Hap2, HAP1/HAP2, Mat/Pat, hapA/hapB, Maternal/Paternal with input names "
        "<HAP>_SCAFFOLD_<n> in upper/lower/tag case (2 %: <HAP>_<n> or <HAP>_ctg<n>), tags on all/first/last piece; 1 % of single-haplotype input scaffolds carry "
        "names of the known class; oracle: destination of every piece interior and of every absent scaffold, base by "
        "base; non-trivial = distinct completed case with >= 1 judged piece/scaffold and at least one tag besides Painted"
    )
    n_cases = 4000 if tier == "quick" else 120000
    stats = {"rejected_tagging": 0, "judged": 0, "single": 0, "one": 0, "two": 0}
    known_failures = {}
    for i in range(-len(FIXED_CASES), n_cases):
        if col.full:
            break
        case = FIXED_CASES[i] if i < 0 else make_case(rng, i)
        judged = check(case, col, known_failures)
        stats[case["mode"]] += 1
        if judged is None:
            stats["rejected_tagging"] += 1
        else:
            stats["judged"] += judged
        tagged = any(t != "Painted" for sc in case["map"]["scaffolds"] for p in sc for t in p[4])
        col.case(pg.case_key(case), nontrivial=bool(judged) and tagged, sample=case if (judged and tagged and i % 1201 == 7) else None)
    stats["known_class_cases"] = ", ".join(f"{'+'.join(k)}={len(v)}" for k, v in known_failures.items()) or "none"
    for lst in known_failures.values():
        col.failures.extend(lst[:3])
    return col.result(
        bounds=(
            "3-7 input scaffolds x <= 2 contigs, contig lengths {1,2,7,40,150,400}, texel sizes {1,2.5,10,33.3}, <= 2 cuts per "
            f"scaffold, <= 4 painted scaffolds; {len(FIXED_CASES)} fixed hand-made case + {n_cases} seeded cases; pieces/absent scaffolds judged: {stats['judged']}; maps "
            f"rejected with TaggingError/ChrNamerError (allowed, not judged): {stats['rejected_tagging']}; "
            f"modes: single={stats['single']} one-haplotype={stats['one']} two-haplotype={stats['two']}; cases failing only in a "
            f"named class: {stats['known_class_cases']} (first 3 of each reported)"
        ),
        exhaustive=False,
    )
