"""helpers shared by the bounded checks (run-time oracles over the real code)"""

import io
import itertools
import random

from tola.assembly.assembly import Assembly
from tola.assembly.fragment import Fragment
from tola.assembly.gap import Gap
from tola.assembly.scaffold import Scaffold


class Collector:
    """counts evaluations and distinct non-trivial cases, keeps samples and failures"""

    def __init__(self, rule, max_failures=25, max_samples=4):
        self.rule = rule
        self.evaluations = 0
        self.distinct = set()
        self.samples = []
        self.failures = []
        self.max_failures = max_failures
        self.max_samples = max_samples

    def case(self, key, nontrivial=True, sample=None):
        self.evaluations += 1
        if nontrivial:
            self.distinct.add(key)
        if sample is not None and len(self.samples) < self.max_samples:
            self.samples.append(sample)

    def fail(self, message, inp, classes=()):
        if len(self.failures) < self.max_failures:
            self.failures.append({"message": message, "input": inp, "classes": list(classes)})

    @property
    def full(self):
        return len(self.failures) >= self.max_failures

    def result(self, **extra):
        d = {
            "evaluations": self.evaluations,
            "distinct_nontrivial": len(self.distinct),
            "rule": self.rule,
            "samples": self.samples,
            "failures": self.failures,
        }
        d.update(extra)
        return d


def row_from(spec):
    """('F', name, start, end, strand[, tags]) or ('G', length[, type]) -> row object"""
    if spec[0] == "G":
        return Gap(spec[1], spec[2] if len(spec) > 2 else "scaffold")
    return Fragment(spec[1], spec[2], spec[3], spec[4], tuple(spec[5]) if len(spec) > 5 else ())


def row_spec(row):
    if isinstance(row, Gap):
        return ["G", row.length, row.gap_type]
    return ["F", row.name, row.start, row.end, row.strand, list(row.tags)]


def scaffold_from(name, specs):
    return Scaffold(name, [row_from(s) for s in specs])


def agp_text(asm):
    from tola.assembly.format import format_agp

    out = io.StringIO()
    format_agp(asm, out)
    return out.getvalue()
