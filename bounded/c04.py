"""
C04 bounded tier: index_fasta_file() / FastaIndex over enumerated small well-formed FASTA files for every
buffer size 1..(longest record + 2), against the pure-Python model of bounded/fasta_gen.py:

  * faidx quintuple per record (name, residue count, offset of first residue, residues per full line, bytes
    per full line including its terminator), in file order, also as written to <fasta>.fai
  * random access: FastaIndex.sequence_bytes over every interval of every small record and get_fasta_seq
    return exactly those residues
  * derived assembly: each record tiled completely and in order, maximal ACGT runs -> forward fragments with
    1-based inclusive coordinates, other maximal runs -> gaps of the same length
  * streaming the derived assembly back (FastaStream.write_assembly) reproduces every record with only
    non-ACGT symbols replaced by N
  * duplicate record names and files without records raise

Records without residues (a header line directly followed by the next header line or by the end of the file;
`samtools faidx` lists them with length 0).  Such a file is well formed in the sense of the statement (every
record trivially has a uniform line width), so the clauses are read for them as follows:

  * indexing lists the record, in file order, with residue count 0 and the offset at which its first residue
    would stand: the byte after its header line (= end of file when the header is the unterminated last line).
    The record has no line, hence columns four and five are not determined by the file and are not judged.
  * the index entry of every record of the file can be looked up by name (FastaIndex.get_info), also for an
    empty record: an entry that is listed in the index / .fai is not "missing".
  * the derived assembly returned by index_fasta_file has one scaffold per record in file order; the tiling
    of an empty record is empty, i.e. its scaffold has no rows; streaming that assembly back reproduces the
    record as a header without sequence lines.
  * a name that occurs twice is a duplicate record name whether or not one or both copies are empty: the
    file must be rejected.
  * fetching the whole of an empty record (get_fasta_seq) returns a sequence of no residues, and the assembly
    *reloaded from the .agp cache* has the same scaffolds as the one just built, rowless ones included, in
    file order (AGP has no line for an object without rows; both were defects of the pinned tree - a
    ZeroDivisionError and a record silently missing after a warm load - repaired in /repo).

Header lines.  A FASTA file is a byte string: the name of a record (first column of the quintuple) is what
stands between '>' and the first ASCII white-space byte (space, TAB, VT, FF, or the line terminator - the
isspace() of `samtools faidx`); what follows on the line is a free-form description that only has to be free
of line terminators - it need not be UTF-8 or text at all.  Non-ASCII white space (U+00A0, U+0085, U+2003,
..) and the C0 separators 0x1C-0x1F are not white space of a byte-oriented format and belong to the name.
Every printable non-space ASCII character ('#' of PanSN names, ':', '|', '=', quotes, brackets ..) may occur
anywhere in a name, and none of the clauses depends on how a record is called: quintuple, random access,
tiling and streaming back hold for such files exactly as for `>s1`, on the first (cold) load *and* on the
load that finds the .fai/.agp pair written by the first one (warm).  (Names containing non-ASCII white space
or 0x1C-0x1F could not be loaded warm on the pinned tree - load_index cut the .fai line at them - repaired in
/repo.)

White space between '>' and the name (`> ctg1 description`, `>\tctg1`: written by some older tools, and the indexer
documents it as allowed) is not part of the name and not a name of its own: the name is the first token of the
header line behind '>' that is delimited by ASCII white space, so such a record is called `ctg1`, and every clause
holds for the file exactly as for `>ctg1 description` (the byte offset of the first residue counts the extra bytes
of the header line).  `> x` and `>x` in one file are two records of the same name: the file must be rejected.

Very long lines.  "Uniform line width within a record" puts no upper limit on the width: assemblers that do not wrap
their output write each record on one line of megabytes ("unwrapped" FASTA).  Columns four and five are then the
length of that line (without / with its terminator), whatever its size, and random access beyond any power-of-two
distance into the line returns the residues that stand there.  Such files are generated from a recipe (record
length, seed of the residue string, positions of the non-ACGT runs) so that a failing input stays small; the
sizes are kept at 1-2.5 MB per file (one file in the quick tier).

Known finding "c04-record-name-hash" (recorded in /verif/known_findings.json, not repaired): a record whose name
STARTS with '#' is written to the .agp cache as a line that the AGP reader takes for a comment, so the assembly
loaded warm lacks the scaffold of that record (and streaming it back omits the record).  A failure carries that
class only if the file has such a record (with residues) and what is wrong is exactly that: the scaffolds of the
warm assembly / the records streamed back from it are the file's records without the '#'-named ones, in order,
each of the remaining ones correct.  Everything else observed on such a file (cold load, index rows, .fai, random
access, tilings of the other records, any other set or order of scaffolds) is judged as usual and unclassified,
and an unclassified failure of a file is reported in preference to a classified one.
"""

import functools
import io
import itertools
import locale
import os
import pathlib
import random

from tola.assembly.fragment import Fragment
from tola.assembly.gap import Gap
from tola.fasta.index import FastaIndex, index_fasta_file
from tola.fasta.stream import FastaStream

from . import fasta_gen as G
from .common import Collector

SMALL = 14  # records up to this length get every interval fetched
FAR_POINTS = (8192, 65536, 131072, 1 << 20, 3 << 19, 1 << 21)
KNOWN_HASH = "c04-record-name-hash"
MAX_KNOWN = 4  # failures of a known class kept in the failure list


class Msg(str):
    """a failure message that belongs to a known class"""

    classes = ()


def known_hash(text):
    m = Msg(text)
    m.classes = (KNOWN_HASH,)
    return m


def hash_lost(case):
    """names of the records the known finding loses on the warm load: name starts with '#', record has residues"""
    return [r.name for r in case.records if r.name.startswith("#") and r.seq]


def pick(msgs):
    """the message to report for a file: the first unclassified one, else the first"""
    return next((m for m in msgs if not getattr(m, "classes", ())), msgs[0])

# ----------------------------------------------------------------------------------------------------------
# header-line variety (names, separators, descriptions) - all from the reading of the statement given above

PRINTABLE = [chr(c) for c in range(0x21, 0x7F)]  # every printable non-space ASCII character
SEPARATORS = (b" ", b"\t", b"\x0b", b"\x0c", b"  ", b" \t", b"\t ", b"\x0c\x0b ")  # ASCII white space other than CR / LF
ANY_BYTES = bytes(b for b in range(256) if b not in (10, 13))  # every byte a description may hold
DESC_BODIES = (
    b"isolate St\xe9nop\xe9",  # ISO-8859-1 text
    ANY_BYTES,
    b"\xff\xfe\x00d",
    b"truncated UTF-8 \xc3",
    b"\xe2\x80",
    b"\x80\x85\xa0 \xa0",
    "espace\u00a0ins\u00e9cable\u2003\u67d3\u8272\u4f53".encode(),  # valid UTF-8, non-ASCII white space
    b">not a header",
    b"# not a comment",
    b"a\x00b\x1c\x1d\x1e\x1f\x7f",
    b"len=7 [organism=X y] \"q\" 'q' a|b;c:d",
    b"\x1b[31mred\x1b[0m",
    b"",  # separator(s) only
)
REAL_NAMES = (
    "HG002#1#ctg000010", "HG002#2#ctg000010", "HG002#1#ctg000011", "x#", "a##b",
    "sp|P12345|X_Y", "gi|1|ref|NC_1.1|", "chr1:100-200", "chr1:100-201", "ctg=1;x", "a,b", "scaffold_1/1", "x%20y",
    "a\\b", "'q'", '"q"', "a`b", "{x}", "[x]", "(x)", "x*", "x?", "~x", "x@y", "x$", "x&y", "x!", "x+y", "x^y", "<x>", ">x",
    "".join(PRINTABLE),  # all of them at once
)  # fmt: skip
UTF8_NAMES = ("\u00e01", "\u00c5x", "\u2026", "ctg_\u00e9", "\u67d3\u8272\u4f531", "\u03a9mega", "x\u0300", "a\x00b", "c\x7fd", "e\x01f", "g\x1bh")
# non-ASCII white space and C0 separators inside a name (part of the name: not ASCII white space); in pairs that
# differ only behind that character (str.split() would cut them: the .fai / .agp readers must not)
SPACED_NAMES = tuple(f"chr{c}{k}" for c in "\u00a0\u2003\u0085\x1c\x1d\x1e\x1f\u3000\u2028\u1680\u2009\u205f" for k in (1, 2))
HASH_FIRST_NAMES = ("#x", "#1#a", "##", "#")
UTF8_IO = locale.getpreferredencoding(False).lower().replace("-", "").replace("_", "") == "utf8"


def cacheable(name):
    """
    may this name go through the cold-then-warm route?  Non-ASCII names only where the cache files are written
    as UTF-8; names starting with '#' go there in files of their own (known finding, see hash_files)
    """
    if name.startswith("#"):
        return False
    return UTF8_IO or name.isascii()


def plain_header(r):
    return r.name.isascii() and r.name.replace("_", "").replace(".", "").isalnum() and all(32 <= b < 127 or b == 9 for b in r.desc)


def header_note(case):
    """the header lines, appended to a failure message when they are not of the plain `>s1 desc` kind"""
    leads = getattr(case, "leads", None) or [b""] * len(case.records)
    if all(plain_header(r) for r in case.records) and not any(leads):
        return ""
    return "  [header lines: " + ", ".join(repr(b">" + ld + r.name.encode() + r.desc)[1:] for r, ld in zip(case.records, leads))[:400] + "]"


def header_names(quick):
    """names for the header family -> (cacheable names, names only indexed directly, names starting with '#')"""
    names = list(REAL_NAMES) + list(UTF8_NAMES)
    for c in PRINTABLE:
        names.append(f"a{c}b")
        if not quick or not c.isalnum():
            names += [f"a{c}", f"{c}a", c, c + c, f"{c}1{c}"]
    names += list(SPACED_NAMES) + list(HASH_FIRST_NAMES)
    warm, direct, hashed = [], [], []
    for nm in dict.fromkeys(names):
        (hashed if nm.startswith("#") else warm if cacheable(nm) else direct).append(nm)
    return warm, direct, hashed


LEADS = (b" ", b"\t", b"  ", b" \t", b"\x0b", b"\x0c", b"\t\x0c ")  # ASCII white space between '>' and the name

KI, MI = 1 << 10, 1 << 20


def long_files(quick):
    """
    -> (recipe, line width, eol, final newline, buffer sizes) of files with very long lines; widths beyond the longest
    record mean "unwrapped": every record on one line.  Sizes: no file above 2.5 MB
    """
    unwrapped = 4 * MI
    small = lambda nm, n, sd: [nm, n, sd, [[n // 3, 7]] if n > 30 else [], " single line record"]  # noqa: E731

    def runs(n, *marks):
        """non-ACGT runs at the marked distances - ending exactly there, crossing it, starting exactly there, in turn - and one at the very end"""
        out = []
        for i, m in enumerate(marks):
            if 400 < m and m + 40 < n:
                out.append([[m - 60, 60], [m - 9, 21], [m, 33]][i % 3])
        return [*sorted(out), [n - 5, 5]]

    n1 = MI + 128 * KI + 5
    # the one file of the quick tier: an unwrapped assembly, the long record between two short ones; its runs
    # cross the 1 MiB distance, and end exactly at / start shortly behind the 64 KiB distance
    yield [small("short_1", 500, 1), ["unwrapped_long", n1, 2, [[64 * KI - 60, 60], [64 * KI + 20, 10], [MI - 9, 21], [n1 - 5, 5]], " single line record"], small("short_2", 77, 3)], unwrapped, b"\n", True, [250_000]
    if quick:
        return
    sd = 10
    # unwrapped records around each distance (exactly the distance, one less, one more, well beyond)
    for base, deltas in ((8 * KI, (-1, 0, 1, 1234)), (64 * KI, (-1, 0, 1, 4321)), (MI, (-2, -1, 0, 1, 2, 300_007)), (2 * MI, (-1, 0, 1, 200_003))):
        for dl in deltas:
            n = base + dl
            for eol, fin in ((b"\n", True), (b"\r\n", True), (b"\n", False)) if base < MI or dl in (1, 300_007) else ((b"\n", True),):
                sd += 1
                recs = [small("a", 61, sd), ["long", n, sd, runs(n, 8 * KI, 64 * KI + 1, MI, 2 * MI + 1), ""], small("z", 9, sd + 1)]
                if not fin:
                    recs = recs[:2] if sd % 2 else recs  # the long line as the unterminated last line / a short one after it
                yield recs, unwrapped, eol, fin, [250_000] if base >= MI else [1, 250_000, 3 * MI]
    # the long record first / last / the only one; two long records in one file; CRLF
    n = MI + 70_001
    for recs in (
        [["long", n, 40, runs(n, MI), " d"], small("z", 100, 41)],
        [small("a", 100, 42), ["long", n, 43, runs(n, MI + 1), "\tx"]],
        [["only", n, 44, runs(n, 64 * KI, MI), ""]],
        [["l1", n, 45, [[0, 12], [MI - 1, 1]], ""], ["l2", n - 3, 46, [[MI, n - 3 - MI]], " tail of N"]],
    ):
        for eol in (b"\n", b"\r\n"):
            yield recs, unwrapped, eol, True, [250_000, 3 * MI]
    # wrapped records whose line width is beyond the distance: two full lines and a part, an exact multiple
    for w, n in ((MI + 17, 2 * (MI + 17) + 99_991), (MI + 1, 2 * (MI + 1)), (64 * KI + 3, 5 * (64 * KI + 3) + 11), (8 * KI + 1, 40 * (8 * KI + 1))):
        for eol, fin in ((b"\n", True), (b"\r\n", False)):
            sd += 1
            yield [small("a", 61, sd), ["wide", n, sd, runs(n, 64 * KI, w, 2 * w + 1), " wrapped"], small("z", 9, sd + 1)], w, eol, fin, [250_000]


class Case(G.FastaCase):
    """
    FastaCase with two additions:
      * "no final newline" also covers a last record without residues: then the last line of the file is that
        record's header and it is the header that lacks its terminator (fasta_gen's renderer only ever leaves
        the terminator off a sequence line)
      * leads: per record, ASCII white space written between '>' and the name (b"" = none)
    and, for files with very long lines, the recipe the records were made from (spec() then records the recipe
    in place of megabytes of residues)
    """

    def __init__(self, records, width, eol=b"\n", final_newline=True, leads=None, recipe=None):
        super().__init__(records, width, eol, final_newline)
        self.leads = [bytes(x) for x in leads] if leads else [b""] * len(self.records)
        self.recipe = recipe

    def spec(self):
        if self.recipe is None:
            d = super().spec()
        else:
            d = {"long": self.recipe, "width": self.width, "eol": "CRLF" if self.eol == b"\r\n" else "LF", "final_newline": self.final_newline}
        if any(self.leads):
            d["leads"] = [x.decode("latin-1") for x in self.leads]
        return d

    @classmethod
    def from_spec(cls, d):
        if "long" in d:
            records = [G.Rec(nm, long_seq(n, sd, gaps), desc.encode("latin-1")) for nm, n, sd, gaps, desc in d["long"]]
            case = cls(records, d["width"], b"\r\n" if d["eol"] == "CRLF" else b"\n", d["final_newline"], recipe=d["long"])
        else:
            case = super().from_spec(d)
        if d.get("leads"):
            case.leads = [x.encode("latin-1") for x in d["leads"]]
        return case

    def key(self):
        if self.recipe is not None:
            return ("long", repr(self.recipe), self.width, self.eol, self.final_newline, tuple(self.leads))
        return super().key() + ((tuple(self.leads),) if any(self.leads) else ())

    def render(self):
        data, layout = super().render()
        if any(self.leads):
            # put the white space behind each '>' and move the offsets of the residues along
            out = bytearray()
            prev = shift = 0
            for r, lead, lay in zip(self.records, self.leads, layout):
                after_gt = lay["offset"] - len(r.name.encode() + r.desc + self.eol)
                out += data[prev:after_gt] + lead
                prev = after_gt
                shift += len(lead)
                lay["offset"] += shift
            data = bytes(out + data[prev:])
        if self.records and not self.records[-1].seq and not self.final_newline:
            data = data[: -len(self.eol)]
            layout[-1]["offset"] = len(data)
        return data, layout


# residue strings of megabytes, from a recipe: pseudo-random (hence aperiodic: a shift by any number of bytes shows)
# ACGTacgt from a seed, with non-ACGT runs laid over it at the given 0-based positions
ACGT_TABLE = bytes(b"ACGTacgtACGTACGT"[i % 16] for i in range(256))
OTHER_FILL = b"NnNNRYKMnrykSWBDHVNNNnnN"


@functools.lru_cache(maxsize=4)
def _long_seq(n, seed, gaps):
    seq = bytearray(random.Random(f"c04-long-{seed}").randbytes(n).translate(ACGT_TABLE))
    for start, ln in gaps:
        seq[start : start + ln] = (OTHER_FILL * (ln // len(OTHER_FILL) + 1))[:ln]
    assert len(seq) == n
    return bytes(seq)


def long_seq(n, seed, gaps):
    return _long_seq(n, seed, tuple((a, b) for a, b in gaps))


def long_case(recipe, width, eol=b"\n", final_newline=True):
    """recipe: [[name, residue count, seed, [[0-based start, length] of each non-ACGT run], description (latin-1 str)]]"""
    return Case.from_spec({"long": recipe, "width": width, "eol": "CRLF" if eol == b"\r\n" else "LF", "final_newline": final_newline})


BIG = 50_000  # the per-residue oracles of records longer than this are computed once per residue string


@functools.lru_cache(maxsize=6)
def _tiling_big(seq):
    return G.tiling(seq)


@functools.lru_cache(maxsize=6)
def _masked_big(seq):
    return G.masked(seq)


def tiling_of(seq):
    return _tiling_big(seq) if len(seq) > BIG else G.tiling(seq)


def masked_of(seq):
    return _masked_big(seq) if len(seq) > BIG else G.masked(seq)


def as_case(case, leads=None):
    return Case(case.records, case.width, case.eol, case.final_newline, leads=leads)


def short(e):
    r = repr(e)
    return r if len(r) <= 200 else r[:200] + "...)"


def close_index(fi):
    fh = fi.__dict__.pop("fasta_fileandle", None)
    if fh is not None:
        fh.close()


def rows_of(scaffold):
    out = []
    for row in scaffold.rows:
        if isinstance(row, Gap):
            out.append(("G", row.length))
        elif isinstance(row, Fragment):
            out.append(("F", row.name, row.start, row.end, row.strand))
        else:
            out.append(("?", repr(row)))
    return out


def check_index(case, layout, idx, asm, what, reloaded=False):
    """
    index + derived assembly against the model; returns messages.  reloaded: the assembly was read back from
    the .agp cache (judged exactly like the one just built)
    """
    msgs = []
    got_names = list(idx)
    want_names = [r.name for r in case.records]
    if got_names != want_names:
        return [f"{what}: indexed names {got_names} != record names {want_names}"]
    for lay in layout:
        info = idx[lay["name"]]
        got = (info.length, info.file_offset, info.residues_per_line, info.max_line_length)
        want = (lay["length"], lay["offset"], lay["line_residues"], lay["line_bytes"])
        ok = got == want
        if lay["length"] == 0:
            # a record without residues has no line: only residue count and offset are determined by the file
            ok = got[:2] == want[:2]
        if not ok and not lay["first_line_terminated"]:
            # the only line of this record has no terminator: the fifth column is not determined by the file
            ok = got[:3] == want[:3] and got[3] in (want[2], want[3])
        if not ok:
            msgs.append(
                f"{what}: faidx row of {lay['name']} is (length, offset, residues/line, bytes/line) = {got}, file has {want}"
            )
    sc_names = [s.name for s in asm.scaffolds]
    records, scaffolds = case.records, asm.scaffolds
    if sc_names != want_names:
        text = f"{what}: assembly scaffolds {sc_names} != record names {want_names}"
        lost = hash_lost(case)
        if not (reloaded and lost and sc_names == [n for n in want_names if n not in lost]):
            msgs.append(text)
            return msgs
        # exactly the records whose name starts with '#' are missing: the known finding; the others are judged
        msgs.append(known_hash(text + " (the scaffolds of the records whose name starts with '#' are missing after the .agp cache was read back)"))
        records = [r for r in records if r.name not in lost]
    for r, sc in zip(records, scaffolds):
        want = [("G", t[1]) if t[0] == "G" else ("F", r.name, t[1], t[2], 1) for t in tiling_of(r.seq)]
        got = rows_of(sc)
        if got != want:
            msgs.append(f"{what}: tiling of {r.name} ({r.seq.decode('latin-1')[:40]}) is {got}, maximal runs are {want}")
    return msgs


def check_stream_back(case, fi, asm, line_length, what, reloaded=False):
    out = io.BytesIO()
    try:
        FastaStream(out, fi, line_length=line_length).write_assembly(asm)
    except Exception as e:  # noqa: BLE001
        return [f"{what}: streaming the derived assembly raised {e!r}"]
    # parse_written_fasta reads header bytes as latin-1: compare the bytes of the names
    want = [(r.name.encode().decode("latin-1"), masked_of(r.seq)) for r in case.records]
    msgs = [f"{what}: streamed back, {m}" for m in G.compare_written_fasta(out.getvalue(), want, line_length)]
    lost = hash_lost(case)
    if msgs and reloaded and lost:
        kept = [(r.name.encode().decode("latin-1"), masked_of(r.seq)) for r in case.records if r.name not in lost]
        got_names = [h for h, _ in G.parse_written_fasta(out.getvalue())[0]]
        if got_names == [n for n, _ in kept]:
            # exactly the '#'-named records are omitted (known finding); the records written are judged
            rest = [f"{what}: streamed back, {m}" for m in G.compare_written_fasta(out.getvalue(), kept, line_length)]
            return [known_hash(msgs[0] + " (exactly the records whose name starts with '#' are omitted)")] + rest
    return msgs


def check_random_access(case, fi, what):
    msgs = []
    for r in case.records:
        try:
            info = fi.get_info(r.name)
            if info.length != len(r.seq):
                msgs.append(f"{what}: get_info({r.name}) has residue count {info.length}, record has {len(r.seq)}")
            whole = fi.get_fasta_seq(r.name)
            if whole.sequence != r.seq or whole.name != r.name:
                msgs.append(f"{what}: get_fasta_seq({r.name}) = {whole.sequence[:40]!r}, record is {r.seq[:40]!r}")
            if not r.seq:
                continue  # no interval to fetch
            n = len(r.seq)
            if n <= SMALL:
                spans = [(s, e) for s in range(1, n + 1) for e in range(s, n + 1)]
            else:
                w = case.width
                pts = {1, 2, w - 1, w, w + 1, 2 * w, 2 * w + 1, n - w, n - 1, n}
                # positions around powers of two far into a long line (read sizes of buffered / capped readers)
                pts |= {p + d for p in FAR_POINTS if p < n for d in (-1, 0, 1)}
                pts = sorted(p for p in pts if 1 <= p <= n)
                spans = [(s, e) for s in pts for e in pts if s <= e]
            for s, e in spans:
                got = fi.sequence_bytes(info, s, e).getvalue()
                if got != r.seq[s - 1 : e]:
                    msgs.append(f"{what}: residues {s}..{e} of {r.name} fetched as {got[:30]!r}, file has {r.seq[s - 1 : e][:30]!r}")
                    break
        except Exception as e:  # noqa: BLE001
            if r.seq:
                msgs.append(f"{what}: random access to {r.name} raised {e!r}")
            else:
                msgs.append(f"{what}: looking up / fetching {r.name}, a record without residues that the file contains, raised {e!r}")
    return msgs


def check_case_buffer(case, layout, path, bs, line_lengths=(60,)):
    what = f"buffer {bs}"
    try:
        idx, asm = index_fasta_file(path, bs)
    except Exception as e:  # noqa: BLE001
        return [f"{what}: index_fasta_file raised {short(e)} on a well-formed file"]
    msgs = check_index(case, layout, idx, asm, what)
    fi = FastaIndex(path, bs)
    fi.index, fi.assembly = idx, asm
    try:
        for ll in line_lengths:
            msgs += check_stream_back(case, fi, asm, ll, what)
    finally:
        close_index(fi)
    return msgs


def check_cache_and_access(case, layout, path):
    """FastaIndex.run_indexing: the .fai text, the warm reload, and random access through the index"""
    msgs = []
    pathlib.Path(str(path) + ".fai").unlink(missing_ok=True)
    pathlib.Path(str(path) + ".agp").unlink(missing_ok=True)
    fi = FastaIndex(path)
    try:
        fi.auto_load()
    except Exception as e:  # noqa: BLE001
        return [f"auto_load raised {short(e)} on a well-formed file"]
    try:
        msgs += check_index(case, layout, fi.index, fi.assembly, "auto_load")
        msgs += check_random_access(case, fi, "auto_load")
        fai_rows = [ln.split("\t") for ln in pathlib.Path(str(path) + ".fai").read_bytes().decode("utf-8", "replace").split("\n") if ln]
        want_rows = [[lay["name"], str(lay["length"]), str(lay["offset"]), str(lay["line_residues"])][: 4 if lay["length"] else 3] for lay in layout]
        if [r[: len(w)] for r, w in zip(fai_rows, want_rows)] != want_rows or len(fai_rows) != len(want_rows) or any(len(r) != 5 for r in fai_rows):
            msgs.append(f".fai rows {fai_rows} do not match (name, length, offset, residues/line) {want_rows}")
    finally:
        close_index(fi)
    # warm: make the FASTA look older than its cache so that the cache is what gets loaded
    st = path.stat()
    os.utime(path, (st.st_atime - 100, st.st_mtime - 100))
    # (records of megabytes are streamed back in pieces of 65537 residues, not of 3)
    fi2 = FastaIndex(path, 3 if max(len(r.seq) for r in case.records) <= BIG else 65_537)
    try:
        fi2.auto_load()
        msgs += check_index(case, layout, fi2.index, fi2.assembly, "cached index", reloaded=True)
        msgs += check_random_access(case, fi2, "cached index")
        msgs += check_stream_back(case, fi2, fi2.assembly, case.width, "cached index", reloaded=True)
    except Exception as e:  # noqa: BLE001
        msgs.append(f"loading the cached index (.fai/.agp written by the first load of this well-formed file) raised {short(e)}")
    finally:
        close_index(fi2)
    return msgs


# ---- the cache route across versions of the file: "the derived assembly / the index" are those of the bytes the file
# holds NOW.  History: the file is indexed (cache files written), then replaced by other content, then one of the two
# cache files is brought up to date by another tool (`samtools faidx` writes exactly <fasta>.fai; an AGP of the new
# content saved as <fasta>.agp) - or neither is - and the file is loaded again.  Time stamps follow the history:
# old cache files < FASTA < refreshed file (all distinct, set with os.utime).
HISTORY_T0 = 1_700_000_000


def fai_text(layout):
    """the faidx lines of a rendered case, written here from its layout"""
    return "".join(f"{lay['name']}\t{lay['length']}\t{lay['offset']}\t{lay['line_residues']}\t{lay['line_bytes']}\n" for lay in layout)


def agp_text(case):
    """an AGP of the maximal-run tiling of each record, written here"""
    lines = []
    for r in case.records:
        p = 0
        for i, t in enumerate(tiling_of(r.seq), 1):
            if t[0] == "G":
                lines.append(f"{r.name}\t{p + 1}\t{p + t[1]}\t{i}\tU\t{t[1]}\tscaffold\tyes\tproximity_ligation")
                p += t[1]
            else:
                lines.append(f"{r.name}\t{t[1]}\t{t[2]}\t{i}\tW\t{r.name}\t{t[1]}\t{t[2]}\t+")
                p = t[2]
    return "\n".join(lines) + "\n"


def check_replaced(old, case, path, refreshed):
    """old, case: the file's earlier and present content; refreshed: "fai" | "agp" | "none" -> messages"""
    fai, agp = pathlib.Path(str(path) + ".fai"), pathlib.Path(str(path) + ".agp")
    for f in (fai, agp):
        f.unlink(missing_ok=True)
    old.write(path)
    fi = FastaIndex(path)
    try:
        fi.auto_load()
    except Exception as e:  # noqa: BLE001
        return [f"auto_load raised {short(e)} on the earlier, well-formed version of the file"]
    finally:
        close_index(fi)
    for f in (fai, agp):
        os.utime(f, (HISTORY_T0, HISTORY_T0))
    layout = case.write(path)
    os.utime(path, (HISTORY_T0 + 10, HISTORY_T0 + 10))
    if refreshed == "fai":
        fai.write_text(fai_text(layout))
        os.utime(fai, (HISTORY_T0 + 20, HISTORY_T0 + 20))
    elif refreshed == "agp":
        agp.write_text(agp_text(case))
        os.utime(agp, (HISTORY_T0 + 20, HISTORY_T0 + 20))
    left = {"fai": "its .fai rewritten for the new content (newer than the file), the .agp left from the old content (older than the file)",
            "agp": "its .agp rewritten for the new content (newer than the file), the .fai left from the old content (older than the file)",
            "none": "both cache files left from the old content (older than the file)"}[refreshed]  # fmt: skip
    what = f"file indexed, then replaced by other content, {left}, then loaded"
    fi2 = FastaIndex(path, 3)
    try:
        fi2.auto_load()
        msgs = check_index(case, layout, fi2.index, fi2.assembly, what)
        msgs += check_random_access(case, fi2, what)
        if not msgs:
            msgs += check_stream_back(case, fi2, fi2.assembly, case.width, what)
    except Exception as e:  # noqa: BLE001
        msgs = [f"{what}: raised {short(e)} on a well-formed file"]
    finally:
        close_index(fi2)
    return [m + " - the index / derived assembly handed out is not that of the present content of the file" for m in msgs]


def replaced_pairs(quick, rng):
    """(earlier content, present content) of one file name"""
    R = G.Rec
    pairs = [
        # same names, other lengths and runs
        (G.FastaCase([R("s1", b"ACGTACGTNNNNACGTACGTAC"), R("s2", b"ttgcaNacg", b" d")], 5, b"\n", True), G.FastaCase([R("s1", b"ACGTNNACGTAC"), R("s2", b"ttgcaacgGGCCNNNNNA", b" d")], 5, b"\n", True)),
        # same names, same lengths, same line width: only the runs lie elsewhere
        (G.FastaCase([R("s1", b"ACGTACGTNNNNACGTACGTAC"), R("s2", b"NNtgcaacg")], 4, b"\n", True), G.FastaCase([R("s1", b"ACGTNNNNACGTACGTACGTAC"), R("s2", b"ttgcaacNN")], 4, b"\n", True)),
        # same residues, other line width and terminator (the .agp would still fit, the .fai would not)
        (G.FastaCase([R("s1", b"ACGTACGTNNNNACGTACGTAC"), R("s2", b"tgNca")], 60, b"\n", True), G.FastaCase([R("s1", b"ACGTACGTNNNNACGTACGTAC"), R("s2", b"tgNca")], 7, b"\r\n", True)),
        # a record more / a record fewer / other names
        (G.FastaCase([R("s1", b"ACGTNNACGT")], 3, b"\n", True), G.FastaCase([R("s1", b"ACGTNNACGT"), R("s2", b"GGNNNCC")], 3, b"\n", False)),
        (G.FastaCase([R("a", b"ACGTNNACGT"), R("b", b"GGNNNCC"), R("c", b"nnACGT")], 4, b"\r\n", True), G.FastaCase([R("b", b"GGNNNCCA"), R("a", b"ACGTNACGT")], 4, b"\r\n", True)),
        (G.FastaCase([R("old1", b"ACGTACGTAC"), R("old2", b"ACNNNGT")], 60, b"\n", True), G.FastaCase([R("new1", b"NACGTACGTA"), R("new2", b"ACGT"), R("new3", b"TTNAA")], 2, b"\n", True)),
    ]
    for _ in range(0 if quick else 400):
        a, b = G.random_case(rng, max_len=120), G.random_case(rng, max_len=120)
        if rng.random() < 0.5:  # same layout, same names as far as they go
            b = G.FastaCase(b.records, a.width, a.eol, a.final_newline)
        pairs.append((a, b))
    return pairs


def why_rejected(data):
    """the reason the statement gives for rejecting these bytes, from a line-by-line reading of them"""
    names, lengths = [], []
    for ln in data.replace(b"\r\n", b"\n").split(b"\n"):
        if ln.startswith(b">"):
            names.append(ln[1:].split()[0].decode("latin-1") if ln[1:].split() else "")
            lengths.append(0)
        elif lengths:
            lengths[-1] += len(ln)
    if not names:
        return "a file without records"
    for i, nm in enumerate(names):
        if nm in names[:i]:
            copies = [lengths[j] for j, x in enumerate(names) if x == nm]
            return f"a file with {len(copies)} records named {nm!r} (residue counts {copies}: duplicate record name)"
    return "a malformed file"


def check_rejected(data, path):
    path.write_bytes(data)
    try:
        for bs in (1, 3, 250_000):
            try:
                index_fasta_file(path, bs)
            except Exception:  # noqa: BLE001
                continue
            return f"index_fasta_file(buffer {bs}) accepted {why_rejected(data)}, which must be rejected with an error"
        return None
    finally:
        G.remove_with_caches(path)


def replay(inp):
    with G.quiet_logging(), G.workdir() as d:
        path = d / "r.fa"
        if inp["kind"] == "reject":
            return check_rejected(inp["data"].encode("latin-1"), path)
        case = Case.from_spec(inp["case"])
        layout = case.write(path)
        if inp["kind"] == "replaced":
            msgs = check_replaced(Case.from_spec(inp["old"]), case, path, inp["refreshed"])
            G.remove_with_caches(path)
        elif inp["kind"] == "cache":
            msgs = check_cache_and_access(case, layout, path)
        else:
            msgs = check_case_buffer(case, layout, path, inp["buffer"], line_lengths=(60,) if case.recipe else (60, case.width))
        return pick(msgs) + header_note(case) if msgs else None


def nontrivial(case):
    return any(len(r.seq) > case.width or len(tiling_of(r.seq)) > 1 or not r.seq for r in case.records)


def run_case(case, col, path, buffers, sample=False, cache=True, first_only=False, line_lengths=None):
    layout = case.write(path)
    try:
        spec = None
        nt = nontrivial(case)
        key = case.key()
        for bs in buffers:
            msgs = check_case_buffer(case, layout, path, bs, line_lengths=line_lengths or ((60, case.width) if bs % 3 == 1 else (60,)))
            if msgs and not (first_only and spec):
                spec = spec or case.spec()
                col.fail(msgs[0] + header_note(case), {"kind": "index", "case": spec, "buffer": bs})
            col.case((key, bs), nontrivial=nt, sample={"kind": "index", "case": case.spec(), "buffer": bs} if sample and bs == 2 else None)
        if cache:
            msgs = check_cache_and_access(case, layout, path)
            if msgs and not (first_only and spec):
                m = pick(msgs)
                classes = getattr(m, "classes", ())
                # a known class is recorded a few times only: it must not crowd other failures out of the list
                if not classes or sum(1 for f in col.failures if f["classes"]) < MAX_KNOWN:
                    col.fail(m + header_note(case), {"kind": "cache", "case": case.spec()}, classes=classes)
            col.case((key, "cache"), nontrivial=nt)
    finally:
        G.remove_with_caches(path)


def run(tier, seed, **opts):
    rng = random.Random(seed)
    quick = tier == "quick"
    max_mask = 7 if quick else 10
    max_letters = 3 if quick else 5
    n_random = 150 if quick else 4000
    col = Collector(
        "FASTA files rendered from a model (1-3 records; residue strings = every ACGT/other mask up to "
        f"{max_mask} residues filled from aperiodic letter strings, every string over AcGtNnR up to {max_letters}, "
        "random longer ones with runs ending on line boundaries) x line widths 1..5,60 x LF/CRLF x final newline "
        "present/absent x descriptions, each indexed with every buffer size 1..longest record+2 and 250000; files of "
        "1-3 records in which every non-empty subset of the records has no residues (header directly followed by "
        "the next header or by end of file, terminated or not) and random files with such records; "
        "files whose header lines vary as bytes (names with every printable non-space ASCII character in the middle / at "
        "the end / at the start, PanSN and other '#', '|', ':' names, UTF-8 and control-byte names, names with "
        "non-ASCII white space or 0x1C-0x1F, names starting with '#'; every ASCII white-space separator; descriptions holding every "
        "byte value but CR/LF; ASCII white space between '>' and the name of the first / a middle / the last / every record), "
        "each with a cold-then-warm load through the .fai/.agp cache; files with lines of more than 8 KiB / 64 KiB / 1 MiB / 2 MiB "
        "(unwrapped records and wide wrapped ones, made from a recipe; one such file in the quick tier); "
        "histories of one file name: indexed, replaced by other content (other lengths / only other runs / only another layout / records "
        "added, dropped, renamed; thorough: random pairs), then the .fai alone, the .agp alone or neither rewritten for the new content "
        "(time stamps in the order of the events), then loaded: index, tiling, random access and stream-back judged against the present content; "
        "one evaluation = one (file, buffer) or (file, cache round trip); non-trivial = distinct (file, buffer) "
        "whose file has a record of more than one line, more than one run, or no residues"
    )
    with G.quiet_logging(), G.workdir() as d:
        path = d / "t.fa"
        n = 0
        # 1. every mask, every layout, single record and the same record between two fixed neighbours
        for bits in G.masks(max_mask):
            seq = G.seq_from_mask(bits, shift=n)
            for w, eol, fin in G.layouts():
                n += 1
                desc = G.DESCRIPTIONS[n % len(G.DESCRIPTIONS)]
                recs = [G.Rec("s1", seq, desc)]
                if n % 4 == 0:
                    recs = [G.Rec("p", b"acNGt", b" first")] + recs + [G.Rec("q.2", b"NtG")]
                elif n % 4 == 2:
                    recs = recs + [G.Rec("s2", G.seq_from_mask(bits[::-1], shift=n + 3))]
                case = G.FastaCase(recs, w, eol, fin)
                longest = max(len(r.seq) for r in recs)
                run_case(case, col, path, [*range(1, longest + 3), 250_000], sample=n in (200, 1201), cache=n % 3 == 0)
                if col.full:
                    break
            if col.full:
                break
        # 2. every letter string over the small alphabet
        for k, seq in enumerate(G.letter_strings(max_letters)):
            if col.full:
                break
            lays = list(G.layouts((1, 2, 3)))
            w, eol, fin = lays[k % len(lays)]
            case = G.FastaCase([G.Rec("s1", seq)], w, eol, fin)
            run_case(case, col, path, range(1, len(seq) + 2), cache=False)
        # 3. random longer files, interesting buffer sizes
        for k in range(n_random):
            if col.full:
                break
            case = G.random_case(rng, max_len=120 if quick else 400)
            bufs = G.interesting_buffers(case)
            if quick and len(bufs) > 14:
                bufs = sorted(rng.sample(bufs, 14))
            run_case(case, col, path, bufs, sample=k == 0, cache=k % 4 == 0)
        # 4. records without residues, in every position (first / middle / last / all), beside one-line, multi-line
        #    and N-only neighbours, every layout (so also: header as the unterminated last line of the file)
        n_empty_random = 40 if quick else 1500
        room = len(col.failures) + 8  # leave room in the failure list for the families below
        crowded = lambda: col.full or len(col.failures) >= room  # noqa: E731
        fillers = [b"acNGt", b"NtGACGTAcgtnnAC", b"NNN"] if quick else [b"acNGt", b"NtGACGTAcgtnnAC", b"NNN", b"A", b"ACGTACGTAC", b"nACGTACGTACg"]
        k = 0
        for nrec in (1, 2, 3):
            for pattern in itertools.product((True, False), repeat=nrec):  # True = this record is empty
                if not any(pattern) or crowded():
                    continue
                for w, eol, fin in G.layouts((1, 3, 60) if quick else (1, 2, 3, 4, 5, 60)):
                    for f0 in range(1 if quick else len(fillers)):
                        k += 1
                        recs = [
                            G.Rec(f"e{i + 1}" if e else f"s{i + 1}", b"" if e else fillers[(f0 + i + k) % len(fillers)], G.DESCRIPTIONS[(k + i) % len(G.DESCRIPTIONS)])
                            for i, e in enumerate(pattern)
                        ]
                        case = Case(recs, w, eol, fin)
                        longest = max(len(r.seq) for r in recs)
                        run_case(case, col, path, [*range(1, min(longest, 6) + 3), 250_000], sample=k == 30, cache=True)
        for k in range(n_empty_random):
            if crowded():
                break
            case = as_case(G.random_case(rng, max_records=4, max_len=60 if quick else 200))
            hit = False
            for r in case.records:
                if rng.random() < 0.4:
                    r.seq = b""
                    hit = True
            if not hit:
                rng.choice(case.records).seq = b""
            bufs = G.interesting_buffers(case)
            if len(bufs) > 10:
                bufs = sorted(rng.sample(bufs, 10))
            run_case(case, col, path, bufs, cache=k % 2 == 0)
        # 6. header lines as bytes, each class of variety on its own first (so that a failure names one cause):
        #    a. names with every printable non-space ASCII character in every position (PanSN '#', '|', ':', ..),
        #       UTF-8 and control bytes in names - behind plain ASCII descriptions
        #    b. every ASCII white-space separator between name and description, descriptions of arbitrary bytes
        #       (every byte value but CR / LF; not UTF-8) - behind plain names
        #    c. both together
        #    with a cold-then-warm load of every such file whose names the cache route is known to carry
        warm_names, direct_names, hash_names = header_names(quick)
        seqs6 = [b"acNGt", b"NtGACGTAcgtnnAC", b"ACGTACGTAC", b"", b"NNN", b"nACGTACGTACg"]
        lays6 = list(G.layouts((1, 3, 60) if quick else (1, 2, 3, 4, 5, 60)))
        ascii_descs = [*G.DESCRIPTIONS, b"\x0bd", b"\x0cd e", b"  two blanks", b" \t"]
        descs6 = [sep + body for body in DESC_BODIES for sep in (SEPARATORS[:4] if quick else SEPARATORS)]
        if quick:
            descs6 = descs6[::2] + descs6[1::2]
        k = 0

        def allowance(n):
            limit = len(col.failures) + n
            return lambda: col.full or len(col.failures) >= limit

        def header_file(names, descs, cache, sample=False, lays=None):
            nonlocal k
            for w, eol, fin in lays or [lays6[k % len(lays6)]]:
                k += 1
                recs = [G.Rec(nm, seqs6[(k + i) % len(seqs6)], descs[(3 * k + i) % len(descs)]) for i, nm in enumerate(names)]
                case = Case(recs, w, eol, fin)
                run_case(case, col, path, [1, 2, 3, 250_000] if k % 2 else [1, 4, 250_000], sample=sample, cache=cache, first_only=True)

        # a. names that differ only behind a special character share a file (a cut name collides or mismatches)
        for names, cache in ((warm_names, True), (direct_names + hash_names, False)):
            crowded = allowance(4)
            for i in range(0, len(names), 3):
                if crowded():
                    break
                header_file(names[i : i + 3], ascii_descs, cache, sample=cache and i == 0)
        # b. every description body behind every separator
        crowded = allowance(4)
        for j in range(0, len(descs6), 2):
            if crowded():
                break
            k += 1
            w, eol, fin = lays6[k % len(lays6)]
            recs = [G.Rec(f"s{i + 1}", seqs6[(k + i) % len(seqs6)], d) for i, d in enumerate(descs6[j : j + 2])]
            run_case(Case(recs, w, eol, fin), col, path, [1, 2, 5, 250_000], sample=j == 0, cache=True, first_only=True)
        # d. records whose name starts with '#', cold-then-warm (known finding c04-record-name-hash: the only
        #    failures expected here are of that class); records with residues, alone and first / middle / last
        #    among other records
        limit_d = sum(1 for f in col.failures if not f["classes"]) + 4
        crowded = lambda: col.full or sum(1 for f in col.failures if not f["classes"]) >= limit_d  # noqa: E731
        full6 = [sq for sq in seqs6 if sq]
        groups = [["#x", "y"], ["a", "#1#a", "b#"], ["##"], ["#", "#a"], ["s1", "s2", "#HG002#1#c"]]
        if not quick:
            groups += [[h] for h in hash_names] + [["p", h] for h in hash_names] + [["p#1", h, "p#2"] for h in hash_names]
            groups += [[h, "q"] for h in hash_names] + [hash_names[i : i + 3] for i in range(0, len(hash_names), 3)]
        for gi, names in enumerate(groups):
            for w, eol, fin in lays6 if not quick and gi < 5 else [lays6[(k + 1) % len(lays6)]]:
                if crowded():
                    break
                k += 1
                recs = [G.Rec(nm, full6[(k + i) % len(full6)], ascii_descs[(k + i) % len(ascii_descs)]) for i, nm in enumerate(names)]
                run_case(Case(recs, w, eol, fin), col, path, [1, 3, 250_000], cache=True, first_only=True)
        # c. together
        crowded = allowance(3)
        pansn = [nm for nm in warm_names if "#" in nm or "|" in nm or ":" in nm or not nm.isascii()]
        for i in range(0, len(pansn) if not quick else 12, 3):
            if crowded():
                break
            header_file(pansn[i : i + 3], descs6, True)
        if not quick:
            # every single byte as the whole description and inside one, behind each plain separator
            crowded = allowance(3)
            for b in ANY_BYTES:
                if crowded():
                    break
                for sep in SEPARATORS[:4]:
                    k += 1
                    w, eol, fin = lays6[k % len(lays6)]
                    recs = [G.Rec("a#1", seqs6[k % 3], sep + bytes([b])), G.Rec("a#2", seqs6[3 + k % 3], sep + b"d" + bytes([b]) + b"e")]
                    run_case(Case(recs, w, eol, fin), col, path, [1, 3, 250_000], cache=k % 2 == 0, first_only=True)
            # the special names again in every layout
            crowded = allowance(3)
            special = REAL_NAMES + UTF8_NAMES
            for i in range(0, len(special), 3):
                if crowded():
                    break
                header_file(special[i : i + 3], ascii_descs + descs6, all(cacheable(nm) for nm in special[i : i + 3]), lays=lays6)
            spaced = [nm for nm in SPACED_NAMES if cacheable(nm)]
            for i in range(0, len(spaced), 2):
                if crowded():
                    break
                header_file(spaced[i : i + 2], ascii_descs + descs6, True, lays=lays6[::5])
            # random headers: names over printable ASCII with a bias to '#', '|', ':', descriptions of random bytes
            crowded = allowance(3)
            alphabet = PRINTABLE + list("#|:#|:._-") + list("abcXYZ019") * 3
            for i in range(1500):
                if crowded():
                    break
                case = as_case(G.random_case(rng, max_records=3, max_len=80))
                used = set()
                for r in case.records:
                    while True:
                        nm = "".join(rng.choice(alphabet) for _ in range(rng.choice((1, 2, 3, 5, 8, 17))))
                        if rng.random() < 0.2:
                            nm = rng.choice(("HG002#1#", "sp|", "chr1:")) + nm
                        if nm not in used and not nm.startswith("#"):
                            break
                    used.add(nm)
                    r.name = nm
                    if rng.random() < 0.8:
                        r.desc = rng.choice(SEPARATORS) + bytes(rng.choice(ANY_BYTES) for _ in range(rng.choice((0, 1, 2, 4, 9, 30))))
                    if rng.random() < 0.1:
                        r.seq = b""
                bufs = G.interesting_buffers(case)
                if len(bufs) > 6:
                    bufs = sorted(rng.sample(bufs, 6))
                run_case(case, col, path, bufs, cache=True, first_only=True)
        # e. white space between '>' and the name: every ASCII white-space lead, on the first / a middle / the last /
        #    every record, beside records without lead, with and without description, records without residues,
        #    names with '#', '|', ':' - each file indexed with small and large buffers and loaded cold-then-warm
        crowded = allowance(4)
        lead_names = [["ctg1"], ["s1", "s2"], ["chr1", "chr2", "chr3"], ["HG002#1#c1", "sp|P1|x"], ["a:1-2", "b", "c.1"]]
        if not quick:
            lead_names += [[nm] for nm in REAL_NAMES[:12]] + [list(UTF8_NAMES[i : i + 2]) for i in range(0, 6, 2) if all(map(cacheable, UTF8_NAMES[i : i + 2]))]
        lead_descs = [b"", b" description", b"\tafter a tab", b" len=7 circular ", b"  two blanks", *([] if quick else descs6[:8])]
        n_lead = 0
        for li, lead in enumerate(LEADS):
            for ni, names in enumerate(lead_names):
                # which records carry the lead: each single one, and all of them
                places = [{i} for i in range(len(names))] + ([set(range(len(names)))] if len(names) > 1 else [])
                for pi, place in enumerate(places):
                    if quick and (li + ni + pi) % 3 and not (li < 2 and ni == 0):
                        continue
                    for w, eol, fin in lays6 if not quick and li < 4 and ni < 3 else [lays6[(k + 1) % len(lays6)]]:
                        if crowded():
                            break
                        k += 1
                        n_lead += 1
                        recs = [G.Rec(nm, seqs6[(k + i) % len(seqs6)], lead_descs[(k + 2 * i) % len(lead_descs)]) for i, nm in enumerate(names)]
                        case = Case(recs, w, eol, fin, leads=[lead if i in place else b"" for i in range(len(names))])
                        run_case(case, col, path, [1, 2, 3, 250_000] if k % 2 else [1, 5, 250_000], sample=(li, ni, pi) == (0, 0, 0), cache=True, first_only=True)
        for i in range(0 if quick else 600):
            if crowded():
                break
            base = G.random_case(rng, max_records=3, max_len=80)
            case = as_case(base, leads=[rng.choice(LEADS) if rng.random() < 0.6 else b"" for _ in base.records])
            if not any(case.leads):
                case.leads[rng.randrange(len(case.leads))] = rng.choice(LEADS)
            for r in case.records:
                if rng.random() < 0.1:
                    r.seq = b""
            bufs = G.interesting_buffers(case)
            if len(bufs) > 6:
                bufs = sorted(rng.sample(bufs, 6))
            k += 1
            n_lead += 1
            run_case(case, col, path, bufs, cache=True, first_only=True)
        n_header_files = k
        # 7. very long lines: records written on one line (or on lines) of more than 8 KiB / 64 KiB / 1 MiB / 2 MiB,
        #    between short one-line records; non-ACGT runs that end at, start at and cross those distances
        crowded = allowance(4)
        n_long = 0
        for recipe, w, eol, fin, bufs in long_files(quick):
            if crowded():
                break
            n_long += 1
            case = long_case(recipe, w, eol, fin)
            run_case(case, col, path, bufs, sample=n_long == 1, cache=True, first_only=True, line_lengths=(60,))
            for memo in (_long_seq, _tiling_big, _masked_big):
                memo.cache_clear()
        # 8. the cache route after the file was replaced: one cache file refreshed by another tool, or none
        crowded = allowance(4)
        n_replaced = 0
        for pi, (a, b) in enumerate(replaced_pairs(quick, rng)):
            for refreshed in ("fai", "agp", "none"):
                if crowded():
                    break
                n_replaced += 1
                try:
                    msgs = check_replaced(a, b, path, refreshed)
                finally:
                    G.remove_with_caches(path)
                inp = {"kind": "replaced", "old": a.spec(), "case": b.spec(), "refreshed": refreshed}
                if msgs:
                    col.fail(msgs[0], inp)
                col.case(("replaced", a.key(), b.key(), refreshed), nontrivial=True, sample=inp if (pi, refreshed) == (0, "fai") else None)
        # 5. files that must be rejected
        rejected = [b"", b"\n", b"ACGT\n", b"ACGT\nAC\n"]
        for eol in (b"\n", b"\r\n"):
            for a, b in ((b"ACGT", b"ACGT"), (b"ACGTN", b"TT"), (b"N", b"ACGTACGTAC")):
                rejected.append(b">x" + eol + a + eol + b">x" + eol + b + eol)
                rejected.append(b">x one" + eol + a + eol + b">y" + eol + b"AC" + eol + b">x two" + eol + b + eol)
                rejected.append(b">y" + eol + a + eol + b">x" + eol + b"AC" + eol + b">x" + eol + b)
        # duplicate names where one or both copies are records without residues (copies adjacent or not, the
        # empty copy first / second / last line of the file, with descriptions, with and without final newline)
        for eol in (b"\n", b"\r\n"):
            dup_empty = [
                (b">x", b">x", b"ACGT"),
                (b">x", b">x", b"ACGTN", b"AC"),
                (b">x one", b">y", b"AC", b">x two", b"GGCCGGCC"),
                (b">x", b"ACGT", b">x", b">y", b"AC"),
                (b">y", b"AC", b">x", b"NACGT", b">x"),
                (b">x", b"ACGT", b">x"),
                (b">x", b">x"),
                (b">y", b"ACGT", b">x", b">x"),
                (b">x", b">y", b">x"),
                (b">x first", b">y", b"AC", b"G", b">x\tsecond"),
                (b">x", b">x", b">x", b"AC"),
            ]
            for lines in dup_empty:
                rejected.append(eol.join(lines) + eol)
                rejected.append(eol.join(lines))
        # duplicate names with special characters, and duplicates whose headers differ only behind the name
        for eol in (b"\n", b"\r\n"):
            for h1, h2 in (
                (b">HG002#1#c1", b">HG002#1#c1"),
                (b">a#1 x", b">a#1\ty"),
                (b">x\x0bone", b">x\x0ctwo"),
                (b">x \xe9", b">x\t\xff\xfe"),
                (b">sp|P1|x", b">sp|P1|x d"),
                (b">chr1:1-2", b">chr1:1-2"),
                ("\u00e01".encode(), "\u00e01 d".encode()),
                (b"> x", b">x"),
                (b">x d", b">\tx"),
                (b">  x one", b"> x two"),
            ):
                if not h1.startswith(b">"):
                    h1, h2 = b">" + h1, b">" + h2
                rejected.append(eol.join((h1, b"ACGT", b">y", b"AC", h2, b"GGN")) + eol)
                rejected.append(eol.join((h1, h2, b"GGN")))
        for data in rejected:
            msg = check_rejected(data, path)
            inp = {"kind": "reject", "data": data.decode("latin-1")}
            if msg:
                col.fail(msg, inp)
            col.case(("reject", data), sample=inp if data.startswith(b">x one\r") else None)
    return col.result(
        bounds=(
            f"records <= 3; masks exhaustive to length {max_mask} x 24 layouts; letter strings exhaustive to length "
            f"{max_letters}; {n_random} random files with records <= {120 if quick else 400} residues; buffer sizes 1..len+2 "
            f"(exhaustive part) or 1,2,primes,width+-1,run/record length+-1,250000 (random part); every placement of empty "
            f"records among 1-3 records x layouts and {n_empty_random} random files with empty records; {n_header_files} files with "
            f"byte-level header variety ({len(warm_names)} names cold-then-warm, {len(direct_names)} indexed directly, "
            f"{len(hash_names)} names starting with '#' cold-then-warm in files of their own [known class {KNOWN_HASH}], "
            f"{len(descs6)} separator+description byte strings, {n_lead} files with white space behind '>'); {n_long} files of 1-2.5 MB "
            f"with lines longer than 8 KiB .. 2 MiB; {n_replaced} replaced-file histories; {len(rejected)} malformed files "
            "(no records; duplicate names incl. copies without residues and names with special characters)"
        ),
        exhaustive=False,
    )
