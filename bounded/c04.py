"""
C04 bounded tier: index_fasta_file() / FastaIndex over enumerated small well-formed FASTA files for every
buffer size 1..(longest record + 2), against the pure-Python model of bounded/fasta_gen.py:

  * faidx quintuple per record (name, residue count, offset of first residue, residues per full line, bytes
    per full line including its terminator), in file order, also as written to <fasta>.fai
  * random access: FastaIndex.sequence_bytes over every interval of every small record and get_fasta_seq
    return exactly those residues
  * derived assembly: each record tiled completely and in order, maximal ACGT runs -> forward fragments with
    1-based inclusive coordinates, other maximal runs -> gaps of the same length
  * streaming the derived assembly back (FastaStream.write_assembly) reproduces every record with only
    non-ACGT symbols replaced by N
  * duplicate record names and files without records raise

Records without residues (a header line directly followed by the next header line or by the end of the file;
`samtools faidx` lists them with length 0).  Such a file is well formed in the sense of the statement (every
record trivially has a uniform line width), so the clauses are read for them as follows:

  * indexing lists the record, in file order, with residue count 0 and the offset at which its first residue
    would stand: the byte after its header line (= end of file when the header is the unterminated last line).
    The record has no line, hence columns four and five are not determined by the file and are not judged.
  * the index entry of every record of the file can be looked up by name (FastaIndex.get_info), also for an
    empty record: an entry that is listed in the index / .fai is not "missing".
  * the derived assembly returned by index_fasta_file has one scaffold per record in file order; the tiling
    of an empty record is empty, i.e. its scaffold has no rows; streaming that assembly back reproduces the
    record as a header without sequence lines.
  * a name that occurs twice is a duplicate record name whether or not one or both copies are empty: the
    file must be rejected.
  * fetching the whole of an empty record (get_fasta_seq) returns a sequence of no residues, and the assembly
    *reloaded from the .agp cache* has the same scaffolds as the one just built, rowless ones included, in
    file order (AGP has no line for an object without rows; both were defects of the pinned tree - a
    ZeroDivisionError and a record silently missing after a warm load - repaired in /repo).
"""

import io
import itertools
import os
import pathlib
import random

from tola.assembly.fragment import Fragment
from tola.assembly.gap import Gap
from tola.fasta.index import FastaIndex, index_fasta_file
from tola.fasta.stream import FastaStream

from . import fasta_gen as G
from .common import Collector

SMALL = 14  # records up to this length get every interval fetched


class Case(G.FastaCase):
    """
    FastaCase whose "no final newline" also covers a last record without residues: then the last line of the
    file is that record's header and it is the header that lacks its terminator (fasta_gen's renderer only
    ever leaves the terminator off a sequence line)
    """

    def render(self):
        data, layout = super().render()
        if self.records and not self.records[-1].seq and not self.final_newline:
            data = data[: -len(self.eol)]
            layout[-1]["offset"] = len(data)
        return data, layout


def as_case(case):
    return Case(case.records, case.width, case.eol, case.final_newline)


def close_index(fi):
    fh = fi.__dict__.pop("fasta_fileandle", None)
    if fh is not None:
        fh.close()


def rows_of(scaffold):
    out = []
    for row in scaffold.rows:
        if isinstance(row, Gap):
            out.append(("G", row.length))
        elif isinstance(row, Fragment):
            out.append(("F", row.name, row.start, row.end, row.strand))
        else:
            out.append(("?", repr(row)))
    return out


def check_index(case, layout, idx, asm, what, reloaded=False):
    """
    index + derived assembly against the model; returns messages.  reloaded: the assembly was read back from
    the .agp cache (judged exactly like the one just built)
    """
    msgs = []
    got_names = list(idx)
    want_names = [r.name for r in case.records]
    if got_names != want_names:
        return [f"{what}: indexed names {got_names} != record names {want_names}"]
    for lay in layout:
        info = idx[lay["name"]]
        got = (info.length, info.file_offset, info.residues_per_line, info.max_line_length)
        want = (lay["length"], lay["offset"], lay["line_residues"], lay["line_bytes"])
        ok = got == want
        if lay["length"] == 0:
            # a record without residues has no line: only residue count and offset are determined by the file
            ok = got[:2] == want[:2]
        if not ok and not lay["first_line_terminated"]:
            # the only line of this record has no terminator: the fifth column is not determined by the file
            ok = got[:3] == want[:3] and got[3] in (want[2], want[3])
        if not ok:
            msgs.append(
                f"{what}: faidx row of {lay['name']} is (length, offset, residues/line, bytes/line) = {got}, file has {want}"
            )
    sc_names = [s.name for s in asm.scaffolds]
    records, scaffolds = case.records, asm.scaffolds
    if sc_names != want_names:
        msgs.append(f"{what}: assembly scaffolds {sc_names} != record names {want_names}")
        return msgs
    for r, sc in zip(records, scaffolds):
        want = [("G", t[1]) if t[0] == "G" else ("F", r.name, t[1], t[2], 1) for t in G.tiling(r.seq)]
        got = rows_of(sc)
        if got != want:
            msgs.append(f"{what}: tiling of {r.name} ({r.seq.decode('latin-1')[:40]}) is {got}, maximal runs are {want}")
    return msgs


def check_stream_back(case, fi, asm, line_length, what, reloaded=False):
    out = io.BytesIO()
    try:
        FastaStream(out, fi, line_length=line_length).write_assembly(asm)
    except Exception as e:  # noqa: BLE001
        return [f"{what}: streaming the derived assembly raised {e!r}"]
    want = [(r.name, G.masked(r.seq)) for r in case.records]
    return [f"{what}: streamed back, {m}" for m in G.compare_written_fasta(out.getvalue(), want, line_length)]


def check_random_access(case, fi, what):
    msgs = []
    for r in case.records:
        try:
            info = fi.get_info(r.name)
            if info.length != len(r.seq):
                msgs.append(f"{what}: get_info({r.name}) has residue count {info.length}, record has {len(r.seq)}")
            whole = fi.get_fasta_seq(r.name)
            if whole.sequence != r.seq or whole.name != r.name:
                msgs.append(f"{what}: get_fasta_seq({r.name}) = {whole.sequence[:40]!r}, record is {r.seq[:40]!r}")
            if not r.seq:
                continue  # no interval to fetch
            n = len(r.seq)
            if n <= SMALL:
                spans = [(s, e) for s in range(1, n + 1) for e in range(s, n + 1)]
            else:
                w = case.width
                pts = sorted({1, 2, w - 1, w, w + 1, 2 * w, 2 * w + 1, n - w, n - 1, n} & set(range(1, n + 1)))
                spans = [(s, e) for s in pts for e in pts if s <= e]
            for s, e in spans:
                got = fi.sequence_bytes(info, s, e).getvalue()
                if got != r.seq[s - 1 : e]:
                    msgs.append(f"{what}: residues {s}..{e} of {r.name} fetched as {got[:30]!r}, file has {r.seq[s - 1 : e][:30]!r}")
                    break
        except Exception as e:  # noqa: BLE001
            if r.seq:
                msgs.append(f"{what}: random access to {r.name} raised {e!r}")
            else:
                msgs.append(f"{what}: looking up / fetching {r.name}, a record without residues that the file contains, raised {e!r}")
    return msgs


def check_case_buffer(case, layout, path, bs, line_lengths=(60,)):
    what = f"buffer {bs}"
    try:
        idx, asm = index_fasta_file(path, bs)
    except Exception as e:  # noqa: BLE001
        return [f"{what}: index_fasta_file raised {e!r} on a well-formed file"]
    msgs = check_index(case, layout, idx, asm, what)
    fi = FastaIndex(path, bs)
    fi.index, fi.assembly = idx, asm
    try:
        for ll in line_lengths:
            msgs += check_stream_back(case, fi, asm, ll, what)
    finally:
        close_index(fi)
    return msgs


def check_cache_and_access(case, layout, path):
    """FastaIndex.run_indexing: the .fai text, the warm reload, and random access through the index"""
    msgs = []
    pathlib.Path(str(path) + ".fai").unlink(missing_ok=True)
    pathlib.Path(str(path) + ".agp").unlink(missing_ok=True)
    fi = FastaIndex(path)
    try:
        fi.auto_load()
    except Exception as e:  # noqa: BLE001
        return [f"auto_load raised {e!r} on a well-formed file"]
    try:
        msgs += check_index(case, layout, fi.index, fi.assembly, "auto_load")
        msgs += check_random_access(case, fi, "auto_load")
        fai_rows = [ln.split("\t") for ln in pathlib.Path(str(path) + ".fai").read_text().split("\n") if ln]
        want_rows = [[lay["name"], str(lay["length"]), str(lay["offset"]), str(lay["line_residues"])][: 4 if lay["length"] else 3] for lay in layout]
        if [r[: len(w)] for r, w in zip(fai_rows, want_rows)] != want_rows or len(fai_rows) != len(want_rows) or any(len(r) != 5 for r in fai_rows):
            msgs.append(f".fai rows {fai_rows} do not match (name, length, offset, residues/line) {want_rows}")
    finally:
        close_index(fi)
    # warm: make the FASTA look older than its cache so that the cache is what gets loaded
    st = path.stat()
    os.utime(path, (st.st_atime - 100, st.st_mtime - 100))
    fi2 = FastaIndex(path, 3)
    try:
        fi2.auto_load()
        msgs += check_index(case, layout, fi2.index, fi2.assembly, "cached index", reloaded=True)
        msgs += check_random_access(case, fi2, "cached index")
        msgs += check_stream_back(case, fi2, fi2.assembly, case.width, "cached index", reloaded=True)
    except Exception as e:  # noqa: BLE001
        msgs.append(f"loading the cached index raised {e!r}")
    finally:
        close_index(fi2)
    return msgs


def why_rejected(data):
    """the reason the statement gives for rejecting these bytes, from a line-by-line reading of them"""
    names, lengths = [], []
    for ln in data.replace(b"\r\n", b"\n").split(b"\n"):
        if ln.startswith(b">"):
            names.append(ln[1:].split()[0].decode("latin-1") if ln[1:].split() else "")
            lengths.append(0)
        elif lengths:
            lengths[-1] += len(ln)
    if not names:
        return "a file without records"
    for i, nm in enumerate(names):
        if nm in names[:i]:
            copies = [lengths[j] for j, x in enumerate(names) if x == nm]
            return f"a file with {len(copies)} records named {nm!r} (residue counts {copies}: duplicate record name)"
    return "a malformed file"


def check_rejected(data, path):
    path.write_bytes(data)
    try:
        for bs in (1, 3, 250_000):
            try:
                index_fasta_file(path, bs)
            except Exception:  # noqa: BLE001
                continue
            return f"index_fasta_file(buffer {bs}) accepted {why_rejected(data)}, which must be rejected with an error"
        return None
    finally:
        G.remove_with_caches(path)


def replay(inp):
    with G.quiet_logging(), G.workdir() as d:
        path = d / "r.fa"
        if inp["kind"] == "reject":
            return check_rejected(inp["data"].encode("latin-1"), path)
        case = Case.from_spec(inp["case"])
        layout = case.write(path)
        if inp["kind"] == "cache":
            msgs = check_cache_and_access(case, layout, path)
        else:
            msgs = check_case_buffer(case, layout, path, inp["buffer"], line_lengths=(60, case.width))
        return msgs[0] if msgs else None


def nontrivial(case):
    return any(len(r.seq) > case.width or len(G.tiling(r.seq)) > 1 or not r.seq for r in case.records)


def run_case(case, col, path, buffers, sample=False, cache=True):
    layout = case.write(path)
    try:
        spec = None
        nt = nontrivial(case)
        key = case.key()
        for bs in buffers:
            msgs = check_case_buffer(case, layout, path, bs, line_lengths=(60, case.width) if bs % 3 == 1 else (60,))
            if msgs:
                spec = spec or case.spec()
                col.fail(msgs[0], {"kind": "index", "case": spec, "buffer": bs})
            col.case((key, bs), nontrivial=nt, sample={"kind": "index", "case": case.spec(), "buffer": bs} if sample and bs == 2 else None)
        if cache:
            msgs = check_cache_and_access(case, layout, path)
            if msgs:
                col.fail(msgs[0], {"kind": "cache", "case": case.spec()})
            col.case((key, "cache"), nontrivial=nt)
    finally:
        G.remove_with_caches(path)


def run(tier, seed, **opts):
    rng = random.Random(seed)
    quick = tier == "quick"
    max_mask = 7 if quick else 10
    max_letters = 3 if quick else 5
    n_random = 150 if quick else 4000
    col = Collector(
        "FASTA files rendered from a model (1-3 records; residue strings = every ACGT/other mask up to "
        f"{max_mask} residues filled from aperiodic letter strings, every string over AcGtNnR up to {max_letters}, "
        "random longer ones with runs ending on line boundaries) x line widths 1..5,60 x LF/CRLF x final newline "
        "present/absent x descriptions, each indexed with every buffer size 1..longest record+2 and 250000; files of "
        "1-3 records in which every non-empty subset of the records has no residues (header directly followed by "
        "the next header or by end of file, terminated or not) and random files with such records; "
        "one evaluation = one (file, buffer) or (file, cache round trip); non-trivial = distinct (file, buffer) "
        "whose file has a record of more than one line, more than one run, or no residues"
    )
    with G.quiet_logging(), G.workdir() as d:
        path = d / "t.fa"
        n = 0
        # 1. every mask, every layout, single record and the same record between two fixed neighbours
        for bits in G.masks(max_mask):
            seq = G.seq_from_mask(bits, shift=n)
            for w, eol, fin in G.layouts():
                n += 1
                desc = G.DESCRIPTIONS[n % len(G.DESCRIPTIONS)]
                recs = [G.Rec("s1", seq, desc)]
                if n % 4 == 0:
                    recs = [G.Rec("p", b"acNGt", b" first")] + recs + [G.Rec("q.2", b"NtG")]
                elif n % 4 == 2:
                    recs = recs + [G.Rec("s2", G.seq_from_mask(bits[::-1], shift=n + 3))]
                case = G.FastaCase(recs, w, eol, fin)
                longest = max(len(r.seq) for r in recs)
                run_case(case, col, path, [*range(1, longest + 3), 250_000], sample=n in (200, 1201), cache=n % 3 == 0)
                if col.full:
                    break
            if col.full:
                break
        # 2. every letter string over the small alphabet
        for k, seq in enumerate(G.letter_strings(max_letters)):
            if col.full:
                break
            lays = list(G.layouts((1, 2, 3)))
            w, eol, fin = lays[k % len(lays)]
            case = G.FastaCase([G.Rec("s1", seq)], w, eol, fin)
            run_case(case, col, path, range(1, len(seq) + 2), cache=False)
        # 3. random longer files, interesting buffer sizes
        for k in range(n_random):
            if col.full:
                break
            case = G.random_case(rng, max_len=120 if quick else 400)
            bufs = G.interesting_buffers(case)
            if quick and len(bufs) > 14:
                bufs = sorted(rng.sample(bufs, 14))
            run_case(case, col, path, bufs, sample=k == 0, cache=k % 4 == 0)
        # 4. records without residues, in every position (first / middle / last / all), beside one-line, multi-line
        #    and N-only neighbours, every layout (so also: header as the unterminated last line of the file)
        n_empty_random = 40 if quick else 1500
        room = len(col.failures) + 8  # leave room in the failure list for the families below
        crowded = lambda: col.full or len(col.failures) >= room  # noqa: E731
        fillers = [b"acNGt", b"NtGACGTAcgtnnAC", b"NNN"] if quick else [b"acNGt", b"NtGACGTAcgtnnAC", b"NNN", b"A", b"ACGTACGTAC", b"nACGTACGTACg"]
        k = 0
        for nrec in (1, 2, 3):
            for pattern in itertools.product((True, False), repeat=nrec):  # True = this record is empty
                if not any(pattern) or crowded():
                    continue
                for w, eol, fin in G.layouts((1, 3, 60) if quick else (1, 2, 3, 4, 5, 60)):
                    for f0 in range(1 if quick else len(fillers)):
                        k += 1
                        recs = [
                            G.Rec(f"e{i + 1}" if e else f"s{i + 1}", b"" if e else fillers[(f0 + i + k) % len(fillers)], G.DESCRIPTIONS[(k + i) % len(G.DESCRIPTIONS)])
                            for i, e in enumerate(pattern)
                        ]
                        case = Case(recs, w, eol, fin)
                        longest = max(len(r.seq) for r in recs)
                        run_case(case, col, path, [*range(1, min(longest, 6) + 3), 250_000], sample=k == 30, cache=True)
        for k in range(n_empty_random):
            if crowded():
                break
            case = as_case(G.random_case(rng, max_records=4, max_len=60 if quick else 200))
            hit = False
            for r in case.records:
                if rng.random() < 0.4:
                    r.seq = b""
                    hit = True
            if not hit:
                rng.choice(case.records).seq = b""
            bufs = G.interesting_buffers(case)
            if len(bufs) > 10:
                bufs = sorted(rng.sample(bufs, 10))
            run_case(case, col, path, bufs, cache=k % 2 == 0)
        # 5. files that must be rejected
        rejected = [b"", b"\n", b"ACGT\n", b"ACGT\nAC\n"]
        for eol in (b"\n", b"\r\n"):
            for a, b in ((b"ACGT", b"ACGT"), (b"ACGTN", b"TT"), (b"N", b"ACGTACGTAC")):
                rejected.append(b">x" + eol + a + eol + b">x" + eol + b + eol)
                rejected.append(b">x one" + eol + a + eol + b">y" + eol + b"AC" + eol + b">x two" + eol + b + eol)
                rejected.append(b">y" + eol + a + eol + b">x" + eol + b"AC" + eol + b">x" + eol + b)
        # duplicate names where one or both copies are records without residues (copies adjacent or not, the
        # empty copy first / second / last line of the file, with descriptions, with and without final newline)
        for eol in (b"\n", b"\r\n"):
            dup_empty = [
                (b">x", b">x", b"ACGT"),
                (b">x", b">x", b"ACGTN", b"AC"),
                (b">x one", b">y", b"AC", b">x two", b"GGCCGGCC"),
                (b">x", b"ACGT", b">x", b">y", b"AC"),
                (b">y", b"AC", b">x", b"NACGT", b">x"),
                (b">x", b"ACGT", b">x"),
                (b">x", b">x"),
                (b">y", b"ACGT", b">x", b">x"),
                (b">x", b">y", b">x"),
                (b">x first", b">y", b"AC", b"G", b">x\tsecond"),
                (b">x", b">x", b">x", b"AC"),
            ]
            for lines in dup_empty:
                rejected.append(eol.join(lines) + eol)
                rejected.append(eol.join(lines))
        for data in rejected:
            msg = check_rejected(data, path)
            inp = {"kind": "reject", "data": data.decode("latin-1")}
            if msg:
                col.fail(msg, inp)
            col.case(("reject", data), sample=inp if data.startswith(b">x one\r") else None)
    return col.result(
        bounds=(
            f"records <= 3; masks exhaustive to length {max_mask} x 24 layouts; letter strings exhaustive to length "
            f"{max_letters}; {n_random} random files with records <= {120 if quick else 400} residues; buffer sizes 1..len+2 "
            f"(exhaustive part) or 1,2,primes,width+-1,run/record length+-1,250000 (random part); every placement of empty "
            f"records among 1-3 records x layouts and {n_empty_random} random files with empty records; {len(rejected)} malformed files "
            "(no records; duplicate names incl. copies without residues)"
        ),
        exhaustive=False,
    )
