"""
C07 bounded tier.  On every run that completes: two output fragments are directly adjacent (no gap row) only if the
same two contig ends were directly adjacent in the input, and no output scaffold begins or ends with a gap.  For
PretextView-model maps in addition: every gap row is the input gap between the same two neighbouring contig ends
(same length and type) or the join gap (200, scaffold), exactly one gap row per junction, and a junction of contigs
that were not input neighbours carries the join gap.
"""

import random

from . import pipeline_gen as pg
from .common import Collector

JOIN = ("G", 200, "scaffold")


def input_adjacency(inp):
    """junction -> list of the gap rows between the two contig ends in the input ([] = directly adjacent)"""
    adj = {}
    for s in inp:
        for jn, between, _, _ in pg.adjacencies(s["rows"]):
            adj[jn] = [tuple(g) for g in between]
    return adj


def same_contig_continuation(prev, nxt, inp):
    """prev and nxt are consecutive stretches of ONE input contig laid out collinearly (a cut that healed)"""
    if prev[1] != nxt[1] or prev[4] != nxt[4]:
        return False
    if prev[4] == -1:
        if nxt[3] + 1 != prev[2]:
            return False
        lo, hi = nxt[2], prev[3]
    else:
        if prev[3] + 1 != nxt[2]:
            return False
        lo, hi = prev[2], nxt[3]
    return any(c[1] == prev[1] and c[2] <= lo and hi <= c[3] for c in pg.contigs(inp))


def gap_problems(case, out, gap_rule):
    inp = case["input"]
    adj = input_adjacency(inp)
    problems = []
    n_junctions = 0
    for key, asm in out.items():
        for sc in asm["scaffolds"]:
            rows = sc["rows"]
            where = f"assembly {key!r} scaffold {sc['name']!r}"
            if not rows:
                continue
            if rows[0][0] == "G":
                problems.append(f"{where} begins with a gap {rows[0][1:]}")
            if rows[-1][0] == "G":
                problems.append(f"{where} ends with a gap {rows[-1][1:]}")
            for jn, between, prev, nxt in pg.adjacencies(rows):
                n_junctions += 1
                desc = f"{prev[1]}:{prev[2]}-{prev[3]}({prev[4]:+d}) | {nxt[1]}:{nxt[2]}-{nxt[3]}({nxt[4]:+d})"
                if not between:
                    if adj.get(jn) == [] or same_contig_continuation(prev, nxt, inp):
                        continue
                    problems.append(f"{where}: {desc} directly adjacent, but these contig ends were not directly adjacent in the input")
                    continue
                if not gap_rule:
                    continue
                between = [tuple(g) for g in between]
                if len(between) > 1:
                    problems.append(f"{where}: {len(between)} gap rows between {desc}")
                    continue
                g = between[0]
                if jn in adj:
                    allowed = [JOIN] + (adj[jn] if len(adj[jn]) == 1 else [])
                    if g not in allowed:
                        problems.append(f"{where}: gap {g[1:]} between input neighbours {desc}; input has {[x[1:] for x in adj[jn]]}")
                elif g != JOIN:
                    problems.append(f"{where}: gap {g[1:]} between {desc}, which were not neighbours in the input (join gap required)")
    return problems, n_junctions


def check(case, col, gap_rule=True, classes=()):
    run = pg.run_case(case)
    if run.error is not None:
        return None
    problems, n = gap_problems(case, run.out, gap_rule)
    if problems:
        col.fail("; ".join(problems[:3]), {**case, "gap_rule": gap_rule, "classes": list(classes)}, classes)
    return n


def replay(inp):
    col = Collector("replay")
    case = {k: v for k, v in inp.items() if k not in ("gap_rule", "classes")}
    check(case, col, inp.get("gap_rule", True), inp.get("classes", ()))
    return col.failures[0]["message"] if col.failures else None


def drop_one_piece(case, rng):
    scs = [[list(p) for p in sc] for sc in case["map"]["scaffolds"]]
    flat = [(i, j) for i, sc in enumerate(scs) for j in range(len(sc))]
    i, j = rng.choice(flat)
    del scs[i][j]
    return {**case, "map": {"bpt": case["map"]["bpt"], "scaffolds": [sc for sc in scs if sc]}}


def run(tier, seed, **opts):
    rng = random.Random(seed)
    col = Collector(
        "PretextView-model edit scripts from pipeline_gen (exhaustive tiny scope, single scaffolds of <= 3 contigs over "
        "every length tuple incl. abutting contigs and terminal gap rows, sub-texel contig runs, 2-3 scaffold inputs; "
        "floor/ceil, sub-texel scaffolds absent, 70 % unpainted) judged on both sentences of the statement; the same "
        "maps with one piece dropped (class 'dropped-piece-map': on the texel grid but not producible by PretextView - "
        "still judged on the gap rule, which the code satisfies for every map) and seeded perturbed maps judged on "
        "the first sentence only; non-trivial = distinct completed case whose outputs contain >= 1 junction"
    )
    quick = tier == "quick"
    stats = {"errors": 0, "junctions": 0}

    def one(case, fam, gap_rule=True, classes=()):
        n = check(case, col, gap_rule, classes)
        if n is None:
            stats["errors"] += 1
        else:
            stats["junctions"] += n
        stats[fam] = stats.get(fam, 0) + 1
        ev = col.evaluations
        col.case((pg.case_key(case), gap_rule), nontrivial=bool(n), sample={"family": fam, **case} if (n and ev % 1499 == 0) else None)

    scopes = pg.tiny_scopes(tier)
    tiny_n = 0
    for kw in scopes:
        for case in pg.tiny_exhaustive(**kw):
            tiny_n += 1
            one(case, "tiny")
            if col.full:
                break
    for fam, case, _ in pg.model_cases(tier, rng, painted_p=0.3):
        if col.full:
            break
        one(case, fam)
        roll = rng.random()
        if pg.n_cut_pieces(case) >= 2 and roll < 0.5:
            one(drop_one_piece(case, rng), "dropped", True, ("dropped-piece-map",))
        elif roll > 0.8:
            for pc, _ in pg.perturbations(case, rng, 1):
                one(pc, "perturbed", False)
    return col.result(
        bounds=(
            "input: 1-3 scaffolds x 1-6 contigs, contig lengths from {1,2,7,12,40,150,400,1000}, gaps none/1/10/20/25/200 of "
            "types scaffold/contig, both strands, optional leading/trailing gap rows; texel sizes {1,2.5,10,33.3}; <= 3 cuts "
            f"per scaffold; tiny scopes ({tiny_n} cases: {pg.describe_scopes(scopes)}) enumerated fully, the rest seeded; output junctions judged: "
            f"{stats['junctions']}; runs ending in an error (not judged): {stats['errors']}; per family: "
            + ", ".join(f"{k}={v}" for k, v in sorted(stats.items()) if k not in ("errors", "junctions"))
        ),
        exhaustive=False,
    )
