"""
C07 bounded tier.  On every run that completes: two output fragments are directly adjacent (no gap row) only if the
same two contig ends were directly adjacent in the input, and no output scaffold begins or ends with a gap.  For
PretextView-model maps in addition: every gap row is the input gap between the same two neighbouring contig ends
(same length and type) or the join gap (200, scaffold), and a junction of contigs that were not input neighbours
carries the join gap.

What "the input gap that separates the same two neighbouring contigs" means when the input has SEVERAL gap rows in a
row between two contigs (legal in AGP and TPF, e.g. a 200 bp scaffold gap followed by a contig gap; the code loops
over several terminal gap rows on purpose):  the input gap of that junction is the whole run of gap rows.  The gap
rows found between two output fragments are judged together, as one separation, and must be

    either  all the gap rows the input has between the same two contig ends - every one of them, each with its
            length and type, nothing added (compared as a multiset: the statement does not speak about their order,
            so a reversed run is accepted in either traversal direction),
    or      exactly one join gap row (200, scaffold).

Hence a part of the run (one of two input gap rows), the run plus a join gap, or two join gaps are failures: in each
of them some gap row is neither "the input gap" of these neighbours (the separation is not the one the input had,
the property's title says retained neighbours KEEP their input gap) nor "the join gap" (one configured row).  With
one gap row per input junction this is the earlier reading "exactly one gap row per junction".  Two contigs with a
gap row of any length between them (also length 0) are not "directly adjacent" in the input.  Gap rows in front of
the first or behind the last contig of an INPUT scaffold separate no two contigs: they may not appear in any output.

Besides the shared PretextView-model stream of pipeline_gen the module has its own input families (`gap_run_*`
below): runs of 2-3 consecutive gap rows between contigs, runs of 1-2 gap rows in front of the first / behind the
last contig, gap rows of 0, 1 and 2 bases, next to abutting contigs and single gaps; with maps whose breaks fall on
every row boundary of the scaffold, one texel before and after it (at 1 bp per texel: one base), and inside every
longer gap row, i.e. before, inside and after each gap row of a run; scaffolds that are absent from the map.
"""

import itertools
import math
import random
from fractions import Fraction

from . import pipeline_gen as pg
from .common import Collector

JOIN = ("G", 200, "scaffold")


def input_adjacency(inp):
    """junction -> list of the gap rows between the two contig ends in the input ([] = directly adjacent)"""
    adj = {}
    for s in inp:
        for jn, between, _, _ in pg.adjacencies(s["rows"]):
            adj[jn] = [tuple(g) for g in between]
    return adj


def same_contig_continuation(prev, nxt, inp):
    """prev and nxt are consecutive stretches of ONE input contig laid out collinearly (a cut that healed)"""
    if prev[1] != nxt[1] or prev[4] != nxt[4]:
        return False
    if prev[4] == -1:
        if nxt[3] + 1 != prev[2]:
            return False
        lo, hi = nxt[2], prev[3]
    else:
        if prev[3] + 1 != nxt[2]:
            return False
        lo, hi = prev[2], nxt[3]
    return any(c[1] == prev[1] and c[2] <= lo and hi <= c[3] for c in pg.contigs(inp))


def gap_problems(case, out, gap_rule):
    inp = case["input"]
    adj = input_adjacency(inp)
    problems = []
    n_junctions = 0
    for key, asm in out.items():
        for sc in asm["scaffolds"]:
            rows = sc["rows"]
            where = f"assembly {key!r} scaffold {sc['name']!r}"
            if not rows:
                continue
            if rows[0][0] == "G":
                problems.append(f"{where} begins with a gap {rows[0][1:]}")
            if rows[-1][0] == "G":
                problems.append(f"{where} ends with a gap {rows[-1][1:]}")
            for jn, between, prev, nxt in pg.adjacencies(rows):
                n_junctions += 1
                desc = f"{prev[1]}:{prev[2]}-{prev[3]}({prev[4]:+d}) | {nxt[1]}:{nxt[2]}-{nxt[3]}({nxt[4]:+d})"
                if not between:
                    if adj.get(jn) == [] or same_contig_continuation(prev, nxt, inp):
                        continue
                    problems.append(f"{where}: {desc} directly adjacent, but these contig ends were not directly adjacent in the input")
                    continue
                if not gap_rule:
                    continue
                between = [tuple(g) for g in between]
                if between == [JOIN]:
                    continue
                got = [g[1:] for g in between]
                if jn in adj:
                    # the junction's input gap = the whole run of gap rows the input has between these two ends
                    if not adj[jn] or sorted(between) != sorted(adj[jn]):
                        problems.append(
                            f"{where}: gap rows {got} between input neighbours {desc} are neither their input gap "
                            f"{[x[1:] for x in adj[jn]]} (all of its rows, nothing else) nor one join gap {JOIN[1:]}"
                        )
                else:
                    problems.append(f"{where}: gap rows {got} between {desc}, which were not neighbours in the input (one join gap {JOIN[1:]} required)")
    return problems, n_junctions


def check(case, col, gap_rule=True, classes=()):
    run = pg.run_case(case)
    if run.error is not None:
        return None
    problems, n = gap_problems(case, run.out, gap_rule)
    if problems:
        col.fail("; ".join(problems[:3]), {**case, "gap_rule": gap_rule, "classes": list(classes)}, classes)
    return n


def replay(inp):
    col = Collector("replay")
    case = {k: v for k, v in inp.items() if k not in ("gap_rule", "classes")}
    check(case, col, inp.get("gap_rule", True), inp.get("classes", ()))
    return col.failures[0]["message"] if col.failures else None


# --------------------------------------------------------------------------------------------------
# input families with runs of gap rows (consecutive gap rows between contigs, in front of the first and behind the
# last contig, 0/1/2-base gaps) and maps that break on, next to and inside every row of such a run
# --------------------------------------------------------------------------------------------------

S1, S3, S200 = (1, "scaffold"), (3, "scaffold"), (200, "scaffold")
C0, C1, C2, C10, C25 = (0, "contig"), (1, "contig"), (2, "contig"), (10, "contig"), (25, "contig")
GAP_KINDS = (C1, S3, C10, S200, C0, S1, C2, C25)


def gap_run_scaffold(name, lens, strands=None, runs=None, lead=(), trail=(), naming="own", tag="1"):
    """
    like pipeline_gen.make_scaffold, but runs[j] is the TUPLE of gap rows between contig j and contig j + 1 (() = the
    contigs abut) and lead / trail are tuples of gap rows in front of the first / behind the last contig
    """
    k = len(lens)
    strands = strands or [1] * k
    runs = runs or [()] * (k - 1)
    rows = [pg.G(*g) for g in lead]
    pos = sum(g[0] for g in lead)
    for j, ln in enumerate(lens):
        if j:
            for g in runs[j - 1]:
                rows.append(pg.G(*g))
                pos += g[0]
        if naming == "fasta":
            rows.append(pg.F(name, pos + 1, pos + ln, strands[j]))
        elif naming == "own":
            rows.append(pg.F(f"ctg{tag}{chr(97 + j)}", 1, ln, strands[j]))
        else:
            base = 6000 + 3000 * (j % 2)
            rows.append(pg.F(f"old{tag}{j // 2}", base + 1, base + ln, strands[j]))
        pos += ln
    rows.extend(pg.G(*g) for g in trail)
    return {"name": name, "rows": rows}


def boundary_marks(rows, bpt, n):
    """
    texel boundaries on every row boundary p of the scaffold (the last boundary at or before p and the first at or
    after it), one texel before and after those, and in the middle of every gap row of >= 4 bases.  At 1 bp per texel
    these are the breaks after base p - 1, p and p + 1.
    """
    f = pg.bptF(bpt)
    marks = set()
    pos = 0
    for r in rows:
        ln = pg.row_len(r)
        for p in (pos, pos + ln):
            q = Fraction(p) / f
            lo, hi = math.floor(q), math.ceil(q)
            marks.update((lo - 1, lo, hi, hi + 1))
        if r[0] == "G" and ln >= 4:
            marks.add(math.floor(Fraction(pos + ln // 2) / f))
        pos += ln
    return sorted(t for t in marks if 2 <= t <= n - 2)


def gap_run_cases(inputs, bpts_for, rng, max_cuts, k2_sample, k3_sample, painted_p=0.5):
    """
    For every input (list of scaffolds; the FIRST is in the map, the others are absent from it), texel size in
    bpts_for(input number) and rounding: EVERY set of <= max_cuts breaks from boundary_marks() that leaves pieces of
    >= 2 texels; one piece: both orientations; two pieces: `k2_sample` seeded ones of the 16 permutation x orientation
    x grouping arrangements (None = all); three pieces: `k3_sample` seeded ones of the 192; Painted seeded per
    Pretext scaffold.
    """
    i = 0
    for ii, inp in enumerate(inputs):
        sc = inp[0]
        ln = pg.rows_len(sc["rows"])
        for bpt in bpts_for(ii):
            seen_n = set()
            for rounding in ("floor", "ceil"):
                n = pg.texels(ln, bpt, rounding)
                if n < 1 or n in seen_n:
                    continue
                seen_n.add(n)
                marks = boundary_marks(sc["rows"], bpt, n)
                for c in range(max_cuts + 1):
                    for cs in itertools.combinations(marks, c):
                        if any(y - x < 2 for x, y in itertools.pairwise((0, *cs, n))):
                            continue
                        pcs = pg.pieces_of(sc, bpt, rounding, cs)
                        k = len(pcs)
                        arrs = pg.ALL_ARRANGEMENTS[k]
                        if k == 2 and k2_sample:
                            arrs = rng.sample(arrs, k2_sample)
                        elif k == 3:
                            arrs = rng.sample(arrs, k3_sample)
                        for arr in arrs:
                            i += 1
                            painted = [rng.random() < painted_p for _ in arr[2]]
                            mp = {"bpt": bpt, "scaffolds": pg.arrange(pcs, arr, painted)}
                            yield {"input": inp, "map": mp, "prefix": "SUPER_", "via": pg.pick_via(inp, i)}


def gap_run_inputs(tier):
    """
    The enumerated gap-run geometries.  One mapped scaffold of 2-3 contigs (7 and 12 bases: long enough for a break
    one and two texels inside a contig at every texel size used) with
      * every run of 2 gap rows from a set of gap kinds between the first two contigs (quick: 3 kinds, thorough: 7,
        among them the 0-, 1- and 2-base gaps and the gap that equals the join gap), some runs of 3;
      * the same with a third contig behind a single gap / abutting / behind a second run;
      * runs of 1-2 gap rows in front of the first and/or behind the last contig, with and without a run in between;
      * a second scaffold that is absent from the map and has runs of all three sorts.
    Strand pattern and naming style rotate over the list.
    """
    quick = tier == "quick"
    kinds = (C1, S3, C10) if quick else (C1, S3, C10, S200, C0, S1, C2)
    specs = []  # (lens, runs, lead, trail)
    for g1 in kinds:
        for g2 in kinds:
            specs.append(((7, 12), [(g1, g2)], (), ()))
    triples = [(C1, C1, C1), (S3, C1, C10), (C10, S3, S3), (S200, C10, S200), (C0, S3, C0), (C1, C0, S3)]
    for t in triples[: 2 if quick else 6]:
        specs.append(((12, 7), [t], (), ()))
    # 0/1/2-base gaps and the join-gap look-alike in a run (quick; thorough has them in `kinds`)
    if quick:
        for run in ((C0, S3), (S3, C0), (S200, C10), (C10, S200), (C2, S1)):
            specs.append(((7, 12), [run], (), ()))
    # a third contig
    second = [(), (S3,), (C10, C1)] if quick else [(), (S3,), (C1,), (C10, C1), (S3, S200), (C0, C10)]
    first = [(S3, C1), (C10, S3)] if quick else [(S3, C1), (C10, S3), (C1, C1), (S200, C10), (C0, S3), (C1, C10, S3)]
    for r1 in first:
        for r2 in second:
            specs.append(((7, 7, 7), [r1, r2], (), ()))
            if not quick:
                specs.append(((12, 2, 7), [r2, r1], (), ()))
    # terminal runs
    terminal = [(S3,), (C1, S3), (C10, C1)] if quick else [(S3,), (C1,), (C0,), (C1, S3), (C10, C1), (S3, S200), (C0, C10), (C1, C1, C10)]
    for t in terminal:
        specs.append(((7, 12), [(C10,)], t, ()))
        specs.append(((7, 12), [(C10,)], (), t))
        specs.append(((12, 7), [()], t, tuple(reversed(t))))
        specs.append(((7, 7), [(S3, C1)], t, t))
        if not quick:
            specs.append(((12,), [], t, ()))
            specs.append(((12,), [], (), t))
            specs.append(((12,), [], t, t))
    inputs = []
    for i, (lens, runs, lead, trail) in enumerate(specs):
        k = len(lens)
        sp = pg.strand_patterns(k)[i % (2 if k == 1 else 4)]
        naming = ("own", "fasta", "offset")[i % 3]
        inp = [gap_run_scaffold("scaffold_1", lens, sp, runs, lead, trail, naming, tag="1")]
        if i % 4 == 3:
            # a scaffold the map does not mention, with runs everywhere
            inp.append(gap_run_scaffold("scaffold_2", (7, 2, 12), (1, -1, 1), [(C10, S3), (C1,)], (S3, C1), (C1, C10), "own", tag="2"))
        inputs.append(inp)
    return inputs


def random_gap_run_inputs(rng, n):
    """seeded: 1-3 scaffolds x 1-4 contigs, between two contigs 0-3 gap rows (mostly 2), terminal runs of 0-2 gap rows"""
    lens = (1, 2, 7, 12, 40, 150)
    for _ in range(n):
        inp = []
        for si in range(rng.choice((1, 1, 2, 3))):
            k = rng.randint(1, 4)
            lt = [rng.choice(lens) for _ in range(k)]
            runs = [tuple(rng.choice(GAP_KINDS) for _ in range(rng.choice((0, 1, 2, 2, 2, 3)))) for _ in range(k - 1)]
            lead = tuple(rng.choice(GAP_KINDS) for _ in range(rng.choice((0, 0, 0, 1, 2))))
            trail = tuple(rng.choice(GAP_KINDS) for _ in range(rng.choice((0, 0, 0, 1, 2))))
            sp = [rng.choice((1, -1)) for _ in range(k)]
            inp.append(gap_run_scaffold(f"scaffold_{si + 1}", lt, sp, runs, lead, trail, rng.choice(("own", "fasta", "offset")), tag=str(si + 1)))
        yield inp


def drop_one_piece(case, rng):
    scs = [[list(p) for p in sc] for sc in case["map"]["scaffolds"]]
    flat = [(i, j) for i, sc in enumerate(scs) for j in range(len(sc))]
    i, j = rng.choice(flat)
    del scs[i][j]
    return {**case, "map": {"bpt": case["map"]["bpt"], "scaffolds": [sc for sc in scs if sc]}}


def run(tier, seed, **opts):
    rng = random.Random(seed)
    col = Collector(
        "PretextView-model edit scripts from pipeline_gen (exhaustive tiny scope, single scaffolds of <= 3 contigs over "
        "every length tuple incl. abutting contigs and terminal gap rows, sub-texel contig runs, 2-3 scaffold inputs; "
        "floor/ceil, sub-texel scaffolds absent, 70 % unpainted) judged on both sentences of the statement; the same "
        "maps with one piece dropped (class 'dropped-piece-map': on the texel grid but not producible by PretextView - "
        "still judged on the gap rule, which the code satisfies for every map) and seeded perturbed maps judged on "
        "the first sentence only; this module's own gap-run families (runs of 2-3 consecutive gap rows between contigs, "
        "1-2 gap rows in front of the first / behind the last contig, 0/1/2-base gaps, scaffolds absent from the map: "
        "enumerated geometries x every set of <= 2 breaks on, one texel next to and inside every row of the scaffold, "
        "plus seeded larger ones), a junction's gap rows judged together against the whole input run or one join gap; "
        "non-trivial = distinct completed case whose outputs contain >= 1 junction"
    )
    quick = tier == "quick"
    stats = {"errors": 0, "junctions": 0}

    def one(case, fam, gap_rule=True, classes=()):
        n = check(case, col, gap_rule, classes)
        if n is None:
            stats["errors"] += 1
        else:
            stats["junctions"] += n
        stats[fam] = stats.get(fam, 0) + 1
        ev = col.evaluations
        col.case((pg.case_key(case), gap_rule), nontrivial=bool(n), sample={"family": fam, **case} if (n and ev % 1499 == 0) else None)

    scopes = pg.tiny_scopes(tier)
    tiny_n = 0
    for kw in scopes:
        for case in pg.tiny_exhaustive(**kw):
            tiny_n += 1
            one(case, "tiny")
            if col.full:
                break
    for fam, case, _ in pg.model_cases(tier, rng, painted_p=0.3):
        if col.full:
            break
        one(case, fam)
        roll = rng.random()
        if pg.n_cut_pieces(case) >= 2 and roll < 0.5:
            one(drop_one_piece(case, rng), "dropped", True, ("dropped-piece-map",))
        elif roll > 0.8:
            for pc, _ in pg.perturbations(case, rng, 1):
                one(pc, "perturbed", False)
    # runs of gap rows: enumerated geometries x every break set on / next to / inside the rows of the runs
    run_inputs = gap_run_inputs(tier)
    run_bpts = (1.0, 2.5) if quick else (1.0, 2.5, 10.0)
    if quick:
        # every geometry at 1 bp per texel (a break after every base), every other one also at 2.5
        stream = gap_run_cases(run_inputs, lambda i: run_bpts[: 1 + i % 2], rng, max_cuts=2, k2_sample=6, k3_sample=1)
    else:
        stream = gap_run_cases(run_inputs, lambda i: run_bpts, rng, max_cuts=2, k2_sample=None, k3_sample=8)
    for case in stream:
        if col.full:
            break
        one(case, "gaprun")
        roll = rng.random()
        if pg.n_cut_pieces(case) >= 2 and roll < (0.15 if quick else 0.3):
            one(drop_one_piece(case, rng), "gaprun-dropped", True, ("dropped-piece-map",))
        elif roll > 0.95:
            for pc, _ in pg.perturbations(case, rng, 1):
                one(pc, "gaprun-perturbed", False)
    # seeded larger inputs with runs of gap rows, scripts as for the shared stream
    for inp in random_gap_run_inputs(rng, 500 if quick else 12000):
        if col.full:
            break
        bpt = rng.choice((1.0, 2.5, 10.0, 33.3))
        for mp, _ in pg.scripts_for(inp, bpt, rng, 2, painted_p=0.5):
            stats["gr_i"] = stats.get("gr_i", 0) + 1
            case = {"input": inp, "map": mp, "prefix": "SUPER_", "via": pg.pick_via(inp, stats["gr_i"])}
            one(case, "gaprun-random")
            if pg.n_cut_pieces(case) >= 2 and rng.random() < 0.3:
                one(drop_one_piece(case, rng), "gaprun-dropped", True, ("dropped-piece-map",))
    stats.pop("gr_i", None)
    return col.result(
        bounds=(
            "input: 1-3 scaffolds x 1-6 contigs, contig lengths from {1,2,7,12,40,150,400,1000}, gaps none/1/10/20/25/200 of "
            "types scaffold/contig, both strands, optional leading/trailing gap rows; texel sizes {1,2.5,10,33.3}; <= 3 cuts "
            f"per scaffold; gap-run families: {len(run_inputs)} enumerated geometries of 1-3 contigs (7/12 bases) with runs of <= 3 gap "
            f"rows from {{0,1,2,3,10,25,200}} bases between contigs and at the scaffold ends at texel sizes {list(run_bpts)}, every set of <= 2 breaks on/next to/inside the rows "
            f"(2 pieces: {'6 seeded of the' if quick else 'all'} 16 arrangements, 3 pieces: {1 if quick else 8} seeded of 192), "
            "seeded inputs of 1-3 scaffolds x 1-4 contigs (1-150 bases) with runs of 0-3 gap rows; <= 3 cuts "
            f"per scaffold; tiny scopes ({tiny_n} cases: {pg.describe_scopes(scopes)}) enumerated fully, the rest seeded; output junctions judged: "
            f"{stats['junctions']}; runs ending in an error (not judged): {stats['errors']}; per family: "
            + ", ".join(f"{k}={v}" for k, v in sorted(stats.items()) if k not in ("errors", "junctions"))
        ),
        exhaustive=False,
    )
