"""
C07 bounded tier.  On every run that completes: two output fragments are directly adjacent (no gap row) only if the
same two contig ends were directly adjacent in the input, and no output scaffold begins or ends with a gap.  For
PretextView-model maps in addition: every gap row is the input gap between the same two neighbouring contig ends
(same length and type) or the join gap (200, scaffold), and a junction of contigs that were not input neighbours
carries the join gap.

What "the input gap that separates the same two neighbouring contigs" means when the input has SEVERAL gap rows in a
row between two contigs (legal in AGP and TPF, e.g. a 200 bp scaffold gap followed by a contig gap; the code loops
over several terminal gap rows on purpose):  the input gap of that junction is the whole run of gap rows.  The gap
rows found between two output fragments are judged together, as one separation, and must be

    either  all the gap rows the input has between the same two contig ends - every one of them, each with its
            length and type, nothing added (compared as a multiset: the statement does not speak about their order,
            so a reversed run is accepted in either traversal direction),
    or      exactly one join gap row (200, scaffold).

Hence a part of the run (one of two input gap rows), the run plus a join gap, or two join gaps are failures: in each
of them some gap row is neither "the input gap" of these neighbours (the separation is not the one the input had,
the property's title says retained neighbours KEEP their input gap) nor "the join gap" (one configured row).  With
one gap row per input junction this is the earlier reading "exactly one gap row per junction".  Two contigs with a
gap row of any length between them (also length 0) are not "directly adjacent" in the input.  Gap rows in front of
the first or behind the last contig of an INPUT scaffold separate no two contigs: they may not appear in any output.

Besides the shared PretextView-model stream of pipeline_gen the module has its own input families (`gap_run_*`
below): runs of 2-3 consecutive gap rows between contigs, runs of 1-2 gap rows in front of the first / behind the
last contig, gap rows of 0, 1 and 2 bases, next to abutting contigs and single gaps; with maps whose breaks fall on
every row boundary of the scaffold, one texel before and after it (at 1 bp per texel: one base), and inside every
longer gap row, i.e. before, inside and after each gap row of a run; scaffolds that are absent from the map.

Command line level (`cli_*` below).  "The configured join gap (200 bp, type scaffold)" of the statement is a constant
of the property, not something the library caller of this module chooses: the families above build the objects
themselves and hand BuildAssembly that gap, so they cannot see which join gap the TOOL configures.  The cli families
therefore run the real `pretext-to-asm` (in process, temporary directory) on input assemblies written as AGP, TPF
or FASTA whose gaps are NOT 200 bp / scaffold - every gap 100 bp, every gap of type contig, 10 bp contig gaps, no gap
row at all (abutting contigs; one contig per scaffold), several different gaps with the first one not 200 / scaffold,
several different gaps with the first one 200 / scaffold, a gapless first scaffold, AGP-only gap types - with maps
that join non-neighbours (whole scaffolds fused into one, halves of a cut scaffold swapped, halves joined to other
scaffolds, scaffolds absent from the map, trailing contigs inside the final partial texel), read the assembly
files the tool WROTE with the small readers below (no project code) and judge them with the same oracle, JOIN being
the (200, scaffold) of the statement.  A run whose exit status is not 0 did not complete and is not judged.

Row order and contig names (`renamed_contigs`, `leftover_order_*` below).  The statement quantifies over all input
assemblies: nothing says that the rows of an input scaffold are listed in the order of their (contig name, start, end).
A scaffold that an earlier curation round reversed lists the pieces of one contig with DESCENDING coordinates; contigs
joined into a scaffold carry names in any order (ctg_b before ctg_a; ctg9 before ctg10, which sort the other way round
as strings).  The shared generators only produce rows whose names / coordinates ascend, so this module re-labels the
contigs of an input (same scaffolds, row lengths, gaps and strands: the same map fits) in four ways - names descending,
pieces of one sequence with descending coordinates, numbered names running past nine, seeded shuffle - and
  * enumerates scaffolds whose 2-4 short contigs are NOT shown by the map (the whole scaffold is shorter than a texel and
    absent, or the contigs trail a long contig inside the final partial texel): every order of the names / of the
    coordinates x separators (abutting, one gap, a run of two) x strand patterns x the ways the map can show the rest;
  * runs every case of the other streams in which some scaffold has >= 2 contigs that no piece of the map shows a second
    time with re-labelled contigs (the four ways in rotation).
The oracle is the one above: contigs the map does not show must still come out with no new direct adjacency.
"""

import itertools
import math
import pathlib
import random
import tempfile
from fractions import Fraction

from . import cli_gen
from . import pipeline_gen as pg
from .common import Collector

JOIN = ("G", 200, "scaffold")


def input_adjacency(inp):
    """junction -> list of the gap rows between the two contig ends in the input ([] = directly adjacent)"""
    adj = {}
    for s in inp:
        for jn, between, _, _ in pg.adjacencies(s["rows"]):
            adj[jn] = [tuple(g) for g in between]
    return adj


def same_contig_continuation(prev, nxt, inp):
    """prev and nxt are consecutive stretches of ONE input contig laid out collinearly (a cut that healed)"""
    if prev[1] != nxt[1] or prev[4] != nxt[4]:
        return False
    if prev[4] == -1:
        if nxt[3] + 1 != prev[2]:
            return False
        lo, hi = nxt[2], prev[3]
    else:
        if prev[3] + 1 != nxt[2]:
            return False
        lo, hi = prev[2], nxt[3]
    return any(c[1] == prev[1] and c[2] <= lo and hi <= c[3] for c in pg.contigs(inp))


def gap_problems(case, out, gap_rule):
    inp = case["input"]
    adj = input_adjacency(inp)
    problems = []
    n_junctions = 0
    for key, asm in out.items():
        for sc in asm["scaffolds"]:
            rows = sc["rows"]
            where = f"assembly {key!r} scaffold {sc['name']!r}"
            if not rows:
                continue
            if rows[0][0] == "G":
                problems.append(f"{where} begins with a gap {rows[0][1:]}")
            if rows[-1][0] == "G":
                problems.append(f"{where} ends with a gap {rows[-1][1:]}")
            for jn, between, prev, nxt in pg.adjacencies(rows):
                n_junctions += 1
                desc = f"{prev[1]}:{prev[2]}-{prev[3]}({prev[4]:+d}) | {nxt[1]}:{nxt[2]}-{nxt[3]}({nxt[4]:+d})"
                if not between:
                    if adj.get(jn) == [] or same_contig_continuation(prev, nxt, inp):
                        continue
                    problems.append(f"{where}: {desc} directly adjacent, but these contig ends were not directly adjacent in the input")
                    continue
                if not gap_rule:
                    continue
                between = [tuple(g) for g in between]
                if between == [JOIN]:
                    continue
                got = [g[1:] for g in between]
                if jn in adj:
                    # the junction's input gap = the whole run of gap rows the input has between these two ends
                    if not adj[jn] or sorted(between) != sorted(adj[jn]):
                        problems.append(
                            f"{where}: gap rows {got} between input neighbours {desc} are neither their input gap "
                            f"{[x[1:] for x in adj[jn]]} (all of its rows, nothing else) nor one join gap {JOIN[1:]}"
                        )
                else:
                    problems.append(f"{where}: gap rows {got} between {desc}, which were not neighbours in the input (one join gap {JOIN[1:]} required)")
    return problems, n_junctions


def check(case, col, gap_rule=True, classes=()):
    if case.get("cli"):
        out = run_cli(case)
        if out is None:
            return None
        how = case["cli"]
        lead = f"pretext-to-asm command line (input written as {how['in']}, output read from the {how['out']} files it wrote): "
    else:
        run = pg.run_case(case)
        if run.error is not None:
            return None
        out = run.out
        lead = ""
    problems, n = gap_problems(case, out, gap_rule)
    if problems:
        col.fail(lead + "; ".join(problems[:3]), {**case, "gap_rule": gap_rule, "classes": list(classes)}, classes)
    return n


# --------------------------------------------------------------------------------------------------
# command line level: write the inputs, run pretext-to-asm, read what it wrote (readers written here)
# --------------------------------------------------------------------------------------------------


def read_agp_rows(text):
    """the rows of an AGP file the tool wrote, per object, as plain row specs"""
    scaffolds = {}
    for line in text.splitlines():
        if not line.strip() or line.startswith("#"):
            continue
        c = line.split("\t")
        rows = scaffolds.setdefault(c[0], [])
        if c[4] in ("U", "N"):
            rows.append(("G", int(c[5]), c[6]))
        else:
            rows.append(["F", c[5], int(c[6]), int(c[7]), {"+": 1, "-": -1}.get(c[8], 0), [t for t in c[9:] if t]])
    return [{"name": n, "rows": r} for n, r in scaffolds.items()]


def read_tpf_rows(text):
    """
    the rows of a TPF file the tool wrote.  A GAP line carries no scaffold name: it belongs to the scaffold of the
    sequence line before it (in front of the first sequence line: to the scaffold that follows)
    """
    kinds = {"TYPE-2": "scaffold", "TYPE-3": "contig"}
    scaffolds = {}
    pending = []
    last = None
    for line in text.splitlines():
        if not line.strip() or line.startswith("#"):
            continue
        c = line.split("\t")
        if c[0] == "GAP":
            gap = ("G", int(c[2]), kinds.get(c[1], c[1].lower().replace("-", "_")))
            (scaffolds[last] if last is not None else pending).append(gap)
            continue
        name, span = c[1].rsplit(":", 1)
        start, end = span.split("-")
        rows = scaffolds.setdefault(c[2], [])
        rows.extend(pending)
        pending = []
        rows.append(["F", name, int(start), int(end), {"PLUS": 1, "MINUS": -1}.get(c[3], 0), []])
        last = c[2]
    return [{"name": n, "rows": r} for n, r in scaffolds.items()]


def fasta_ok(inp):
    """
    the input spec is what a FASTA file denotes: per scaffold forward contigs named after the scaffold with their
    position as coordinates, separated by one non-empty gap row of type scaffold (an N run), no terminal gap rows
    """
    for sc in inp:
        pos = 0
        prev = "G"
        for r in sc["rows"]:
            if r[0] == "G":
                if prev == "G" or r[2] != "scaffold" or r[1] < 1:
                    return False
            elif prev == "F" or r[1] != sc["name"] or r[2] != pos + 1 or r[4] != 1:
                return False
            prev = r[0]
            pos += pg.row_len(r)
        if prev == "G":
            return False
    return True


def input_fasta_bytes(inp, seed=7):
    rng = random.Random(seed)
    out = []
    for sc in inp:
        seq = "".join("N" * r[1] if r[0] == "G" else "".join(rng.choice("ACGT") for _ in range(pg.row_len(r))) for r in sc["rows"])
        out.append(f">{sc['name']}\n")
        out.extend(seq[i : i + 60] + "\n" for i in range(0, len(seq), 60))
    return "".join(out).encode()


def run_cli(case):
    """
    pretext-to-asm -a <input as AGP / TPF / FASTA> -p <PretextView AGP> -o <tmp>/out/out.<ext> -c <prefix>, in process,
    in a temporary directory that is removed.  -> {file name: {"scaffolds": [{"name", "rows"}]}} read from every
    assembly file written (FASTA output: from the .agp written beside each .fa), or None if the exit status is not 0
    """
    how = case["cli"]
    with tempfile.TemporaryDirectory(prefix="bounded_c07_") as d:
        d = pathlib.Path(d)
        asm = d / f"asm.{how['in']}"
        if how["in"] == "fa":
            asm.write_bytes(input_fasta_bytes(case["input"]))
        elif how["in"] == "tpf":
            asm.write_text(pg.input_tpf_text(case["input"]))
        else:
            asm.write_text(pg.input_agp_text(case["input"]))
        (d / "pretext.agp").write_text(pg.pretext_agp_text(case["map"]))
        out_dir = d / "out"
        out_dir.mkdir()
        args = ["-a", asm, "-p", d / "pretext.agp", "-o", out_dir / f"out.{how['out']}", "-c", case.get("prefix", "SUPER_"), "--no-write-log", "-l", "CRITICAL"]
        code, _, _, _ = cli_gen.run_pretext_to_asm(args)
        if code != 0:
            return None
        ext = ".tpf" if how["out"] == "tpf" else ".agp"
        files = {}
        for p in sorted(out_dir.iterdir()):
            if p.is_file() and p.name.endswith(ext):
                text = p.read_text()
                files[p.name] = {"scaffolds": read_tpf_rows(text) if ext == ".tpf" else read_agp_rows(text)}
    return files


def replay(inp):
    col = Collector("replay")
    case = {k: v for k, v in inp.items() if k not in ("gap_rule", "classes")}
    check(case, col, inp.get("gap_rule", True), inp.get("classes", ()))
    return col.failures[0]["message"] if col.failures else None


# --------------------------------------------------------------------------------------------------
# input families with runs of gap rows (consecutive gap rows between contigs, in front of the first and behind the
# last contig, 0/1/2-base gaps) and maps that break on, next to and inside every row of such a run
# --------------------------------------------------------------------------------------------------

S1, S3, S200 = (1, "scaffold"), (3, "scaffold"), (200, "scaffold")
C0, C1, C2, C10, C25 = (0, "contig"), (1, "contig"), (2, "contig"), (10, "contig"), (25, "contig")
GAP_KINDS = (C1, S3, C10, S200, C0, S1, C2, C25)


def gap_run_scaffold(name, lens, strands=None, runs=None, lead=(), trail=(), naming="own", tag="1"):
    """
    like pipeline_gen.make_scaffold, but runs[j] is the TUPLE of gap rows between contig j and contig j + 1 (() = the
    contigs abut) and lead / trail are tuples of gap rows in front of the first / behind the last contig
    """
    k = len(lens)
    strands = strands or [1] * k
    runs = runs or [()] * (k - 1)
    rows = [pg.G(*g) for g in lead]
    pos = sum(g[0] for g in lead)
    for j, ln in enumerate(lens):
        if j:
            for g in runs[j - 1]:
                rows.append(pg.G(*g))
                pos += g[0]
        if naming == "fasta":
            rows.append(pg.F(name, pos + 1, pos + ln, strands[j]))
        elif naming == "own":
            rows.append(pg.F(f"ctg{tag}{chr(97 + j)}", 1, ln, strands[j]))
        else:
            base = 6000 + 3000 * (j % 2)
            rows.append(pg.F(f"old{tag}{j // 2}", base + 1, base + ln, strands[j]))
        pos += ln
    rows.extend(pg.G(*g) for g in trail)
    return {"name": name, "rows": rows}


def boundary_marks(rows, bpt, n):
    """
    texel boundaries on every row boundary p of the scaffold (the last boundary at or before p and the first at or
    after it), one texel before and after those, and in the middle of every gap row of >= 4 bases.  At 1 bp per texel
    these are the breaks after base p - 1, p and p + 1.
    """
    f = pg.bptF(bpt)
    marks = set()
    pos = 0
    for r in rows:
        ln = pg.row_len(r)
        for p in (pos, pos + ln):
            q = Fraction(p) / f
            lo, hi = math.floor(q), math.ceil(q)
            marks.update((lo - 1, lo, hi, hi + 1))
        if r[0] == "G" and ln >= 4:
            marks.add(math.floor(Fraction(pos + ln // 2) / f))
        pos += ln
    return sorted(t for t in marks if 2 <= t <= n - 2)


def gap_run_cases(inputs, bpts_for, rng, max_cuts, k2_sample, k3_sample, painted_p=0.5):
    """
    For every input (list of scaffolds; the FIRST is in the map, the others are absent from it), texel size in
    bpts_for(input number) and rounding: EVERY set of <= max_cuts breaks from boundary_marks() that leaves pieces of
    >= 2 texels; one piece: both orientations; two pieces: `k2_sample` seeded ones of the 16 permutation x orientation
    x grouping arrangements (None = all); three pieces: `k3_sample` seeded ones of the 192; Painted seeded per
    Pretext scaffold.
    """
    i = 0
    for ii, inp in enumerate(inputs):
        sc = inp[0]
        ln = pg.rows_len(sc["rows"])
        for bpt in bpts_for(ii):
            seen_n = set()
            for rounding in ("floor", "ceil"):
                n = pg.texels(ln, bpt, rounding)
                if n < 1 or n in seen_n:
                    continue
                seen_n.add(n)
                marks = boundary_marks(sc["rows"], bpt, n)
                for c in range(max_cuts + 1):
                    for cs in itertools.combinations(marks, c):
                        if any(y - x < 2 for x, y in itertools.pairwise((0, *cs, n))):
                            continue
                        pcs = pg.pieces_of(sc, bpt, rounding, cs)
                        k = len(pcs)
                        arrs = pg.ALL_ARRANGEMENTS[k]
                        if k == 2 and k2_sample:
                            arrs = rng.sample(arrs, k2_sample)
                        elif k == 3:
                            arrs = rng.sample(arrs, k3_sample)
                        for arr in arrs:
                            i += 1
                            painted = [rng.random() < painted_p for _ in arr[2]]
                            mp = {"bpt": bpt, "scaffolds": pg.arrange(pcs, arr, painted)}
                            yield {"input": inp, "map": mp, "prefix": "SUPER_", "via": pg.pick_via(inp, i)}


def gap_run_inputs(tier):
    """
    The enumerated gap-run geometries.  One mapped scaffold of 2-3 contigs (7 and 12 bases: long enough for a break
    one and two texels inside a contig at every texel size used) with
      * every run of 2 gap rows from a set of gap kinds between the first two contigs (quick: 3 kinds, thorough: 7,
        among them the 0-, 1- and 2-base gaps and the gap that equals the join gap), some runs of 3;
      * the same with a third contig behind a single gap / abutting / behind a second run;
      * runs of 1-2 gap rows in front of the first and/or behind the last contig, with and without a run in between;
      * a second scaffold that is absent from the map and has runs of all three sorts.
    Strand pattern and naming style rotate over the list.
    """
    quick = tier == "quick"
    kinds = (C1, S3, C10) if quick else (C1, S3, C10, S200, C0, S1, C2)
    specs = []  # (lens, runs, lead, trail)
    for g1 in kinds:
        for g2 in kinds:
            specs.append(((7, 12), [(g1, g2)], (), ()))
    triples = [(C1, C1, C1), (S3, C1, C10), (C10, S3, S3), (S200, C10, S200), (C0, S3, C0), (C1, C0, S3)]
    for t in triples[: 2 if quick else 6]:
        specs.append(((12, 7), [t], (), ()))
    # 0/1/2-base gaps and the join-gap look-alike in a run (quick; thorough has them in `kinds`)
    if quick:
        for run in ((C0, S3), (S3, C0), (S200, C10), (C10, S200), (C2, S1)):
            specs.append(((7, 12), [run], (), ()))
    # a third contig
    second = [(), (S3,), (C10, C1)] if quick else [(), (S3,), (C1,), (C10, C1), (S3, S200), (C0, C10)]
    first = [(S3, C1), (C10, S3)] if quick else [(S3, C1), (C10, S3), (C1, C1), (S200, C10), (C0, S3), (C1, C10, S3)]
    for r1 in first:
        for r2 in second:
            specs.append(((7, 7, 7), [r1, r2], (), ()))
            if not quick:
                specs.append(((12, 2, 7), [r2, r1], (), ()))
    # terminal runs
    terminal = [(S3,), (C1, S3), (C10, C1)] if quick else [(S3,), (C1,), (C0,), (C1, S3), (C10, C1), (S3, S200), (C0, C10), (C1, C1, C10)]
    for t in terminal:
        specs.append(((7, 12), [(C10,)], t, ()))
        specs.append(((7, 12), [(C10,)], (), t))
        specs.append(((12, 7), [()], t, tuple(reversed(t))))
        specs.append(((7, 7), [(S3, C1)], t, t))
        if not quick:
            specs.append(((12,), [], t, ()))
            specs.append(((12,), [], (), t))
            specs.append(((12,), [], t, t))
    inputs = []
    for i, (lens, runs, lead, trail) in enumerate(specs):
        k = len(lens)
        sp = pg.strand_patterns(k)[i % (2 if k == 1 else 4)]
        naming = ("own", "fasta", "offset")[i % 3]
        inp = [gap_run_scaffold("scaffold_1", lens, sp, runs, lead, trail, naming, tag="1")]
        if i % 4 == 3:
            # a scaffold the map does not mention, with runs everywhere
            inp.append(gap_run_scaffold("scaffold_2", (7, 2, 12), (1, -1, 1), [(C10, S3), (C1,)], (S3, C1), (C1, C10), "own", tag="2"))
        inputs.append(inp)
    return inputs


def random_gap_run_inputs(rng, n):
    """seeded: 1-3 scaffolds x 1-4 contigs, between two contigs 0-3 gap rows (mostly 2), terminal runs of 0-2 gap rows"""
    lens = (1, 2, 7, 12, 40, 150)
    for _ in range(n):
        inp = []
        for si in range(rng.choice((1, 1, 2, 3))):
            k = rng.randint(1, 4)
            lt = [rng.choice(lens) for _ in range(k)]
            runs = [tuple(rng.choice(GAP_KINDS) for _ in range(rng.choice((0, 1, 2, 2, 2, 3)))) for _ in range(k - 1)]
            lead = tuple(rng.choice(GAP_KINDS) for _ in range(rng.choice((0, 0, 0, 1, 2))))
            trail = tuple(rng.choice(GAP_KINDS) for _ in range(rng.choice((0, 0, 0, 1, 2))))
            sp = [rng.choice((1, -1)) for _ in range(k)]
            inp.append(gap_run_scaffold(f"scaffold_{si + 1}", lt, sp, runs, lead, trail, rng.choice(("own", "fasta", "offset")), tag=str(si + 1)))
        yield inp


# --------------------------------------------------------------------------------------------------
# row order is not name order: re-labelled contigs, and scaffolds whose contigs the map does not show
# --------------------------------------------------------------------------------------------------

NAME_ORDERS = ("names-descending", "pieces-descending", "numbers-past-nine", "shuffled")


def relabel(rows, tag, order, names="distinct"):
    """
    the rows with other contig labels; lengths, strands, gap rows and tags stay.  `order` is a permutation of the
    contig numbers 0..k-1: the contig on row position j gets the label of rank order[j] in (name, start) order.
      names = "distinct"  rank r is called ctg<tag><r-th letter> and runs 1..L
      names = "pieces"    all contigs are pieces of the sequence old<tag>; rank r starts one base behind the next multiple
                          of 1000 after rank r - 1, except that two pieces on neighbouring row positions, on the SAME strand,
                          separated by gap rows, whose ranks follow each other in reading direction of that strand, are
                          contiguous in old<tag> (a contig an earlier round split: ctg7:301-500 (-), gap, ctg7:1-300 (-))
      names = "numbers"   rank r is called ctg<tag>n<8 + r> (numeric order and string order differ past nine)
    """
    out = []
    j = 0
    frs = [r for r in rows if r[0] == "F"]
    starts = {}
    if names == "pieces":
        # lay the ranks out on old<tag> from left to right
        by_rank = sorted(range(len(frs)), key=lambda x: order[x])
        pos = 0
        for n, x in enumerate(by_rank):
            if n:
                px = by_rank[n - 1]
                # pieces that follow each other on row positions AND in the sequence, read in strand direction
                collinear = abs(px - x) == 1 and frs[px][4] == frs[x][4] and (x - px) * frs[x][4] > 0
                pos += 0 if collinear and separated_by_gap(rows, min(px, x)) else 1000 - (pos % 1000)
            starts[x] = pos + 1
            pos += pg.row_len(frs[x])
    for r in rows:
        if r[0] == "G":
            out.append(list(r))
            continue
        ln = pg.row_len(r)
        rank = order[j]
        if names == "pieces":
            out.append(["F", f"old{tag}", starts[j], starts[j] + ln - 1, r[4], list(r[5])])
        elif names == "numbers":
            out.append(["F", f"ctg{tag}n{8 + rank}", 1, ln, r[4], list(r[5])])
        else:
            out.append(["F", f"ctg{tag}{chr(97 + rank)}", 1, ln, r[4], list(r[5])])
        j += 1
    return out


def separated_by_gap(rows, j):
    """contig number j and contig number j + 1 of the rows have at least one gap row between them"""
    n = -1
    for i, r in enumerate(rows):
        if r[0] == "F":
            n += 1
            if n == j:
                return i + 1 < len(rows) and rows[i + 1][0] == "G"
    return False


def renamed_contigs(inp, style, rng):
    """
    the same input assembly - scaffold names, row lengths, gap rows and strands unchanged, so every map of the one is a
    map of the other - with the contigs of every scaffold re-labelled so that row order is not (name, start) order
    """
    out = []
    for si, sc in enumerate(inp):
        k = sum(1 for r in sc["rows"] if r[0] == "F")
        tag = str(si + 1)
        if style == "names-descending":
            rows = relabel(sc["rows"], tag, list(range(k - 1, -1, -1)), "distinct")
        elif style == "pieces-descending":
            rows = relabel(sc["rows"], tag, list(range(k - 1, -1, -1)), "pieces")
        elif style == "numbers-past-nine":
            rows = relabel(sc["rows"], tag, list(range(k)), "numbers")
        else:
            order = list(range(k))
            rng.shuffle(order)
            rows = relabel(sc["rows"], tag, order, rng.choice(("distinct", "pieces")))
        out.append({"name": sc["name"], "rows": rows})
    return out


def max_unshown_contigs(case):
    """the largest number of contigs of one input scaffold of which no base is shown by any piece of the map"""
    shown = {}
    for sc in case["map"]["scaffolds"]:
        for p in sc:
            shown.setdefault(p[0], []).append((p[1], p[2]))
    best = 0
    for s in case["input"]:
        spans = shown.get(s["name"], ())
        pos = 0
        n = 0
        for r in s["rows"]:
            ln = pg.row_len(r)
            if r[0] == "F" and not any(a <= pos + ln and pos + 1 <= b for a, b in spans):
                n += 1
            pos += ln
        best = max(best, n)
    return best


LEFTOVER_SEPARATORS = ((), (C2,), (S3, C1))


def leftover_order_inputs(tier):
    """
    Inputs with contigs the map will not show, at 33.3 bp per texel (thorough: also at 10):
      scaffold_1   one contig of 150 bases, in `trailing` geometries followed by 2-3 contigs of 1-2 bases which lie inside
                   the final partial texel when PretextView rounds the scaffold down
      scaffold_2   in `absent` geometries 2-4 contigs of 1-3 bases: shorter than a texel, absent from the map
    The short contigs get EVERY order of (name, start) rank against row order (all k! permutations; quick: 4 contigs a seeded
    6 of the 24), as distinct names and as pieces of one sequence, plus numbered names past nine in row order; separators
    between them (abutting / one gap / a run of two gap rows) and strand patterns: all combinations in the thorough tier,
    rotating in the quick tier.  Yields (texel size, input).
    """
    quick = tier == "quick"
    n = 0
    for bpt in (33.3,) if quick else (33.3, 10.0):
        small = (2, 1, 2, 3) if bpt > 30 else (1, 2, 1, 1)
        seps = LEFTOVER_SEPARATORS if bpt > 30 else ((), (C1,), (C1, S1))
        for k in (2, 3, 4):
            perms = list(itertools.permutations(range(k)))
            if k == 4:
                perms = perms[1::4] if quick else perms
            sep_sets = list(itertools.product(seps, repeat=k - 1))
            strand_sets = pg.strand_patterns(k)
            for perm in perms:
                for names in ("distinct", "pieces", "numbers"):
                    if names == "numbers" and list(perm) != list(range(k)):
                        continue
                    combos = [(a, b) for a in sep_sets for b in strand_sets]
                    if quick or k == 4:
                        combos = [combos[(n + 5 * i) % len(combos)] for i in range(2)]
                    for sep_set, strands in combos:
                        for where in ("absent", "trailing", "both"):
                            n += 1
                            if quick and where == "both" and n % 3:
                                continue
                            kk = k if where != "trailing" or k < 4 else 3
                            short = gap_run_scaffold("x", small[:kk], strands[:kk], list(sep_set[: kk - 1]))["rows"]
                            pm = [sorted(perm[:kk]).index(x) for x in perm[:kk]]
                            s1 = [pg.F("ctg1a", 1, 150, (1, -1)[n % 2])]
                            inp = []
                            if where in ("trailing", "both"):
                                s1 = s1 + [pg.G(*(C1 if n % 4 else S3))] + relabel(short, "1t", pm, names)
                                shown_to = pg.texels(pg.rows_len(s1), bpt, "floor") * pg.bptF(bpt)
                                if shown_to > 150 + s1[1][1]:
                                    continue  # the trailing contigs would not all lie inside the final partial texel
                            inp.append({"name": "scaffold_1", "rows": s1})
                            if where in ("absent", "both"):
                                if pg.rows_len(short) >= bpt:
                                    continue  # not shorter than a texel
                                inp.append({"name": "scaffold_2", "rows": relabel(short, "2", pm, names)})
                            yield bpt, inp


def leftover_order_cases(tier):
    """
    the maps for leftover_order_inputs: scaffold_1 whole at floor (its trailing contigs are not shown) and - no trailing
    contigs - at ceil, forward / reversed, unpainted / painted; cut in its middle with the halves swapped; scaffold_2 never
    in the map.  One of them per input in the quick tier (rotating), all in the thorough tier.
    """
    quick = tier == "quick"
    i = 0
    for ii, (bpt, inp) in enumerate(leftover_order_inputs(tier)):
        s1 = inp[0]
        trailing = len(s1["rows"]) > 1
        maps = []
        for rounding in ("floor",) if trailing else ("floor", "ceil"):
            (whole,) = pg.pieces_of(s1, bpt, rounding, ())
            n = pg.texels(pg.rows_len(s1["rows"]), bpt, rounding)
            a, b = pg.pieces_of(s1, bpt, rounding, (n // 2,))
            for painted in ([], ["Painted"]):
                maps.append([[[*whole, 1, painted]]])
                maps.append([[[*whole, -1, painted]]])
                maps.append([[[*b, 1, painted], [*a, -1, painted]]])
                maps.append([[[*b, -1, painted]], [[*a, 1, painted]]])
        for mi, scaffolds in enumerate(maps):
            i += 1
            if quick and mi != (5 * ii) % len(maps):
                continue
            yield {"input": inp, "map": {"bpt": bpt, "scaffolds": scaffolds}, "prefix": "SUPER_", "via": pg.pick_via(inp, i)}


# --------------------------------------------------------------------------------------------------
# command line families: inputs whose gaps are not the join gap, maps that join non-neighbours
# --------------------------------------------------------------------------------------------------

S100, S5000, S50 = (100, "scaffold"), (5000, "scaffold"), (50, "scaffold")
C200, C50 = (200, "contig"), (50, "contig")
# name -> (gaps between the 3 contigs of scaffold_1, gap between the 2 contigs of scaffold_2); None = the contigs abut
CLI_PALETTES = {
    "all gaps 100 bp scaffold": ((S100, S100), (S100,)),
    "all gaps 200 bp contig": ((C200, C200), (C200,)),
    "all gaps 10 bp contig": ((C10, C10), (C10,)),
    "no gap row at all (contigs abut)": ((None, None), (None,)),
    "one contig per scaffold": None,
    "several gaps, first 5000 bp scaffold": ((S5000, S200, C1), (C25,)),
    "several gaps, first 200 bp scaffold": ((S200, S100, C25), (C10,)),
    "gapless first scaffold, then 50 bp contig": ((None, None), (C50,)),
    "first gap 200 bp scaffold in the second scaffold only": ((None, None), (S200,)),
    "AGP gap types centromere / short_arm": (((300, "centromere"), S200), ((1000, "short_arm"),)),
    "FASTA: N runs of 100 bp": ((S100, S100), (S100,)),
    "FASTA: N runs of 10, 5000 and 1 bp": (((10, "scaffold"), S5000), (S1,)),
    "FASTA: N runs of 200 then 50 bp": ((S200, S50), (S100,)),
}
CLI_BPT = 10.0


def cli_input(palette, i, small_tail=False):
    """
    three input scaffolds: scaffold_1 of 3 contigs (150, 400 and 90 or - small_tail - 7 bases: with floor rounding
    the last one lies inside the final partial texel), scaffold_2 of 2 contigs (400, 90 / 7), scaffold_3 of one
    (230); gaps from the palette; strands and naming style rotate with i (FASTA palettes: what a FASTA file denotes)
    """
    tail = 7 if small_tail else 90
    gaps = CLI_PALETTES[palette]
    if palette.startswith("FASTA"):
        return [
            pg.make_scaffold("scaffold_1", (150, 400, tail), None, list(gaps[0]), "fasta"),
            pg.make_scaffold("scaffold_2", (400, tail), None, list(gaps[1]), "fasta"),
            pg.make_scaffold("scaffold_3", (230,), None, None, "fasta"),
        ]
    naming = ("own", "offset", "fasta")[i % 3]
    if gaps is None:
        return [
            pg.make_scaffold("scaffold_1", (400,), [(1, -1)[i % 2]], None, naming, tag="1"),
            pg.make_scaffold("scaffold_2", (150,), [(1, -1)[i // 2 % 2]], None, naming, tag="2"),
            pg.make_scaffold("scaffold_3", (230,), None, None, naming, tag="3"),
        ]
    return [
        pg.make_scaffold("scaffold_1", (150, 400, tail), pg.strand_patterns(3)[i % 4], list(gaps[0]), naming, tag="1"),
        pg.make_scaffold("scaffold_2", (400, tail), pg.strand_patterns(2)[i // 2 % 4], list(gaps[1]), naming, tag="2"),
        pg.make_scaffold("scaffold_3", (230,), None, None, naming, tag="3"),
    ]


def cli_formats(inp):
    """(input format, output format) pairs the input spec can be carried by"""
    if fasta_ok(inp) and len(pg.contigs(inp)) > len(inp):
        return [("fa", "fa"), ("fa", "agp"), ("agp", "tpf")]
    fmts = [("agp", "agp"), ("agp", "tpf")]
    if pg.tpf_ok(inp):
        fmts += [("tpf", "tpf"), ("tpf", "agp")]
    return fmts


def cli_join_maps(inp, bpt, rounding):
    """
    maps (PretextView model: pieces on the texel grid of every input scaffold, every texel in exactly one piece or the
    scaffold absent) that make junctions between contigs which were not neighbours in the input.  scaffold_1 is cut
    at the texel boundary at the end of its first contig (one contig only: in its middle)
    """
    whole = [pg.pieces_of(sc, bpt, rounding, ())[0] for sc in inp]
    first = inp[0]["rows"][0]
    n1 = pg.texels(pg.rows_len(inp[0]["rows"]), bpt, rounding)
    cut = math.floor(Fraction(pg.row_len(first)) / pg.bptF(bpt))
    if len([r for r in inp[0]["rows"] if r[0] == "F"]) == 1:
        cut = n1 // 2
    p1, p2 = pg.pieces_of(inp[0], bpt, rounding, (cut,))
    w2, w3 = whole[1], whole[2]

    def pc(piece, strand, painted):
        return [*piece[:3], strand, ["Painted"] if painted else []]

    return {
        "three scaffolds fused into one": [[pc(whole[0], 1, True), pc(w2, -1, True), pc(w3, 1, True)]],
        "halves of scaffold_1 swapped": [[pc(p2, 1, True), pc(p1, 1, True)], [pc(w2, 1, False)], [pc(w3, 1, False)]],
        "halves of scaffold_1 joined to other scaffolds": [[pc(p1, 1, True), pc(w2, -1, True)], [pc(w3, 1, False), pc(p2, -1, False)]],
        "scaffold_3 absent, scaffold_2 in front of the second half": [[pc(w2, 1, False), pc(p2, 1, False)], [pc(p1, -1, True)]],
    }


def cli_cases(tier, rng):
    """
    quick: every palette x the four join maps, one (input format, output format, rounding, tail) each, rotating:
    ~50 command line runs, plus 24 seeded edit scripts.  thorough: every palette x map x rounding x tail x format
    pair, and 1500 seeded edit scripts (pipeline_gen.scripts_for) over the palette inputs and over seeded inputs
    with random gaps.
    """
    quick = tier == "quick"
    i = 0
    for palette in CLI_PALETTES:
        for tail in (False, True):
            for rounding in ("floor", "ceil"):
                inp = cli_input(palette, i, tail)
                fmts = cli_formats(inp)
                for mi, (shape, scaffolds) in enumerate(cli_join_maps(inp, CLI_BPT, rounding).items()):
                    i += 1
                    if quick and (tail, rounding) != ((False, "ceil"), (True, "floor"), (True, "ceil"), (False, "floor"))[(mi + len(palette)) % 4]:
                        continue
                    for fi, (fin, fout) in enumerate(fmts):
                        if quick and fi != i % len(fmts):
                            continue
                        yield "cli-join", {
                            "input": inp,
                            "map": {"bpt": CLI_BPT, "scaffolds": scaffolds},
                            "prefix": "SUPER_",
                            "cli": {"in": fin, "out": fout, "palette": palette, "map": shape},
                        }
    names = list(CLI_PALETTES)
    for k in range(24 if quick else 1500):
        if k % 3 == 2 and not quick:
            (inp,) = random_gap_run_inputs(rng, 1)
            if sum(1 for r in pg.contigs(inp)) < 2:
                continue
            palette = "seeded gaps"
        else:
            palette = names[k % len(names)]
            inp = cli_input(palette, k, rng.random() < 0.5)
        bpt = rng.choice((10.0, 10.0, 2.5, 33.3))
        fmts = cli_formats(inp)
        for mp, _ in pg.scripts_for(inp, bpt, rng, 1, max_cuts=2, painted_p=0.5, uncut_p=0.4):
            if pg.n_cut_pieces({"map": mp}) == len(mp["scaffolds"]):
                continue  # no Pretext scaffold of two pieces: no join asked for
            fin, fout = fmts[k % len(fmts)]
            yield "cli-random", {"input": inp, "map": mp, "prefix": "SUPER_", "cli": {"in": fin, "out": fout, "palette": palette, "map": "seeded edit script"}}


def drop_one_piece(case, rng):
    scs = [[list(p) for p in sc] for sc in case["map"]["scaffolds"]]
    flat = [(i, j) for i, sc in enumerate(scs) for j in range(len(sc))]
    i, j = rng.choice(flat)
    del scs[i][j]
    return {**case, "map": {"bpt": case["map"]["bpt"], "scaffolds": [sc for sc in scs if sc]}}


def run(tier, seed, **opts):
    rng = random.Random(seed)
    col = Collector(
        "PretextView-model edit scripts from pipeline_gen (exhaustive tiny scope, single scaffolds of <= 3 contigs over "
        "every length tuple incl. abutting contigs and terminal gap rows, sub-texel contig runs, 2-3 scaffold inputs; "
        "floor/ceil, sub-texel scaffolds absent, 70 % unpainted) judged on both sentences of the statement; the same "
        "maps with one piece dropped (class 'dropped-piece-map': on the texel grid but not producible by PretextView - "
        "still judged on the gap rule, which the code satisfies for every map) and seeded perturbed maps judged on "
        "the first sentence only; this module's own gap-run families (runs of 2-3 consecutive gap rows between contigs, "
        "1-2 gap rows in front of the first / behind the last contig, 0/1/2-base gaps, scaffolds absent from the map: "
        "enumerated geometries x every set of <= 2 breaks on, one texel next to and inside every row of the scaffold, "
        "plus seeded larger ones), a junction's gap rows judged together against the whole input run or one join gap; "
        "the real pretext-to-asm command line on AGP / TPF / FASTA inputs whose gaps are not 200 bp / scaffold (other "
        "lengths, type contig, no gap, several different gaps, first gap 200 / scaffold or not) with maps that fuse whole "
        "scaffolds, swap or re-join halves of a cut scaffold, leave scaffolds out, plus seeded edit scripts: the written "
        "AGP / TPF files read back by this module's own readers and judged with the same oracle; "
        "row order != (contig name, start) order: scaffolds whose 2-4 short contigs the map does not show (sub-texel scaffold absent, "
        "contigs inside the final partial texel) with every order of names / of coordinates of pieces of one sequence, and every "
        "case of the other families with >= 2 unshown contigs in a scaffold run again with re-labelled contigs (names descending, "
        "pieces with descending coordinates, numbers past nine, seeded shuffle); "
        "non-trivial = distinct completed case whose outputs contain >= 1 junction"
    )
    quick = tier == "quick"
    stats = {"errors": 0, "junctions": 0}
    # its own seeded stream for the re-labelling, so that the cases of the other families are what they were without it
    rng_names = random.Random(7919 * seed + 17)
    relabelled = [0]

    def one(case, fam, gap_rule=True, classes=(), again=True):
        n = check(case, col, gap_rule, classes)
        if n is None:
            stats["errors"] += 1
        else:
            stats["junctions"] += n
        stats[fam] = stats.get(fam, 0) + 1
        ev = col.evaluations
        col.case((pg.case_key(case), gap_rule), nontrivial=bool(n), sample={"family": fam, **case} if (n and ev % 1499 == 0) else None)
        if again and not case.get("cli") and max_unshown_contigs(case) >= 2:
            # some scaffold has >= 2 contigs the map does not show: the same case with row order != (name, start) order
            relabelled[0] += 1
            style = NAME_ORDERS[relabelled[0] % len(NAME_ORDERS)]
            one({**case, "input": renamed_contigs(case["input"], style, rng_names)}, "relabelled", gap_rule, classes, again=False)

    scopes = pg.tiny_scopes(tier)
    tiny_n = 0
    for kw in scopes:
        for case in pg.tiny_exhaustive(**kw):
            tiny_n += 1
            one(case, "tiny")
            if col.full:
                break
    for fam, case, _ in pg.model_cases(tier, rng, painted_p=0.3):
        if col.full:
            break
        one(case, fam)
        roll = rng.random()
        if pg.n_cut_pieces(case) >= 2 and roll < 0.5:
            one(drop_one_piece(case, rng), "dropped", True, ("dropped-piece-map",))
        elif roll > 0.8:
            for pc, _ in pg.perturbations(case, rng, 1):
                one(pc, "perturbed", False)
    # runs of gap rows: enumerated geometries x every break set on / next to / inside the rows of the runs
    run_inputs = gap_run_inputs(tier)
    run_bpts = (1.0, 2.5) if quick else (1.0, 2.5, 10.0)
    if quick:
        # every geometry at 1 bp per texel (a break after every base), every other one also at 2.5
        stream = gap_run_cases(run_inputs, lambda i: run_bpts[: 1 + i % 2], rng, max_cuts=2, k2_sample=6, k3_sample=1)
    else:
        stream = gap_run_cases(run_inputs, lambda i: run_bpts, rng, max_cuts=2, k2_sample=None, k3_sample=8)
    for case in stream:
        if col.full:
            break
        one(case, "gaprun")
        roll = rng.random()
        if pg.n_cut_pieces(case) >= 2 and roll < (0.15 if quick else 0.3):
            one(drop_one_piece(case, rng), "gaprun-dropped", True, ("dropped-piece-map",))
        elif roll > 0.95:
            for pc, _ in pg.perturbations(case, rng, 1):
                one(pc, "gaprun-perturbed", False)
    # seeded larger inputs with runs of gap rows, scripts as for the shared stream
    for inp in random_gap_run_inputs(rng, 500 if quick else 12000):
        if col.full:
            break
        bpt = rng.choice((1.0, 2.5, 10.0, 33.3))
        for mp, _ in pg.scripts_for(inp, bpt, rng, 2, painted_p=0.5):
            stats["gr_i"] = stats.get("gr_i", 0) + 1
            case = {"input": inp, "map": mp, "prefix": "SUPER_", "via": pg.pick_via(inp, stats["gr_i"])}
            one(case, "gaprun-random")
            if pg.n_cut_pieces(case) >= 2 and rng.random() < 0.3:
                one(drop_one_piece(case, rng), "gaprun-dropped", True, ("dropped-piece-map",))
    stats.pop("gr_i", None)
    # contigs the map does not show, listed in every order of their names / coordinates
    for case in leftover_order_cases(tier):
        if col.full:
            break
        one(case, "leftover-order", again=False)
    # the tool's own command line: inputs whose gaps are not the join gap, maps joining non-neighbours
    for fam, case in cli_cases(tier, rng):
        if col.full:
            break
        one(case, fam)
    return col.result(
        bounds=(
            "input: 1-3 scaffolds x 1-6 contigs, contig lengths from {1,2,7,12,40,150,400,1000}, gaps none/1/10/20/25/200 of "
            "types scaffold/contig, both strands, optional leading/trailing gap rows; texel sizes {1,2.5,10,33.3}; <= 3 cuts "
            f"per scaffold; gap-run families: {len(run_inputs)} enumerated geometries of 1-3 contigs (7/12 bases) with runs of <= 3 gap "
            f"rows from {{0,1,2,3,10,25,200}} bases between contigs and at the scaffold ends at texel sizes {list(run_bpts)}, every set of <= 2 breaks on/next to/inside the rows "
            f"(2 pieces: {'6 seeded of the' if quick else 'all'} 16 arrangements, 3 pieces: {1 if quick else 8} seeded of 192), "
            "seeded inputs of 1-3 scaffolds x 1-4 contigs (1-150 bases) with runs of 0-3 gap rows; command line: "
            f"{len(CLI_PALETTES)} gap palettes on 3 scaffolds of 3/2/1 contigs (7-400 bases) at 10 bp per texel x 4 join maps x "
            f"{'one rotating' if quick else 'every'} (rounding, sub-texel tail, input/output format) + {24 if quick else 1500} seeded edit scripts; "
            "unshown contigs: 2-4 contigs of 1-3 bases behind a 150-base contig and / or as an absent scaffold at 33.3 (thorough: and 10) bp per texel, all k! "
            f"orders (quick: 6 of 24 for k = 4) x distinct names / pieces of one sequence, {'one rotating map' if quick else '8-16 maps'} each; <= 3 cuts "
            f"per scaffold; tiny scopes ({tiny_n} cases: {pg.describe_scopes(scopes)}) enumerated fully, the rest seeded; output junctions judged: "
            f"{stats['junctions']}; runs ending in an error (not judged): {stats['errors']}; per family: "
            + ", ".join(f"{k}={v}" for k, v in sorted(stats.items()) if k not in ("errors", "junctions"))
        ),
        exhaustive=False,
    )
