"""
C17 bounded tier: outputs are a deterministic function of the input files.

Every comparison is between the complete sets of files written by two runs of the real CLIs on the same
input bytes (byte for byte, the .log included - it prints no absolute paths), where the runs differ only in
things the property says must not matter: PYTHONHASHSEED, working directory (absolute / relative output
path), FASTA index cache cold or warm, stream buffer size, what ran before in the same process, and the
format in which the same input assembly is supplied.

"What ran before in the same process" includes what it left behind in memory: the allocation history decides the
addresses of the objects of the next run, and nothing written to a file may depend on an address (identity hash,
id() as a sort key, iteration order of a set or dict of objects that hash by identity).  check_history repeats
runs on the same files in one process, in changing orders, with the garbage collector on / off, and with
"churn" between the runs: blocks of every small-object size class and objects of the project's own classes are
allocated, a random part is freed in random order (which scrambles the allocator's free lists) and the rest is
kept.  The same is done at the start of fresh interpreters.  Its inputs are maps in which the outcome hangs on a
tie that only the order of processing can decide: a contig shared by two or three Pretext pieces with equal
overlaps (cut through the exact middle or into equal thirds, below or above one texel), Pretext pieces that
overlap each other or duplicate one another, chromosomes of equal length competing for a size rank.

"Running again on the same inputs" also means running again with the same --output: what is on disk under the
output names when the tool starts (the files of an earlier run on the same or on other inputs, unrelated bytes) is
not an input file, so with the default --clobber every file the tool writes - the .log too - must be what it writes
into an empty directory (check_reruns; files the run does not write are left-overs, not outputs, and are ignored as
long as they are untouched).  "Freshly built or loaded from disk" is checked over every state the two cache files
next to the FASTA can be found in (check_cache_states): each of .fai / .agp absent, written from this FASTA and
newer / as old as / older than it, or left from an earlier version of the FASTA (same name, other gaps, other line
length) and older than / as old as it.  Whatever the state, the outputs must be those of the run without cache:
a cache is either valid for this FASTA or has to be rebuilt.  Only here the log lines that print an absolute path
(the warnings about the cache files) are left out of the comparison.

"All files written by the CLIs" includes the two index cache files pretext-to-asm leaves beside a FASTA input
(<fasta>.fai, <fasta>.agp): whenever a run writes them (cache cold, or found stale) they are part of its outputs and are
compared byte for byte with those of the reference run (key CACHE_KEY + file name in the snapshots; a run that finds a valid
cache writes none, so they are compared only between runs that both wrote them).  "The same inputs" are the same FILES, however
their paths are spelled on the command line: each case is also run with -a / -p given relative to the working directory
(from three directories, so the relative spellings differ) and as an absolute path with a detour (<cwd>/../...), cache cold
(check_case, cfg["spelling"]).

The .log is an output like any other (only lines printing an absolute path are exempt, and only where said above), at every
--log-level and also when the run ends in an error: check_log_levels runs maps whose Painted chromosomes carry several tags
(Target, Singleton, Unloc, ... - tags are kept in sets) at --log-level DEBUG / INFO under several PYTHONHASHSEED values and in
process, among them maps the tool refuses with a chromosome naming error (two haplotypes, the first one missing from or
repeated in a group); exit status and every file left in the output directory (the log of the failed run too) must be identical.

"Earlier runs in the same process" cuts both ways (check_sessions): a program that calls the command several times (a
test-suite, a wrapper looping over samples) does not clean up between the calls.  Sessions are sequences of invocations
in one process - different inputs, with and without --output, with and without --write-log, other --log-level, other
output formats, every invocation into a directory of its own - in which NOTHING is reset between the invocations (the
other in-process checks of this module remove the logging handlers after each run, a session does not).  After EACH
invocation (1) every file of every earlier invocation of the session must still be, byte for byte, what it was when that
invocation finished (a finished run's outputs are a function of its inputs, not of what the process does next), and
(2) the files of the invocation itself, its exit status and (without --output) its STDOUT must be those of the same
command in a fresh interpreter writing into an empty directory.

Sequence names are input bytes like any other (check_names): a FASTA header is cut at ASCII white space only, so a record
name may begin with, contain or end in a character that Unicode (but not ASCII) counts as white space - U+00A0, U+2003,
U+3000, U+0085, ... - or one of the separators 0x1C-0x1F.  Such an input assembly, supplied as FASTA with the index cache
cold, warm (in process and in a fresh interpreter) and in its "fresh" state, and supplied as AGP / TPF, must give the same
files / the same output assemblies row for row as the run that indexed the FASTA itself.
"""

import gc
import itertools
import locale
import os
import pathlib
import random
import re
import shutil
import tempfile

from . import cli_gen as g
from .common import Collector

P2A = "tola.assembly.scripts.pretext_to_asm"
AFMT = "tola.assembly.scripts.asm_format"
OUT = "xxTest1.2"
SPECIMENS = pathlib.Path(os.environ.get("VERIF_REPO") or "/repo") / "tests" / "data"

FIXED = {"simple": g.case_simple, "multi": g.case_multi, "cut": g.case_cut, "haps": g.case_haps}


class Work:
    """one case on disk: inputs in <root>/in (shared by all runs, so the index cache state is controlled)"""

    def __init__(self, case, root):
        self.case = case
        self.root = pathlib.Path(root)
        (self.root / "in").mkdir()
        (self.root / "elsewhere").mkdir()
        fmts = ("fa", "agp", "tpf") if g.tpf_can_carry(case) else ("fa", "agp")
        self.inputs = g.write_inputs(case, self.root / "in", formats=fmts)
        self.n = 0
        self.before = {}  # content of the output directory of the last run just before the tool started
        self._cache_content = {}

    def cache_files(self):
        fa = self.inputs["fa"]
        return [pathlib.Path(str(fa) + ".fai"), pathlib.Path(str(fa) + ".agp")]

    def cache_content(self, version):
        """
        (.fai bytes, .agp bytes) as the tool itself leaves them next to a FASTA named like the input: version "own" =
        this case's FASTA, "other" = an earlier version of it (other_version).  Built once, in a directory of its own.
        """
        if version not in self._cache_content:
            d = self.root / f"cache_{version}"
            d.mkdir()
            fa = d / self.inputs["fa"].name
            fa.write_bytes(self.inputs["fa"].read_bytes() if version == "own" else g.fasta_bytes(other_version(self.case), width=50))
            build_cache(fa)
            self._cache_content[version] = tuple(pathlib.Path(str(fa) + sfx).read_bytes() for sfx in (".fai", ".agp"))
        return self._cache_content[version]

    def set_cache_state(self, state):
        """state = {"fai": s, "agp": s}, s in CACHE_STATES; the FASTA gets the fixed mtime CACHE_T0"""
        fa = self.inputs["fa"]
        os.utime(fa, (CACHE_T0, CACHE_T0))
        for k, path in zip(("fai", "agp"), self.cache_files()):
            path.unlink(missing_ok=True)
            version, age = CACHE_STATES[state[k]][:2]
            if version is None:
                continue
            path.write_bytes(self.cache_content(version)[k == "agp"])
            os.utime(path, (CACHE_T0 + age, CACHE_T0 + age))

    def prepare_out_dir(self, spec, out_dir, out_arg, cwd, out_fmt):
        """
        what the output directory holds before the run: spec["prior"] = earlier runs with the same --output, each
        "same" (this case's inputs) or the name of one of the FIXED cases (other inputs); spec["junk"] = {"kind":
        "long" | "short", "names": [file names]}: files of those names holding unrelated bytes.
        """
        for k, prior in enumerate(spec.get("prior", [])):
            if prior == "same":
                inputs = self.inputs
            else:
                d = self.root / f"prior_{prior}"
                if not d.is_dir():
                    d.mkdir()
                    g.write_inputs(FIXED[prior](), d, formats=("fa", "agp"))
                inputs = {"fa": d / "asm.fa", "agp": d / "asm.agp", "pretext": d / "pretext.agp"}
            in_fmt = "fa" if out_fmt == "fa" else "agp"
            g.run_pretext_to_asm(["-a", inputs[in_fmt], "-p", inputs["pretext"], "-o", out_arg], cwd=cwd)  # may fail: whatever it leaves
        if junk := spec.get("junk"):
            data = b"left over from something else\n" * 4000 if junk["kind"] == "long" else b"?\n"
            for name in junk["names"]:
                (out_dir / pathlib.Path(name).name).write_bytes(data)

    def run(self, cfg):
        """returns (snapshot dict | None, error text)"""
        self.n += 1
        out_dir = self.root / f"out{self.n}"
        out_dir.mkdir()
        in_fmt = cfg.get("in_fmt", "fa")
        out_fmt = cfg.get("out_fmt", "fa")
        cache_state = cfg.get("cache") if isinstance(cfg.get("cache"), dict) else None
        cwd = {"root": self.root, "elsewhere": self.root / "elsewhere", "outdir": out_dir}[cfg.get("cwd", "root")]
        out_arg = f"{OUT}.{out_fmt}" if cfg.get("cwd") == "outdir" else out_dir / f"{OUT}.{out_fmt}"
        how = cfg.get("spelling", "abs")
        args = ["-a", spell(self.inputs[in_fmt], cwd, how), "-p", spell(self.inputs["pretext"], cwd, how), "-o", out_arg] + cfg.get("extra", [])
        self.before = {}
        if cfg.get("outdir"):
            self.prepare_out_dir(cfg["outdir"], out_dir, out_arg, cwd, out_fmt)
            self.before = g.snapshot(out_dir)
        if in_fmt == "fa":  # after the earlier runs into the output directory: they use the cache too
            if cache_state:
                self.set_cache_state(cache_state)
            elif cfg.get("cache") == "cold":
                for p in self.cache_files():
                    p.unlink(missing_ok=True)
            elif cfg.get("cache") == "warm" and not all(p.exists() for p in self.cache_files()):
                build_cache(self.inputs["fa"])
        sig_before = {p: file_sig(p) for p in self.cache_files()} if in_fmt == "fa" else {}
        try:
            snap, err = self.run_prepared(cfg, args, cwd, out_dir)
            if snap is not None:
                for p, before in sig_before.items():
                    if p.exists() and file_sig(p) != before:  # written by this run: an output file like the others
                        snap[CACHE_KEY + p.name] = p.read_bytes()
            return snap, err
        finally:
            if cache_state and in_fmt == "fa":
                for p in self.cache_files():  # the next run starts from a cache it asks for itself
                    p.unlink(missing_ok=True)

    def run_prepared(self, cfg, args, cwd, out_dir):
        if cfg["via"] == "subprocess" and cfg.get("pre") is not None:
            code, _, err = run_subprocess_pre(P2A, args, cwd, cfg.get("hashseed"), cfg["pre"])
            err = err.decode(errors="replace")
        elif cfg["via"] == "subprocess":
            code, _, err = g.run_subprocess(P2A, args, cwd=cwd, hashseed=cfg.get("hashseed"))
            err = err.decode(errors="replace")
        else:
            if cfg.get("churn"):
                churn(**cfg["churn"])
            was_enabled = gc.isenabled()
            if cfg.get("gc") == "collect":
                gc.collect()
            elif cfg.get("gc") == "off":
                gc.disable()
            try:
                code, err = self.run_inprocess(args, cwd, cfg.get("buffer"))
            finally:
                if was_enabled:
                    gc.enable()
        if code != 0:
            shutil.rmtree(out_dir, ignore_errors=True)
            return None, f"exit {code}: {err[-400:]}"
        snap = g.snapshot(out_dir)
        shutil.rmtree(out_dir, ignore_errors=True)
        return snap, ""

    def run_inprocess(self, args, cwd, buffer):
        import tola.assembly.scripts.pretext_to_asm as mod

        orig = mod.FastaIndex
        if buffer:

            class SmallBufferIndex(orig):
                def __init__(self, fasta_file, buffer_size=buffer):
                    super().__init__(fasta_file, buffer_size)

            mod.FastaIndex = SmallBufferIndex
        try:
            code, _, err, exc = g.run_pretext_to_asm(args, cwd=cwd)
        finally:
            mod.FastaIndex = orig
        return code, (exc or "") + err


CACHE_KEY = "[index cache written beside the FASTA] "  # snapshot key of <fasta>.fai / <fasta>.agp when the run wrote them
SPELLINGS = {
    "abs": "absolute paths",
    "rel": "paths relative to the working directory",
    "dots": "absolute paths with a detour (<working directory>/../...)",
}


def file_sig(p):
    try:
        st = os.stat(p)
    except FileNotFoundError:
        return None
    return (st.st_ino, st.st_mtime_ns, st.st_size)


def spell(path, cwd, how):
    """the same file under another spelling of its path (a str, so that nothing normalises it on the way)"""
    if how == "rel":
        return os.path.relpath(path, cwd)
    if how == "dots":
        return f"{cwd}/../{os.path.relpath(path, pathlib.Path(cwd).parent)}"
    return str(path)


# ------------------------------------------------------------------ states of the FASTA index cache

CACHE_T0 = 1_700_000_000  # mtime given to the FASTA; the cache files are dated relative to it
CACHE_STATES = {
    # name: (content: None = no file | "own" = written from this FASTA | "other" = from an earlier version of it, mtime - FASTA mtime, words)
    "absent": (None, 0, "absent"),
    "fresh": ("own", 100, "written from this FASTA, newer than it"),
    "equal": ("own", 0, "written from this FASTA, same mtime as it"),
    "stale": ("own", -100, "written from this FASTA, older than it (the FASTA was touched)"),
    "other-stale": ("other", -100, "left from an earlier version of the FASTA, older than it"),
    "other-equal": ("other", 0, "left from an earlier version of the FASTA, same mtime as it (edited within one clock tick)"),
}


def build_cache(fasta):
    """lets the tool index the FASTA (cache files absent before, or as found)"""
    import logging

    from tola.fasta.index import FastaIndex

    prev = logging.root.manager.disable
    logging.disable(logging.CRITICAL)
    try:
        FastaIndex(fasta).auto_load()
    finally:
        logging.disable(prev)


def other_version(case):
    """
    An earlier version of the case's input assembly, as a FASTA of the same name would have held it: same sequence
    names and lengths, other residues, the gap of a scaffold 50 bases further left / a gap in a scaffold that has
    none now (written with another line length, so that the .fai offsets differ as well).
    """
    scaffolds = []
    for sc in case["scaffolds"]:
        p = [list(x) for x in sc["pieces"]]
        if len(p) >= 3 and p[0][0] == "S" and p[-1][0] == "S" and p[0][1] > 100:
            p[0][1] -= 50
            p[-1][1] += 50
        elif len(p) == 1 and p[0][1] >= 400:
            n = p[0][1]
            p = [["S", n // 2 - 50], ["N", 100], ["S", n - n // 2 - 50]]
        scaffolds.append({"name": sc["name"], "pieces": p})
    return dict(case, scaffolds=scaffolds, seed=case.get("seed", 0) + 1)


def describe(cfg):
    """in words: what the run found on disk (output directory, cache files) - used in the failure messages"""
    parts = []
    if cfg.get("spelling", "abs") != "abs":
        parts.append(f"-a / -p given as {SPELLINGS[cfg['spelling']]}, working directory '{cfg.get('cwd', 'root')}'")
    if od := cfg.get("outdir"):
        if od.get("prior"):
            runs = ", then ".join("the same inputs" if x == "same" else f"other inputs (case {x})" for x in od["prior"])
            parts.append(f"the same --output had been written before by a run on {runs}")
        if od.get("junk"):
            parts.append(f"the output directory held files named like the outputs with unrelated content ({od['junk']['kind']}: {od['junk']['names']})")
    if isinstance(cfg.get("cache"), dict):
        parts.append("index cache next to the FASTA before the run: " + ", ".join(f".{k} {CACHE_STATES[v][2]}" for k, v in sorted(cfg["cache"].items(), reverse=True)))
    return "; ".join(parts)


def strip_path_lines(snap, root):
    """the log without the lines that print an absolute path below root (the only part of the log that may differ)"""
    marks = {str(root).encode(), str(pathlib.Path(root).resolve()).encode()}
    out = {}
    for name, data in snap.items():
        if name.endswith(".log"):
            data = b"".join(ln for ln in data.splitlines(keepends=True) if not any(m in ln for m in marks))
        out[name] = data
    return out


# ------------------------------------------------------------------ allocation history

_HOLD = []  # garbage kept alive between runs ("earlier work in the same process")
_HOLD_MAX = 60_000


def _project_objects(r):
    """a few objects of the project's own classes (same size classes and types as the ones a run allocates)"""
    out = []
    try:
        from tola.assembly.fragment import Fragment
        from tola.assembly.gap import Gap
        from tola.assembly.overlap_result import OverlapResult
        from tola.assembly.scaffold import Scaffold

        f = Fragment(f"other_{r.randrange(1000)}", 1, 10 + r.randrange(90), r.choice((1, -1)))
        out.append(f)
        out.append(Scaffold(f"s{r.randrange(1000)}", [f, Gap(100, "scaffold"), f]))
        out.extend(OverlapResult(f, [f], 1, f.end) for _ in range(r.randrange(1, 4)))
        from tola.assembly.build_utils import FoundFragment

        ff = FoundFragment(f)
        ff.add_scaffold(out[-1])
        out.append(ff)
    except Exception:  # the perturbation must never be the thing that fails
        pass
    return out


def churn(seed, n, free):
    """
    Allocation history between two runs: n blocks spread over every small-object size class (bytes, lists, dicts,
    sets, plain instances) and objects of the project's classes are created; a fraction `free` of them is released
    in random order, the rest stays alive in _HOLD (itself thinned at random when it grows too long).
    """
    r = random.Random(seed)
    new = []
    for _ in range(n):
        k = r.randrange(8)
        if k < 3:
            new.append(bytes(r.randrange(1, 500)))
        elif k == 3:
            new.append([None] * r.randrange(40))
        elif k == 4:
            new.append({i: None for i in range(r.randrange(12))})
        elif k == 5:
            new.append(set(range(r.randrange(12))))
        elif k == 6:
            new.append(type("Thing", (), {})() if r.random() < 0.05 else object())
        else:
            new.extend(_project_objects(r))
    idx = list(range(len(new)))
    r.shuffle(idx)
    for i in idx[: int(free * len(idx))]:
        new[i] = None
    _HOLD.extend(x for x in new if x is not None)
    if len(_HOLD) > _HOLD_MAX:
        for i in r.sample(range(len(_HOLD)), len(_HOLD) // 2):
            _HOLD[i] = None
        _HOLD[:] = [x for x in _HOLD if x is not None]


PRE_CODE = """
import importlib, random, runpy, sys
mod, pre = sys.argv[1], int(sys.argv[2])
del sys.argv[1:3]
r = random.Random(pre)
if pre % 2:
    importlib.import_module(mod)   # churn after the program's modules are loaded rather than before
hold = []
for _ in range(r.randrange(200, 6000)):
    k = r.randrange(4)
    hold.append(bytes(r.randrange(1, 500)) if k < 2 else [None] * r.randrange(40) if k == 2 else {i: None for i in range(r.randrange(12))})
for i in r.sample(range(len(hold)), len(hold) // 2):
    hold[i] = None
runpy.run_module(mod, run_name="__main__", alter_sys=True)
"""


def run_subprocess_pre(module, args, cwd, hashseed, pre):
    """python -m <module> in a fresh interpreter whose heap has been used (and partly freed) before the program starts"""
    import subprocess
    import sys

    env = dict(os.environ)
    if hashseed is None:
        env.pop("PYTHONHASHSEED", None)
    else:
        env["PYTHONHASHSEED"] = str(hashseed)
    proc = subprocess.run(
        [sys.executable, "-c", PRE_CODE, module, str(pre), *[str(a) for a in args]],
        cwd=cwd, env=env, stdout=subprocess.PIPE, stderr=subprocess.PIPE, timeout=600, check=False,
    )  # fmt: skip
    return proc.returncode, proc.stdout, proc.stderr


# ------------------------------------------------------------------ maps whose outcome hangs on a tie


def tie_case(name, bpt, short, spans, strands=None, order=None, joined=False, tags=None, flank=(5000, 4000), gap=200, other=5500):
    """
    Input: scaffold_1 = contig A, gap, short contig C, gap, contig B (plus scaffold_2, painted whole, as a
    bystander in the size ranking).  Pretext pieces of scaffold_1 are given as spans (s, e) in coordinates of C:
    the piece runs from the base after offset s to offset e of C; None = from the start / to the end of scaffold_1.
    [(None, short // 2), (short // 2, None)] cuts C through its exact middle.  Pieces are listed in `order`, each
    as a Pretext scaffold of its own or (joined) all in one.
    """
    a, b = flank
    c0 = a + gap
    total = c0 + short + gap + b
    n = len(spans)
    strands = strands or [1] * n
    tags = tags or [["Painted"]] * n
    pieces = []
    for (s, e), strand, tg in zip(spans, strands, tags):
        pieces.append(["scaffold_1", 1 if s is None else c0 + s + 1, total if e is None else c0 + e, strand, list(tg)])
    pieces = [pieces[i] for i in (order or range(n))]
    if joined:
        rows = []
        for p in pieces:
            rows += ([["GAP", 100]] if rows else []) + [p]
        pretext = [rows]
    else:
        pretext = [[p] for p in pieces]
    scaffolds = [{"name": "scaffold_1", "pieces": [g.S(a), g.N(gap), g.S(short), g.N(gap), g.S(b)]}]
    if other:
        scaffolds.append({"name": "scaffold_2", "pieces": [g.S(other)]})
        pretext.append([["scaffold_2", 1, other, 1, ["Painted"]]])
    return {"name": name, "bpt": bpt, "seed": 17, "scaffolds": scaffolds, "pretext": pretext}


def case_equal_sizes():
    """nothing is cut, but everything that is ranked by size has an equal-sized rival: autosomes, unlocs of X, haplotigs"""
    S = g.S
    sizes = [3000, 3000, 3000, 2000, 400, 400, 400, 800, 800, 600, 600]
    scaffolds = [{"name": f"scaffold_{i}", "pieces": [S(n)]} for i, n in enumerate(sizes, 1)]

    def whole(i, strand, tags):
        return [f"scaffold_{i}", 1, sizes[i - 1], strand, tags]

    unloc = ["Painted", "X", "Unloc"]
    pretext = [
        [whole(1, 1, ["Painted"])],
        [whole(2, -1, ["Painted"])],
        [whole(4, 1, ["Painted", "X"]), ["GAP", 100], whole(5, 1, unloc), ["GAP", 100], whole(6, -1, unloc), ["GAP", 100], whole(7, 1, unloc)],
        [whole(3, 1, ["Painted"])],
        [whole(8, 1, ["Haplotig"])],
        [whole(9, 1, ["Haplotig"])],
        [whole(10, 1, [])],
        [whole(11, 1, [])],
    ]
    return {"name": "equal-sizes", "bpt": 10.0, "seed": 18, "scaffolds": scaffolds, "pretext": pretext}


def tie_family(quick, rng):
    """small-scope family: kind of tie x resolution below / above the piece size x strands x order x layout"""
    shapes = {
        # name: (short contig length, spans)
        "mid": (1000, [(None, 500), (500, None)]),  # two holders, equal overlaps
        "thirds": (900, [(None, 300), (300, 600), (600, None)]),  # three holders, the middle piece lies inside C
        "whole": (1000, [(None, 1000), (0, None)]),  # Pretext pieces overlap each other: both contain all of C
        "dup": (1000, [(None, 500), (500, None), (500, None)]),  # a Pretext piece given twice
        "inner": (1000, [(None, 500), (250, 750), (500, None)]),  # a third piece overlapping both others inside C
    }
    out = []

    def add(shape, bpt, **kw):
        short, spans = shapes[shape]
        label = ",".join(f"{k}={v}" for k, v in kw.items())
        out.append(tie_case(f"tie-{shape}-{bpt:g}" + (f"-{label}" if label else ""), bpt, short, spans, **kw))

    # resolutions: both overlaps under one texel (no cut: the contig goes to one side), a cut allowed, far above
    add("mid", 1000.0)
    add("mid", 1000.0, order=[1, 0])
    add("mid", 1000.0, strands=[1, -1], flank=(5000, 5000))
    add("mid", 1000.0, joined=True, tags=[["Painted", "X"], ["Painted", "X"]])
    add("mid", 10.0, flank=(5000, 5000), other=5500)  # a real cut: chromosomes of equal length
    add("thirds", 1000.0)
    add("whole", 1000.0)
    out.append(case_equal_sizes())
    if quick:
        return out
    add("dup", 1000.0)
    add("mid", 499.5)  # 500 bp overlaps against a 500 bp limit
    add("mid", 1000.0, flank=(5000, 5000), other=6000)
    add("mid", 1000.0, tags=[["Painted"], ["Painted", "X"]])
    add("mid", 1000.0, joined=True, tags=[["Painted"], ["Painted", "Unloc"]])
    add("mid", 1000.0, other=0)
    add("inner", 1000.0)
    add("inner", 100.0)
    # neighbours of the tie (one base off the middle): silent either way, they keep the family honest
    out.append(tie_case("tie-off-1", 1000.0, 1000, [(None, 499), (499, None)]))
    out.append(tie_case("tie-off+1", 1000.0, 1000, [(None, 501), (501, None)]))
    combos = [
        (shape, bpt, strands, rev, joined)
        for shape in shapes
        for bpt in (1000.0, 10.0)
        for strands in itertools.product((1, -1), repeat=len(shapes[shape][1]))
        for rev in (False, True)
        for joined in (False, True)
    ]
    rng.shuffle(combos)
    # pieces that duplicate one another usually cannot be honoured (the tool refuses them, which it must then do every
    # time): a few of those are enough
    quota = {"mid": 8, "thirds": 8, "whole": 4, "dup": 2, "inner": 2}
    for shape, bpt, strands, rev, joined in combos:
        if not quota[shape]:
            continue
        quota[shape] -= 1
        n = len(shapes[shape][1])
        add(shape, bpt, strands=list(strands), order=list(range(n))[::-1] if rev else None, joined=joined)
    for k in range(8):
        out.append(case_random_ties(rng, k))
    return out


def case_random_ties(rng, k):
    """random map: several input scaffolds, short contigs cut through their exact middle, pieces shuffled over Pretext scaffolds"""
    bpt = rng.choice((1000.0, 750.0, 20.0))
    scaffolds, pieces = [], []
    for i in range(1, rng.randint(2, 4) + 1):
        name = f"scaffold_{i}"
        parts, cuts, p = [], [], 0
        for j in range(rng.randint(2, 5)):
            if j:
                parts.append(g.N(200))
                p += 200
            if j % 2 and rng.random() < 0.8:
                n = 2 * rng.randint(100, 350)  # even, at most 700: both halves are below one 750 bp texel
                cuts.append(p + n // 2)
            else:
                n = 500 * rng.randint(4, 12)
            parts.append(g.S(n))
            p += n
        scaffolds.append({"name": name, "pieces": parts})
        bounds = [0] + cuts + [p]
        for lo, hi in zip(bounds, bounds[1:]):
            pieces.append([name, lo + 1, hi, rng.choice((1, -1)), ["Painted"]])
    rng.shuffle(pieces)
    pretext = []
    while pieces:
        take = rng.choice((1, 1, 2))
        rows = []
        for pc in pieces[:take]:
            rows += ([["GAP", 100]] if rows else []) + [pc]
        pretext.append(rows)
        pieces = pieces[take:]
    return {"name": f"randtie{k}", "bpt": bpt, "seed": 1700 + k, "scaffolds": scaffolds, "pretext": pretext}


def history_cfg(plan_seed, step, fmts):
    """run configuration of step `step` of a history plan (JSON-able; the same for run() and replay())"""
    r = random.Random(f"{plan_seed}/{step}")
    cfg = {"via": "inprocess", "in_fmt": fmts[0], "out_fmt": fmts[1], "cwd": r.choice(("root", "elsewhere")), "gc": r.choice(("on", "on", "off", "collect"))}
    if fmts[0] == "fa":
        cfg["cache"] = "warm"
    if r.random() < 0.85:
        cfg["churn"] = {"seed": r.randrange(10**6), "n": r.choice((3, 30, 300, 1500)), "free": r.choice((0.0, 0.5, 0.9, 1.0))}
    return cfg


def outcome_diff(ref, snap):
    """None if two runs ended the same way (both refused the input, or both wrote the same bytes)"""
    if ref is None or snap is None:
        return None if ref is snap else ("the input was refused by one run and accepted by the other")
    return diff_snapshots(ref, snap)


def check_history(cases, col, reps, n_pre, plan_seed):
    """
    For every case: a reference run in a fresh interpreter, n_pre fresh interpreters whose heap was used before
    the program starts, and `reps` rounds of in-process runs over all cases in a new order each round, each run
    preceded by churn / with the collector on or off.  Every run must end like the reference, byte for byte.
    """
    with tempfile.TemporaryDirectory() as root:
        works = []
        for i, case in enumerate(cases):
            d = pathlib.Path(root) / f"t{i}"
            d.mkdir()
            w = Work(case, d)
            fmts = (("agp", "agp"), ("agp", "tpf"), ("fa", "fa"), ("tpf", "agp"))[i % 4]
            if fmts[0] not in w.inputs:
                fmts = ("agp", "agp")
            ref_cfg = {"via": "subprocess", "hashseed": 0, "cwd": "root", "cache": "cold", "in_fmt": fmts[0], "out_fmt": fmts[1]}
            ref, err = w.run(ref_cfg)
            col.case((case["name"], "history-ref"))
            works.append({"work": w, "fmts": fmts, "ref_cfg": ref_cfg, "ref": ref, "bad": False})
            for k in range(n_pre):
                cfg = dict(ref_cfg, hashseed=k, pre=1000 * i + k, cache="warm")  # fixed hash seeds: the run can be repeated exactly
                snap, err = w.run(cfg)
                col.case((case["name"], "pre", k), sample=None)
                if diff := outcome_diff(ref, snap):
                    col.fail(
                        f"case {case['name']}: a fresh interpreter that allocated and freed unrelated objects before the program started "
                        f"({cfg}) does not reproduce the outputs of the reference run {ref_cfg} on the same files: {diff} {err[-200:]}",
                        {"kind": "pair", "case": case, "ref": ref_cfg, "run": cfg},
                    )
                    works[-1]["bad"] = True
                    break
        order_rng = random.Random(f"{plan_seed}/order")
        step = 0
        for rep in range(reps):
            order = list(range(len(works)))
            order_rng.shuffle(order)
            for i in order:
                step += 1
                it = works[i]
                if it["bad"] or col.full:
                    continue
                case = it["work"].case
                cfg = history_cfg(plan_seed, step, it["fmts"])
                snap, err = it["work"].run(cfg)
                inp = {"kind": "history", "case": case, "fmts": list(it["fmts"]), "ref": it["ref_cfg"], "plan_seed": plan_seed, "step": step, "run": cfg}
                col.case((case["name"], "history", step), sample=inp if step == 3 else None)
                if d := outcome_diff(it["ref"], snap):
                    it["bad"] = True  # one report per case
                    col.fail(
                        f"case {case['name']}: run {rep + 1} in this process on the same unchanged input files ({cfg}; earlier runs on the same "
                        f"and on other inputs, unrelated objects allocated and freed in between) does not reproduce the outputs of the "
                        f"reference run in a fresh interpreter: {d} {err[-200:]} - the outputs depend on the allocation history of the process "
                        f"(object addresses: identity hashes, set/dict order of objects, id() used for ordering), not only on the input files",
                        inp,
                    )


def replay_history(inp, rounds=60):
    """the reference run again, then up to `rounds` in-process runs from step inp['step'] of the recorded plan on"""
    with tempfile.TemporaryDirectory() as root:
        work = Work(inp["case"], root)
        ref, _ = work.run(inp["ref"])
        first = None
        outcomes = {}
        for k in range(rounds):
            cfg = dict(inp["run"]) if k == 0 else history_cfg(inp["plan_seed"], inp["step"] + k, inp["fmts"])
            snap, err = work.run(cfg)
            d = outcome_diff(ref, snap)
            key = None if snap is None else tuple(sorted(snap.items()))
            outcomes[key] = outcomes.get(key, 0) + 1
            if d and first is None:
                first = (k, d)
            if first and len(outcomes) > 1 and k >= 10:
                break
        if first is None:
            return None
        return (
            f"case {inp['case']['name']}: {sum(outcomes.values())} in-process runs on the same input files ended in {len(outcomes)} different "
            f"ways ({sorted(outcomes.values(), reverse=True)} runs each); first difference from the reference run at repetition {first[0] + 1}: {first[1]}"
        )


def diff_snapshots(a, b):
    # index cache files are outputs of the runs that wrote them: compared whenever both runs did
    if one_sided := {n for n in set(a) ^ set(b) if n.startswith(CACHE_KEY)}:
        a, b = ({n: v for n, v in x.items() if n not in one_sided} for x in (a, b))
    if sorted(a) != sorted(b):
        return f"different sets of output files: {sorted(a)} vs {sorted(b)}"
    for name in sorted(a):
        if a[name] != b[name]:
            if a[name] and b[name].endswith(a[name]):
                return f"{name} holds {len(b[name]) - len(a[name])} bytes of other content in front of the expected {len(a[name])} bytes (written without truncating: appended)"
            la, lb = a[name].split(b"\n"), b[name].split(b"\n")
            for i, (x, y) in enumerate(zip(la, lb)):
                if x != y:
                    return f"{name} differs at line {i + 1}: {x[:120]!r} vs {y[:120]!r}"
            return f"{name} differs in length: {len(a[name])} vs {len(b[name])} bytes (one is the beginning of the other)"
    return None


def assembly_rows(snap):
    """{file name: rows} of the assembly files (.agp) of a snapshot"""
    return {n: [ln for ln in data.split(b"\n") if ln and not ln.startswith(b"#")] for n, data in snap.items() if n.endswith(".agp") and not n.startswith(CACHE_KEY)}


def compare(work, ref_cfg, ref, cfg, col, rows_only=False):
    inp = {"kind": "pair", "case": work.case, "ref": ref_cfg, "run": cfg, "rows_only": rows_only}
    snap, err = work.run(cfg)
    col.case((work.case["name"], repr(sorted(cfg.items()))), sample=inp if cfg.get("hashseed") == 2 else None)
    found = describe(cfg)
    if snap is None:
        col.fail(f"case {work.case['name']}: run {cfg} failed though the reference run {ref_cfg} succeeded" + (f" ({found})" if found else "") + f": {err}", inp)
        return
    if cfg.get("outdir"):
        # files the reference run does not write and this run did not touch are left-overs, not outputs of this run
        snap = {n: v for n, v in snap.items() if n in ref or work.before.get(n) != v}
    if isinstance(cfg.get("cache"), dict):
        ref, snap = strip_path_lines(ref, work.root), strip_path_lines(snap, work.root)
    if rows_only:
        ra, rb = assembly_rows(ref), assembly_rows(snap)
        d = None
        if sorted(ra) != sorted(rb):
            d = f"different assembly files {sorted(ra)} vs {sorted(rb)}"
        else:
            for n in ra:
                if ra[n] != rb[n]:
                    k = next((i for i, (x, y) in enumerate(zip(ra[n], rb[n])) if x != y), min(len(ra[n]), len(rb[n])))
                    d = f"{n}: row {k + 1} differs ({len(ra[n])} vs {len(rb[n])} rows)"
                    break
    else:
        d = diff_snapshots(ref, snap)
    if d and cfg.get("outdir"):
        col.fail(
            f"case {work.case['name']}: {found}; the files written by the run {cfg} differ from those the same command writes into an empty "
            f"directory ({ref_cfg}): {d} - the output files depend on what earlier runs left on disk, not only on the input files",
            inp,
        )
    elif d and not isinstance(cfg.get("cache"), dict) and cfg.get("spelling", "abs") != "abs":
        col.fail(
            f"case {work.case['name']}: {found}; the files written by the run {cfg} differ from those written by the run {ref_cfg} on the same "
            f"input files: {d} - the files written depend on how the input paths are spelled / on the working directory, not only on the input files",
            inp,
        )
    elif d and found:
        col.fail(
            f"case {work.case['name']}: {found}; the outputs of the run {cfg} differ from those of the run without cache ({ref_cfg}) on the "
            f"same files: {d} - a cache that is not valid for this FASTA was used instead of being rebuilt",
            inp,
        )
    elif d:
        col.fail(f"case {work.case['name']}: outputs of {cfg} differ from those of {ref_cfg}: {d}", inp)


def check_case(case, col, quick, rng, full_cache=True):
    with tempfile.TemporaryDirectory() as root:
        work = Work(case, root)
        ref_cfg = {"via": "subprocess", "hashseed": 0, "cwd": "root", "cache": "cold"}
        ref, err = work.run(ref_cfg)
        col.case((case["name"], "ref"))
        if ref is None:
            # an input the tool rejects: nothing to compare, but it must be rejected every time
            snap2, _ = work.run({"via": "subprocess", "hashseed": 1, "cwd": "elsewhere", "cache": "warm"})
            if snap2 is not None:
                col.fail(f"case {case['name']}: fails under PYTHONHASHSEED=0 ({err[-200:]}) but succeeds under 1", {"kind": "pair", "case": case, "ref": ref_cfg, "run": {"via": "subprocess", "hashseed": 1}})
            return
        runs = [
            {"via": "subprocess", "hashseed": 1, "cwd": "elsewhere", "cache": "warm"},
            {"via": "subprocess", "hashseed": 2, "cwd": "outdir", "cache": "cold"},
            {"via": "subprocess", "hashseed": "random", "cwd": "root", "cache": "warm"},
        ]
        if not quick:
            runs += [{"via": "subprocess", "hashseed": s, "cwd": rng.choice(("root", "elsewhere", "outdir")), "cache": rng.choice(("cold", "warm"))} for s in (3, 4, 5, 11, 4242, "random")]
        runs += [{"via": "inprocess", "cwd": "root", "cache": "warm"}, {"via": "inprocess", "cwd": "outdir", "cache": "cold"}]
        # the same input files under other spellings of their paths, from other working directories; cache cold, so that the
        # cache files beside the FASTA are written (and compared) as well
        if quick:
            runs += [{"via": "inprocess", "cwd": "elsewhere", "cache": "cold", "spelling": "rel"}, {"via": "inprocess", "cwd": "outdir", "cache": "cold", "spelling": "dots"}]
            if full_cache:
                runs += [{"via": "subprocess", "hashseed": 1, "cwd": "outdir", "cache": "cold", "spelling": "rel"}, {"via": "inprocess", "cwd": "root", "cache": "cold", "spelling": "rel"}]
        else:
            for k, (how, cwd) in enumerate(itertools.product(("rel", "dots"), ("root", "elsewhere", "outdir"))):
                runs.append({"via": "inprocess", "cwd": cwd, "cache": "cold", "spelling": how})
                runs.append({"via": "subprocess", "hashseed": k, "cwd": cwd, "cache": ("cold", "warm")[k % 2] if how == "dots" else "cold", "spelling": how})
            runs.append({"via": "inprocess", "cwd": "elsewhere", "cache": "cold", "spelling": "rel", "in_fmt": "fa", "out_fmt": "fa", "buffer": 100})
        # stream buffer sizes (reachable in process: the index class used by the CLI module is given another default)
        for b in (250_000, 1000, 200, 100, 64, 7) if quick else (250_000, 4096, 1000, 250, 200, 150, 100, 64, 50, 7, 1):
            runs.append({"via": "inprocess", "cwd": "root", "cache": ("warm", "cold")[b % 2], "buffer": b})
        for cfg in runs:
            if col.full:
                return
            compare(work, ref_cfg, ref, cfg, col)
        check_cache_states(work, ref_cfg, ref, col, quick, full_cache)
        check_reruns(work, col, quick, lean=not full_cache)
        if col.full:
            return
        # the same input assembly as FASTA, AGP or TPF: same output assemblies row for row
        ref_agp_cfg = {"via": "inprocess", "in_fmt": "fa", "out_fmt": "agp", "cache": "warm"}
        ref_agp, err = work.run(ref_agp_cfg)
        col.case((case["name"], "ref-agp"))
        if ref_agp is None:
            col.fail(f"case {case['name']}: FASTA input with AGP output failed: {err}", {"kind": "pair", "case": case, "ref": ref_cfg, "run": ref_agp_cfg})
            return
        for in_fmt in ("agp", "tpf"):
            if in_fmt in work.inputs:
                for out_fmt in ("agp", "tpf"):
                    r_cfg = {"via": "inprocess", "in_fmt": "fa", "out_fmt": out_fmt, "cache": "warm"}
                    r, _ = (ref_agp, "") if out_fmt == "agp" else work.run(r_cfg)
                    if r is None:
                        continue
                    cfg = {"via": "inprocess", "in_fmt": in_fmt, "out_fmt": out_fmt}
                    # TPF output files are assemblies too: compare all files except the log in that case
                    if out_fmt == "agp":
                        compare(work, r_cfg, r, cfg, col, rows_only=True)
                    else:
                        snap, err = work.run(cfg)
                        col.case((case["name"], in_fmt, out_fmt))
                        inp = {"kind": "pair", "case": case, "ref": r_cfg, "run": cfg, "tpf_files": True}
                        if snap is None:
                            col.fail(f"case {case['name']}: {in_fmt} input failed where FASTA input succeeded: {err}", inp)
                        else:
                            ta = {n: v for n, v in r.items() if n.endswith(".tpf")}
                            tb = {n: v for n, v in snap.items() if n.endswith(".tpf")}
                            d = diff_snapshots(ta, tb)
                            if d:
                                col.fail(f"case {case['name']}: output assemblies from {in_fmt} input differ from those from FASTA input: {d}", inp)


# ------------------------------------------------------------------ sequence names with white-space-like characters

UTF8_IO = locale.getpreferredencoding(False).lower().replace("-", "").replace("_", "") == "utf8"
# characters str.isspace() accepts that a FASTA header (bytes, cut at ASCII white space) keeps as part of the name
SPACE_LIKE = "\u00a0\u2003\u3000\x1c\x1f\u0085\u2028\u1680\x1d\x1e\u2009\u205f\u2029\u202f"


def case_names(chars):
    """case_simple under other sequence names: chars[0] in front of the first, chars[1] inside the second, chars[2] behind the third, chars[3] in front of the fourth"""
    ren = {"scaffold_1": chars[0] + "ctg1", "scaffold_2": "ctg" + chars[1] + "2", "scaffold_3": "ctg3" + chars[2], "scaffold_4": chars[3] + "ctg4"}
    case = g.case_simple()
    for sc in case["scaffolds"]:
        sc["name"] = ren[sc["name"]]
    for rows in case["pretext"]:
        for r in rows:
            r[0] = ren.get(r[0], r[0])
    where = ("first", "inside", "last", "first")
    case["name"] = "simple with sequence names " + ", ".join(ascii(n) for n in ren.values()) + " (" + ", ".join(f"U+{ord(c):04X} {w}" for c, w in zip(chars, where)) + ")"
    return case


def name_cases(quick):
    chars = SPACE_LIKE if UTF8_IO else "\x1c\x1f\x1d\x1e"  # non-ASCII names only where the tool's text files are UTF-8
    n = 2 if quick else len(chars)
    return [case_names([chars[(i + 3 * j) % len(chars)] for j in range(4)]) for i in range(n)]


def check_names(cases, col, quick):
    for i, case in enumerate(cases):
        if col.full:
            return
        with tempfile.TemporaryDirectory() as root:
            work = Work(case, root)
            ref_cfg = {"via": "inprocess", "cwd": "root", "cache": "cold"}
            ref, err = work.run(ref_cfg)
            col.case((case["name"], "ref"))
            if ref is None:
                # names the tool refuses: then it has to refuse them whatever the state of the cache
                cfg = {"via": "inprocess", "cwd": "root", "cache": "warm"}
                snap, _ = work.run(cfg)
                if snap is not None:
                    col.fail(f"case {case['name']}: fails with the index cache cold ({err[-200:]}) but succeeds with the cache warm", {"kind": "pair", "case": case, "ref": ref_cfg, "run": cfg})
                continue
            runs = [{"via": "inprocess", "cwd": "root", "cache": "warm"}, {"via": "inprocess", "cwd": "elsewhere", "cache": {"fai": "fresh", "agp": "fresh"}}]
            if i == 0 or not quick:
                runs.append({"via": "subprocess", "hashseed": 1, "cwd": "elsewhere", "cache": "warm"})
            for cfg in runs:
                compare(work, ref_cfg, ref, cfg, col)
            r_cfg = {"via": "inprocess", "in_fmt": "fa", "out_fmt": "agp", "cache": "cold"}
            r, err = work.run(r_cfg)
            col.case((case["name"], "ref-agp"))
            if r is None:
                col.fail(f"case {case['name']}: FASTA input with AGP output failed where FASTA output succeeded: {err}", {"kind": "pair", "case": case, "ref": ref_cfg, "run": r_cfg})
                continue
            for in_fmt in ("agp", "tpf"):
                if in_fmt in work.inputs:
                    compare(work, r_cfg, r, {"via": "inprocess", "in_fmt": in_fmt, "out_fmt": "agp"}, col, rows_only=True)


def other_fixed(case):
    """name of a FIXED case with other inputs than `case`"""
    return "multi" if case["name"] != "multi" else "cut"


def check_reruns(work, col, quick, lean=False):
    """
    The same command again with the same --output (default --clobber), after earlier runs on the same / on other
    inputs, or with unrelated files under the output names: everything it writes must be what it writes into an
    empty directory.
    """
    other = other_fixed(work.case)
    for out_fmt in ("fa",) if lean else ("fa", "agp") if quick else ("fa", "agp", "tpf"):
        ref_cfg = {"via": "inprocess", "cwd": "root", "cache": "warm", "out_fmt": out_fmt}
        ref, err = work.run(ref_cfg)
        col.case((work.case["name"], "rerun-ref", out_fmt))
        if ref is None or col.full:
            continue
        names = sorted(ref)
        states = [{"prior": ["same"]}, {"prior": [other]}, {"junk": {"kind": "long", "names": names}}, {"junk": {"kind": "short", "names": names}}]
        runs = []
        if out_fmt == "fa" and not lean:
            runs.append({"via": "subprocess", "hashseed": 1, "cwd": "root", "cache": "warm", "outdir": {"prior": ["same"]}})
            states += [{"prior": [other, "same"]}, {"prior": ["same", "same"]}]
        if not quick:
            states += [{"prior": [other], "junk": {"kind": "long", "names": [n for n in names if n.endswith(".log")]}}, {"prior": ["same", other]}]
            runs += [{"via": "subprocess", "hashseed": 2, "cwd": ("elsewhere", "outdir")[k % 2], "cache": "warm", "out_fmt": out_fmt, "outdir": st} for k, st in enumerate(states[1:4])]
        runs += [{"via": "inprocess", "cwd": ("root", "outdir")[k % 2], "cache": "warm", "out_fmt": out_fmt, "outdir": st} for k, st in enumerate(states)]
        for cfg in runs:
            if col.full:
                return
            compare(work, ref_cfg, ref, dict(cfg, out_fmt=out_fmt), col)


CACHE_PAIRS_QUICK = [
    ("fresh", "other-stale"), ("other-stale", "fresh"), ("fresh", "other-equal"), ("other-equal", "fresh"), ("other-stale", "other-stale"),
    ("other-equal", "other-equal"), ("fresh", "absent"), ("absent", "fresh"), ("stale", "fresh"), ("fresh", "equal"), ("equal", "equal"),
    ("stale", "stale"), ("other-stale", "absent"), ("absent", "other-equal"),
]  # fmt: skip


def check_cache_states(work, ref_cfg, ref, col, quick, full):
    """
    Every state of the two cache files (.fai, .agp) next to the FASTA x the run that finds them: the outputs must be
    those of the reference run, which found no cache.  Thorough: the whole 6 x 6 product; quick: CACHE_PAIRS_QUICK
    (`full`) or its first 8.
    """
    pairs = list(itertools.product(CACHE_STATES, repeat=2)) if not quick else CACHE_PAIRS_QUICK if full else CACHE_PAIRS_QUICK[:8]
    try:
        work.cache_content("own"), work.cache_content("other")
    except Exception as e:  # noqa: BLE001
        col.fail(f"case {work.case['name']}: indexing the FASTA (or an earlier version of it) failed: {e!r}", {"kind": "pair", "case": work.case, "ref": ref_cfg, "run": dict(ref_cfg, cache="warm")})
        return
    runs = [{"via": "inprocess", "cwd": "root", "cache": {"fai": f, "agp": a}} for f, a in pairs]
    sub = CACHE_PAIRS_QUICK[:2] if quick else CACHE_PAIRS_QUICK[:8]
    runs += [{"via": "subprocess", "hashseed": 1, "cwd": "elsewhere", "cache": {"fai": f, "agp": a}} for f, a in (sub if full or not quick else [])]
    for cfg in runs:
        if col.full:
            return
        compare(work, ref_cfg, ref, cfg, col)
    if quick:
        return
    # assembly outputs (no sequence is read: only the .agp half of the cache is used, the .fai must still not matter)
    for out_fmt in ("agp", "tpf"):
        r_cfg = dict(ref_cfg, via="inprocess", out_fmt=out_fmt)
        r, _ = work.run(r_cfg)
        col.case((work.case["name"], "cache-ref", out_fmt))
        if r is None:
            continue
        for f, a in pairs:
            if col.full:
                return
            compare(work, r_cfg, r, {"via": "inprocess", "cwd": "root", "out_fmt": out_fmt, "cache": {"fai": f, "agp": a}}, col)


def check_orders(cases, col, quick):
    """consecutive invocations in one process, on different inputs, in different orders"""
    with tempfile.TemporaryDirectory() as root:
        works = []
        refs = []
        for i, case in enumerate(cases):
            d = pathlib.Path(root) / f"c{i}"
            d.mkdir()
            w = Work(case, d)
            ref_cfg = {"via": "subprocess", "hashseed": 0, "cwd": "root", "cache": "cold"}
            ref, _ = w.run(ref_cfg)
            works.append(w)
            refs.append((ref_cfg, ref))
        orders = list(itertools.permutations(range(len(cases))))
        if quick:
            orders = orders[:6]
        for order in orders:
            for pos, i in enumerate(order):
                if refs[i][1] is None or col.full:
                    continue
                cfg = {"via": "inprocess", "cwd": ("root", "elsewhere")[pos % 2], "cache": "warm", "order": list(order), "position": pos}
                compare(works[i], refs[i][0], refs[i][1], cfg, col)


# ------------------------------------------------------------------ sessions: invocations in ONE process, nothing reset in between

SESSION_CFGS = {
    # name: (input format, output format | None = no --output: STR format to STDOUT, further options, in words)
    "L": ("agp", "agp", [], "--output x.agp, log file written (default)"),
    "W": ("agp", "agp", ["--no-write-log"], "--output x.agp --no-write-log"),
    "N": ("agp", None, [], "no --output (assemblies to STDOUT)"),
    "Lfa": ("fa", "fa", [], "FASTA input, --output x.fa, log file written"),
    "D": ("agp", "agp", ["--log-level", "DEBUG"], "--output x.agp --log-level DEBUG, log file written"),
    "E": ("agp", "tpf", ["--log-level", "ERROR", "--write-log"], "--output x.tpf --log-level ERROR, log file written"),
    "Wt": ("agp", "tpf", ["-W"], "--output x.tpf -W"),
    "Nq": ("agp", None, ["--log-level", "WARNING"], "no --output, --log-level WARNING"),
}


def reset_logging(level=None):
    import logging

    root = logging.getLogger()
    for h in list(root.handlers):
        try:
            h.close()
        finally:
            root.removeHandler(h)
    if level is not None:
        root.setLevel(level)


def session_invoke(args, cwd):
    """
    One invocation of the pretext-to-asm command in this process.  Nothing of the process state is touched afterwards:
    the next invocation finds the logging configuration, module globals and caches as this one left them.
    Returns (exit status, STDOUT bytes, exception text).
    """
    from click.testing import CliRunner
    from tola.assembly.scripts.pretext_to_asm import cli

    try:
        runner = CliRunner(mix_stderr=False)
    except TypeError:  # click >= 8.2: always separate
        runner = CliRunner()
    old = os.getcwd()
    os.chdir(cwd)
    try:
        res = runner.invoke(cli, [str(a) for a in args])
    finally:
        os.chdir(old)
    exc = "" if res.exception is None or isinstance(res.exception, SystemExit) else repr(res.exception)
    return res.exit_code, res.stdout_bytes, exc


def session_args(ins, cfg_name, out_dir):
    in_fmt, out_fmt, extra, _ = SESSION_CFGS[cfg_name]
    args = ["-a", ins[in_fmt], "-p", ins["pretext"]]
    if out_fmt:
        args += ["-o", pathlib.Path(out_dir) / f"{OUT}.{out_fmt}"]
    return args + extra


def changed_file(before, now):
    """in words: how the files of a finished invocation differ from what they were when it finished"""
    for name in sorted(set(before) | set(now)):
        a, b = before.get(name), now.get(name)
        if a == b:
            continue
        if a is None:
            return f"a new file {name} ({len(b)} bytes) has appeared in its output directory"
        if b is None:
            return f"its file {name} has disappeared"
        if b.startswith(a):
            return f"{len(b) - len(a)} bytes have been appended to its {name} (which had {len(a)} bytes), beginning {b[len(a):][:160]!r}"
        return f"its {name} has been rewritten ({len(a)} -> {len(b)} bytes): {diff_snapshots({name: a}, {name: b})}"
    return None


class Sessions:
    """the cases of the sessions on disk, with the reference runs (fresh interpreter, empty directory), made once each"""

    def __init__(self, cases, root):
        self.cases = cases
        self.root = pathlib.Path(root)
        self.ins = []
        for i, case in enumerate(cases):
            d = self.root / f"in{i}"
            d.mkdir()
            self.ins.append(g.write_inputs(case, d, formats=("fa", "agp")))
        self.refs = {}
        self.n = 0

    def reference(self, ci, cfg_name):
        if (ci, cfg_name) not in self.refs:
            if SESSION_CFGS[cfg_name][0] == "fa":
                build_cache(self.ins[ci]["fa"])  # every run of the session finds the same, valid index cache
            self.n += 1
            d = self.root / f"ref{self.n}"
            d.mkdir()
            code, out, _ = g.run_subprocess(P2A, session_args(self.ins[ci], cfg_name, d), cwd=self.root, hashseed=0)
            self.refs[ci, cfg_name] = (code, g.snapshot(d), out)
            shutil.rmtree(d, ignore_errors=True)
        return self.refs[ci, cfg_name]

    def run(self, steps, col):
        """steps: [[case number, name in SESSION_CFGS], ...]; returns after the first failure"""
        import logging

        inp = {"kind": "session", "cases": self.cases, "steps": [list(s) for s in steps]}
        self.n += 1
        sdir = self.root / f"session{self.n}"
        sdir.mkdir()
        level = logging.getLogger().level
        reset_logging()
        done = []
        said = lambda k: f"invocation {k + 1} ({SESSION_CFGS[steps[k][1]][3]}, case {self.cases[steps[k][0]]['name']})"  # noqa: E731
        head = f"session {[list(s) for s in steps]} of consecutive pretext-to-asm invocations in one process, each into a directory of its own: "
        try:
            for k, (ci, cfg_name) in enumerate(steps):
                ref_code, ref_snap, ref_out = self.reference(ci, cfg_name)
                out_dir = sdir / f"run{k + 1}"
                out_dir.mkdir()
                code, out, exc = session_invoke(session_args(self.ins[ci], cfg_name, out_dir), self.root)
                col.case(("session", tuple(map(tuple, steps[: k + 1]))))
                for j, j_dir, j_snap in done:
                    if how := changed_file(j_snap, g.snapshot(j_dir)):
                        col.fail(
                            head + f"after {said(k)} the outputs of {said(j)} are no longer what they were when it finished: {how} - the "
                            "files a run leaves depend on what the process did afterwards, not only on its input files",
                            inp,
                        )
                        return
                snap = g.snapshot(out_dir)
                d = None
                if code != ref_code:
                    d = f"exit status {code} {exc} instead of {ref_code}"
                elif (d := diff_snapshots(ref_snap, snap)) is None and SESSION_CFGS[cfg_name][1] is None and out != ref_out:
                    d = "STDOUT: " + str(diff_snapshots({"STDOUT": ref_out}, {"STDOUT": out}))
                if d:
                    col.fail(
                        head + f"{said(k)} does not do what the same command does in a fresh interpreter into an empty directory: {d} - the "
                        "outputs depend on the earlier invocations in the process",
                        inp,
                    )
                    return
                done.append((k, out_dir, snap))
        finally:
            reset_logging(level)
            shutil.rmtree(sdir, ignore_errors=True)


def session_plans(n_cases, quick, rng):
    if quick:
        # every ordered pair over {own log, no log, no --output}, the second invocation on other inputs; two longer ones
        plans = [[[0, x], [1, y]] for x in ("L", "W", "N") for y in ("L", "W", "N")]
        plans.append([[0, "L"], [1, "N"], [0, "D"], [1, "W"], [1, "L"], [0, "N"]])
        plans.append([[1, "W"], [0, "L"], [0, "W"], [1, "L"], [0, "N"], [1, "N"], [0, "L"]])
        return plans
    names = list(SESSION_CFGS)
    plans = [[[a, x], [b, y]] for x in names for y in names for a, b in ((0, 1), (1, 0), (2, 2))]
    for _ in range(120):
        plans.append([[rng.randrange(n_cases), rng.choice(names)] for _ in range(rng.randint(3, 7))])
    return plans


def check_sessions(cases, plans, col):
    with tempfile.TemporaryDirectory() as root:
        sessions = Sessions(cases, root)
        for steps in plans:
            if col.full:
                return
            sessions.run(steps, col)


def check_asm_format(case, col, quick):
    with tempfile.TemporaryDirectory() as root:
        root = pathlib.Path(root)
        (root / "elsewhere").mkdir()
        ins = g.write_inputs(case, root, formats=("agp", "tpf") if g.tpf_can_carry(case) else ("agp",))
        jobs = [(["-f", "TPF", ins["agp"]], "agp->tpf"), ([ins["pretext"], "-f", "AGP"], "pretext->agp"), (["--qc-overlaps", ins["agp"]], "qc")]
        if "tpf" in ins:
            jobs.append(([ins["tpf"], "-f", "AGP"], "tpf->agp"))
        for args, label in jobs:
            outs = []
            for seed, cwd in ((0, root), (1, root / "elsewhere"), ("random", root)):
                code, out, err = g.run_subprocess(AFMT, args, cwd=cwd, hashseed=seed)
                outs.append((code, out))
                col.case((case["name"], "asm-format", label, seed))
            code, out, exc = g.run_asm_format(args)
            outs.append((code, out.encode()))
            col.case((case["name"], "asm-format", label, "inprocess"))
            if any(o != outs[0] for o in outs[1:]):
                col.fail(
                    f"asm-format {label} on case {case['name']}: output differs between runs (hash seeds 0 / 1 / random / in-process): "
                    f"{[(c, len(o)) for c, o in outs]}",
                    {"kind": "asm-format", "case": case, "label": label},
                )
            if label == "qc":
                continue
            # --output-file: into a new file, again into the file just written, into a file holding unrelated bytes
            ext = "tpf" if "TPF" in args else "agp"
            written = []
            for k, found in enumerate(("no file", "no file", "the file written by the same command", "a longer file of unrelated content", "a short file of unrelated content")):
                target = root / ("o1" if k == 0 else "o2") / f"out.{ext}"
                target.parent.mkdir(exist_ok=True)
                if k == 3:
                    target.write_bytes(b"left over from something else\n" * 4000)
                elif k == 4:
                    target.write_bytes(b"?\n")
                code, out, exc = g.run_asm_format([*args, "-o", target])
                col.case((case["name"], "asm-format", label, "-o", k))
                written.append((code, target.read_bytes() if target.exists() else None))
                if written[-1] != written[0]:
                    d = diff_snapshots({target.name: written[0][1] or b""}, {target.name: written[-1][1] or b""})
                    col.fail(
                        f"asm-format {label} -o on case {case['name']}: the output path held {found} before the run and the file written differs from "
                        f"the one written to a new path (exit {written[0][0]} / {code}): {d} - the output file depends on what was on disk, not only on the input file",
                        {"kind": "asm-format", "case": case, "label": label},
                    )
                    break


# ------------------------------------------------------------------ the log at every level, and the files of refused runs


def case_tags_single():
    """one haplotype; the Painted chromosomes carry two and three tags besides Painted (Target, Singleton, Unloc)"""
    S, N = g.S, g.N
    return {
        "name": "tags-single",
        "bpt": 10.0,
        "seed": 31,
        "scaffolds": [
            {"name": "scaffold_1", "pieces": [S(3000)]},
            {"name": "scaffold_2", "pieces": [S(1000), N(200), S(800)]},
            {"name": "scaffold_3", "pieces": [S(600)]},
            {"name": "scaffold_4", "pieces": [S(500)]},
            {"name": "scaffold_5", "pieces": [S(400)]},
            {"name": "scaffold_6", "pieces": [S(1500)]},
        ],
        "pretext": [
            [["scaffold_1", 1, 3000, 1, ["Painted", "Target"]], ["GAP", 100], ["scaffold_3", 1, 600, 1, ["Painted", "Target", "Unloc"]]],
            [["scaffold_2", 1, 2000, -1, ["Painted", "Target", "Singleton"]], ["GAP", 100], ["scaffold_4", 1, 500, 1, ["Target", "Unloc", "Singleton", "Painted"]]],
            [["scaffold_6", 1, 1500, 1, ["Target", "Haplotig"]]],
            [["scaffold_5", 1, 400, 1, []]],
        ],
    }


def case_tags_haps(refused=False):
    """
    two haplotypes, every Painted chromosome tagged Target, some Singleton, some with an Unloc piece.  refused: the same
    Pretext scaffolds in an order in which Hap1 has two chromosomes in a row without a Singleton between them - the tool
    must refuse the map (chromosome naming error; the table of groups goes into the log), the same way every time.
    """
    sizes = {"HAP1_SCAFFOLD_1": 4000, "HAP2_SCAFFOLD_1": 3600, "HAP1_SCAFFOLD_2": 2200, "HAP2_SCAFFOLD_2": 2000, "HAP1_SCAFFOLD_3": 600, "HAP2_SCAFFOLD_3": 500, "HAP1_SCAFFOLD_4": 1400, "HAP1_SCAFFOLD_5": 300}  # fmt: skip

    def whole(name, tags, strand=1):
        return [name, 1, sizes[name], strand, tags]

    pretext = [
        [whole("HAP1_SCAFFOLD_1", ["Painted", "Hap1", "Target"]), ["GAP", 100], whole("HAP1_SCAFFOLD_3", ["Painted", "Hap1", "Target", "Unloc"])],
        [whole("HAP2_SCAFFOLD_1", ["Painted", "Hap2", "Target"]), ["GAP", 100], whole("HAP2_SCAFFOLD_3", ["Unloc", "Target", "Hap2", "Painted"])],
        [whole("HAP1_SCAFFOLD_2", ["Painted", "Hap1", "Target", "Singleton"], -1), ["GAP", 100], whole("HAP1_SCAFFOLD_5", ["Singleton", "Painted", "Unloc", "Hap1", "Target"])],
        [whole("HAP1_SCAFFOLD_4", ["Painted", "Hap1", "Target"])],
        [whole("HAP2_SCAFFOLD_2", ["Painted", "Hap2", "Target"])],
    ]
    if refused:
        pretext = [pretext[i] for i in (0, 3, 1, 2, 4)]
    return {
        "name": "tags-haps-refused" if refused else "tags-haps",
        "bpt": 20.0,
        "seed": 32,
        "scaffolds": [{"name": n, "pieces": [g.S(size)]} for n, size in sizes.items()],
        "pretext": pretext,
    }


def case_tags_random(rng, k):
    """
    random map of Painted chromosomes (one or two haplotypes) whose pieces carry random subsets of Target / Singleton / Unloc
    in random order; with two haplotypes the order of the chromosomes is random too, so some of these maps are refused.
    """
    haps = rng.choice(([None], ["Hap1", "Hap2"], ["Hap1", "Hap2"]))
    target = rng.random() < 0.7
    scaffolds, pretext = [], []
    n = 0
    for _ in range(rng.randint(2, 3)):
        for hap in haps:
            group_tags = ["Painted"] + ([hap] if hap else []) + (["Target"] if target and rng.random() < 0.9 else []) + (["Singleton"] if rng.random() < 0.5 else [])
            rows = []
            for j in range(rng.choice((1, 2, 2, 3))):
                n += 1
                name = f"{hap.upper()}_SCAFFOLD_{n}" if hap else f"scaffold_{n}"
                size = 100 * rng.randint(3, 9) if j else 500 * rng.randint(3, 9)
                scaffolds.append({"name": name, "pieces": [g.S(size)]})
                tags = group_tags + (["Unloc"] if j else [])
                rng.shuffle(tags)
                rows += ([["GAP", 100]] if rows else []) + [[name, 1, size, rng.choice((1, -1)), tags]]
            pretext.append(rows)
    if len(haps) > 1 and rng.random() < 0.5:
        rng.shuffle(pretext)
    return {"name": f"tags-rand{k}", "bpt": 10.0, "seed": 3100 + k, "scaffolds": scaffolds, "pretext": pretext}


def check_log_levels(case, col, levels, seeds, in_fmt="agp"):
    """
    The same command on the same files at each --log-level of `levels` (None: the default level), once per entry of `seeds`
    (a PYTHONHASHSEED value for a fresh interpreter, or "inprocess"): exit status and all files left in the (fresh) output
    directory - the log too, also when the tool refuses the map - must be those of the first run.
    """
    with tempfile.TemporaryDirectory() as root:
        root = pathlib.Path(root)
        ins = g.write_inputs(case, root, formats=(in_fmt,))
        if in_fmt == "fa":
            build_cache(ins["fa"])  # every run finds the same valid cache: no warning lines with paths in the log
        for level in levels:
            first = None
            for k, seed in enumerate(seeds):
                if col.full:
                    return
                out = root / f"o_{level}_{k}"
                out.mkdir()
                args = ["-a", ins[in_fmt], "-p", ins["pretext"], "-o", out / f"{OUT}.{in_fmt}"] + (["--log-level", level] if level else [])
                if seed == "inprocess":
                    code = g.run_pretext_to_asm(args, cwd=root)[0]
                else:
                    code = g.run_subprocess(P2A, args, cwd=root, hashseed=seed)[0]
                snap = g.snapshot(out)
                shutil.rmtree(out, ignore_errors=True)
                inp = {"kind": "levels", "case": case, "level": level, "in_fmt": in_fmt, "seeds": [first[0] if first else seed, seed]}
                col.case((case["name"], "level", level, in_fmt, seed), sample=inp if k == 1 and level == "DEBUG" else None)
                if first is None:
                    first = (seed, code, snap)
                    continue
                d = f"exit status {first[1]} vs {code}" if code != first[1] else diff_snapshots(first[2], snap)
                if d:
                    how = lambda x: "in this process" if x == "inprocess" else f"under PYTHONHASHSEED={x}"  # noqa: E731
                    col.fail(
                        f"case {case['name']}: pretext-to-asm {'--log-level ' + level if level else 'at the default log level'} on the same input files "
                        f"({in_fmt} input), run {how(first[0])} and {how(seed)}"
                        + (" does not end the same way" if code != first[1] else f", is refused both times (exit status {code}) but leaves different files" if code else " writes different files")
                        + f": {d} - the files written (the .log is one of them, at every log level and for a refused map too) depend on the hash seed / "
                        "on the process, not only on the input files",
                        inp,
                    )
                    break


def check_specimen(spec_dir, col):
    specimen = spec_dir.name
    version = ""
    if m := re.search(r"_(\d+)$", specimen):
        version = "." + m.group(1)
        specimen = specimen[: -len(version)]
    input_tpf = spec_dir / f"{specimen}-input{version}.tpf"
    pretext = spec_dir / f"{specimen}-pretext{version}.agp"
    snaps = []
    with tempfile.TemporaryDirectory() as root:
        for k, seed in enumerate((0, 7)):
            out = pathlib.Path(root) / f"o{k}"
            out.mkdir()
            code, _, err = g.run_subprocess(P2A, ["-a", input_tpf, "-p", pretext, "-o", out / f"{specimen}-pretext-to-tpf{version}.tpf", "--write-log"], cwd=out, hashseed=seed)
            col.case(("specimen", spec_dir.name, seed))
            snaps.append((code, g.snapshot(out)))
            if k == 1:
                # and once more with the same --output: the directory now holds the files of the run before
                code, _, err = g.run_subprocess(P2A, ["-a", input_tpf, "-p", pretext, "-o", out / f"{specimen}-pretext-to-tpf{version}.tpf", "--write-log"], cwd=out, hashseed=seed)
                col.case(("specimen", spec_dir.name, seed, "again"))
                snaps.append((code, g.snapshot(out)))
    inp = {"kind": "specimen", "dir": spec_dir.name}
    if len(snaps) > 2 and snaps[2] != snaps[1]:
        d = f"exit status {snaps[1][0]} / {snaps[2][0]}" if snaps[1][0] != snaps[2][0] else diff_snapshots(snaps[1][1], snaps[2][1])
        col.fail(f"specimen {spec_dir.name}: the same command run a second time with the same --output leaves other files than the first time: {d} - the output files depend on what an earlier run left on disk", inp)
    if snaps[0][0] != snaps[1][0]:
        col.fail(f"specimen {spec_dir.name}: exit status {snaps[0][0]} under PYTHONHASHSEED=0 but {snaps[1][0]} under 7", inp)
    elif d := diff_snapshots(snaps[0][1], snaps[1][1]):
        col.fail(f"specimen {spec_dir.name}: outputs differ between PYTHONHASHSEED 0 and 7: {d}", inp)


def replay(inp):
    col = Collector("replay")
    if inp["kind"] == "history":
        try:
            return replay_history(inp)
        finally:
            _HOLD.clear()
    if inp["kind"] == "pair":
        with tempfile.TemporaryDirectory() as root:
            work = Work(inp["case"], root)
            ref, err = work.run(inp["ref"])
            cfg = dict(inp["run"])
            if ref is None:
                # the reference run refused the input: the other run must refuse it too
                snap, _ = work.run(cfg)
                return None if snap is None else f"the reference run {inp['ref']} refused the input ({err[-200:]}), run {cfg} accepted it"
            if inp.get("tpf_files"):
                snap, err = work.run(cfg)
                if snap is None:
                    return f"run failed: {err}"
                d = diff_snapshots({n: v for n, v in ref.items() if n.endswith(".tpf")}, {n: v for n, v in snap.items() if n.endswith(".tpf")})
                return d
            compare(work, inp["ref"], ref, cfg, col, rows_only=inp.get("rows_only", False))
            if not col.failures and cfg.get("pre") is not None:
                # a dependence on the state of the heap need not show with exactly the same prelude on another day
                # (another interpreter build, other paths): try a few neighbouring preludes before giving up
                for k in range(1, 7):
                    if not col.failures:
                        compare(work, inp["ref"], ref, dict(cfg, pre=cfg["pre"] + k), col)
    elif inp["kind"] == "levels":
        check_log_levels(inp["case"], col, [inp["level"]], inp["seeds"], inp.get("in_fmt", "agp"))
    elif inp["kind"] == "session":
        check_sessions(inp["cases"], [inp["steps"]], col)
    elif inp["kind"] == "asm-format":
        check_asm_format(inp["case"], col, True)
    elif inp["kind"] == "specimen":
        check_specimen(SPECIMENS / inp["dir"], col)
    return col.failures[0]["message"] if col.failures else None


def run(tier, seed, **opts):
    rng = random.Random(seed)
    quick = tier == "quick"
    col = Collector(
        "generated (input assembly, Pretext AGP) pairs - a contig cut in two whose piece is tagged Painted X Unloc / Hap1 Painted "
        "Haplotig, two haplotypes, unlocs, haplotigs, contaminants, random maps - each run as subprocess under PYTHONHASHSEED "
        "0, 1, 2, random from three working directories with the FASTA index cache cold / warm, in process with index buffer sizes "
        "from 250000 down to 7 (incl. divisors of the gap lengths), in process in different orders after other inputs, and with "
        "the input supplied as FASTA / AGP / TPF; asm-format under different hash seeds; thorough: the 12 specimens twice; "
        "tie maps (a short contig cut through its exact middle / into equal thirds by Pretext pieces, pieces overlapping or duplicating "
        "each other, chromosomes of equal length; strands, order, one or several Pretext scaffolds, resolution above / below the piece "
        "size; random maps with several such contigs) run repeatedly in one process in changing orders with allocation churn in between "
        "(blocks of all small size classes and project objects allocated, partly freed in random order, partly kept), collector on / "
        "off / collected first, and in fresh interpreters whose heap was used before the program starts; "
        "every generated case also with the two index cache files next to the FASTA in each state (absent / from this FASTA and newer, "
        "equally old, older / from an earlier version of the FASTA and older, equally old) compared with the run without cache, and run "
        "again with the same --output (default --clobber) after runs on the same and on other inputs or onto files of unrelated content "
        "named like the outputs, compared with the run into an empty directory (all files, the .log included); asm-format -o likewise; "
        "sessions of consecutive invocations in one process with nothing reset in between (with / without --output, with / without "
        "--write-log, other --log-level, other inputs and formats, each into its own directory): after each invocation all files of all "
        "earlier invocations byte-identical to what they were when those finished, and the invocation's own files / exit status / "
        "STDOUT those of a fresh interpreter (quick: all ordered pairs over 3 kinds of invocation + 2 sessions of 6-7; thorough: all "
        "ordered pairs over 8 kinds x 3 pairs of cases + 120 seeded random sessions of 3-7); "
        "every generated case also with -a / -p spelled relative to the working directory and as absolute paths with a detour, from "
        "other working directories, cache cold: all files incl. the index cache files written beside the FASTA compared with the reference run "
        "(the cache files are compared between all runs that write them); "
        "maps whose Painted chromosomes carry 2-3 of the tags Target / Singleton / Unloc (one haplotype, two haplotypes, and two haplotypes in an "
        "order the tool refuses with a chromosome naming error" + ("" if quick else "; 12 seeded random ones; the general cases") + ") run at --log-level DEBUG"
        + (" / default" if quick else " / default / WARNING, agp and FASTA input,") + " under " + ("2-3" if quick else "6") + " hash seeds and in process: exit "
        "status and all files, the log of a refused run included, identical; "
        "the simple case under sequence names that begin with / contain / end in non-ASCII white space or 0x1C-0x1F: cache cold vs warm / fresh, FASTA vs AGP / TPF input; "
        "non-trivial = distinct (case, run configuration) compared with the reference run"
    )
    cases = [g.case_cut(), g.case_haps(), g.case_multi()]
    if quick:
        cases.append(g.case_random(rng, 0))
    else:
        cases += [g.case_simple()] + [g.case_random(rng, k) for k in range(12)]
    for i, case in enumerate(cases):
        if col.full:
            break
        check_case(case, col, quick, rng, full_cache=not quick or i < 1)
    named = name_cases(quick)
    if not col.full:
        check_names(named, col, quick)
    if not col.full:
        check_orders(cases[:3], col, quick)
    for case in cases[:2] if quick else cases[:6]:
        if not col.full:
            check_asm_format(case, col, quick)
    plans = session_plans(3, quick, rng)
    if not col.full:
        check_sessions(cases[:3], plans, col)
    ties = tie_family(quick, rng)
    reps, n_pre = (12, 1) if quick else (40, 3)
    if not col.full:
        try:
            check_history(ties, col, reps, n_pre, seed)
        finally:
            _HOLD.clear()
    # the log at other levels than the default, and the files left by refused runs, under several hash seeds
    tag_cases = [case_tags_single(), case_tags_haps(), case_tags_haps(refused=True)]
    if quick:
        level_plan = [
            (tag_cases[0], ["DEBUG"], [0, 1, 2, "inprocess"], "agp"),
            (tag_cases[1], ["DEBUG"], [0, 3, "inprocess"], "agp"),
            (tag_cases[2], [None], [0, 1, "inprocess"], "agp"),
            (tag_cases[2], ["DEBUG"], [0, 2], "agp"),
        ]
    else:
        tag_cases += [case_tags_random(rng, k) for k in range(12)]
        seeds = [0, 1, 2, 3, 7, "random", "inprocess"]
        level_plan = [(case, [None, "DEBUG", "WARNING"], seeds, "agp") for case in tag_cases]
        level_plan += [(case, ["DEBUG"], seeds[:4], "fa") for case in tag_cases[:5]]
        level_plan += [(case, ["DEBUG"], seeds, "agp") for case in cases]
    n_levels = 0
    for case, levels, seeds, in_fmt in level_plan:
        if not col.full:
            check_log_levels(case, col, levels, seeds, in_fmt)
            n_levels += len(levels) * len(seeds)
    n_spec = 0
    if not quick and SPECIMENS.is_dir():
        for spec in sorted(p for p in SPECIMENS.iterdir() if p.is_dir()):
            if col.full:
                break
            check_specimen(spec, col)
            n_spec += 1
    return col.result(
        bounds=f"{len(cases)} generated cases x (4" + ("" if quick else "+6") + " subprocess runs, 2 in-process runs, "
        + ("6" if quick else "11") + " buffer sizes, up to 4 input/output format pairs, "
        + ("14 cache states + 2 as subprocess (first case) or 8 cache states, " if quick else "36 cache states x FASTA / AGP / TPF output + 8 as subprocess, ")
        + ("7 + 4 (first case) or 4 re-runs into a used output directory); 3 cases in " if quick else "up to 11 + 3 re-runs into a used output directory for each of FASTA / AGP / TPF output); 3 cases in ")
        + ("6" if quick else "6") + f" orders in one process; asm-format 3-4 conversions x 4 runs; {n_spec} specimens x 2 hash seeds; "
        f"{len(plans)} sessions of 2-7 unreset in-process invocations; "
        f"{n_levels} runs of {len(tag_cases)} multi-tag maps" + ("" if quick else f" and {len(cases)} general cases") + " at --log-level DEBUG / default"
        + ("" if quick else " / WARNING") + " under different hash seeds; "
        + ("2 + 2 (first case: 4)" if quick else "13") + " runs per case with the input paths spelled relative / with a detour; "
        f"{len(named)} cases with white-space-like characters in the sequence names x (cold vs 2-3 warm runs, FASTA vs AGP / TPF input); "
        f"{len(ties)} tie maps x (1 reference + {n_pre} pre-used fresh interpreters + {reps} in-process runs in shuffled rounds with churn / gc modes)",
        exhaustive=False,
    )
