"""
C17 bounded tier: outputs are a deterministic function of the input files.

Every comparison is between the complete sets of files written by two runs of the real CLIs on the same
input bytes (byte for byte, the .log included - it prints no absolute paths), where the runs differ only in
things the property says must not matter: PYTHONHASHSEED, working directory (absolute / relative output
path), FASTA index cache cold or warm, stream buffer size, what ran before in the same process, and the
format in which the same input assembly is supplied.
"""

import itertools
import os
import pathlib
import random
import re
import shutil
import tempfile

from . import cli_gen as g
from .common import Collector

P2A = "tola.assembly.scripts.pretext_to_asm"
AFMT = "tola.assembly.scripts.asm_format"
OUT = "xxTest1.2"
SPECIMENS = pathlib.Path(os.environ.get("VERIF_REPO") or "/repo") / "tests" / "data"

FIXED = {"simple": g.case_simple, "multi": g.case_multi, "cut": g.case_cut, "haps": g.case_haps}


class Work:
    """one case on disk: inputs in <root>/in (shared by all runs, so the index cache state is controlled)"""

    def __init__(self, case, root):
        self.case = case
        self.root = pathlib.Path(root)
        (self.root / "in").mkdir()
        (self.root / "elsewhere").mkdir()
        fmts = ("fa", "agp", "tpf") if g.tpf_can_carry(case) else ("fa", "agp")
        self.inputs = g.write_inputs(case, self.root / "in", formats=fmts)
        self.n = 0

    def cache_files(self):
        fa = self.inputs["fa"]
        return [pathlib.Path(str(fa) + ".fai"), pathlib.Path(str(fa) + ".agp")]

    def run(self, cfg):
        """returns (snapshot dict | None, error text)"""
        self.n += 1
        out_dir = self.root / f"out{self.n}"
        out_dir.mkdir()
        in_fmt = cfg.get("in_fmt", "fa")
        out_fmt = cfg.get("out_fmt", "fa")
        if in_fmt == "fa":
            if cfg.get("cache") == "cold":
                for p in self.cache_files():
                    p.unlink(missing_ok=True)
            elif cfg.get("cache") == "warm" and not all(p.exists() for p in self.cache_files()):
                import logging

                from tola.fasta.index import FastaIndex

                prev = logging.root.manager.disable
                logging.disable(logging.CRITICAL)
                try:
                    FastaIndex(self.inputs["fa"]).auto_load()
                finally:
                    logging.disable(prev)
        cwd = {"root": self.root, "elsewhere": self.root / "elsewhere", "outdir": out_dir}[cfg.get("cwd", "root")]
        out_arg = f"{OUT}.{out_fmt}" if cfg.get("cwd") == "outdir" else out_dir / f"{OUT}.{out_fmt}"
        args = ["-a", self.inputs[in_fmt], "-p", self.inputs["pretext"], "-o", out_arg] + cfg.get("extra", [])
        if cfg["via"] == "subprocess":
            code, _, err = g.run_subprocess(P2A, args, cwd=cwd, hashseed=cfg.get("hashseed"))
            err = err.decode(errors="replace")
        else:
            code, err = self.run_inprocess(args, cwd, cfg.get("buffer"))
        if code != 0:
            shutil.rmtree(out_dir, ignore_errors=True)
            return None, f"exit {code}: {err[-400:]}"
        snap = g.snapshot(out_dir)
        shutil.rmtree(out_dir, ignore_errors=True)
        return snap, ""

    def run_inprocess(self, args, cwd, buffer):
        import tola.assembly.scripts.pretext_to_asm as mod

        orig = mod.FastaIndex
        if buffer:

            class SmallBufferIndex(orig):
                def __init__(self, fasta_file, buffer_size=buffer):
                    super().__init__(fasta_file, buffer_size)

            mod.FastaIndex = SmallBufferIndex
        try:
            code, _, err, exc = g.run_pretext_to_asm(args, cwd=cwd)
        finally:
            mod.FastaIndex = orig
        return code, (exc or "") + err


def diff_snapshots(a, b):
    if sorted(a) != sorted(b):
        return f"different sets of output files: {sorted(a)} vs {sorted(b)}"
    for name in sorted(a):
        if a[name] != b[name]:
            la, lb = a[name].split(b"\n"), b[name].split(b"\n")
            for i, (x, y) in enumerate(zip(la, lb)):
                if x != y:
                    return f"{name} differs at line {i + 1}: {x[:120]!r} vs {y[:120]!r}"
            return f"{name} differs in length: {len(a[name])} vs {len(b[name])} bytes"
    return None


def assembly_rows(snap):
    """{file name: rows} of the assembly files (.agp) of a snapshot"""
    return {n: [ln for ln in data.split(b"\n") if ln and not ln.startswith(b"#")] for n, data in snap.items() if n.endswith(".agp")}


def compare(work, ref_cfg, ref, cfg, col, rows_only=False):
    inp = {"kind": "pair", "case": work.case, "ref": ref_cfg, "run": cfg, "rows_only": rows_only}
    snap, err = work.run(cfg)
    col.case((work.case["name"], repr(sorted(cfg.items()))), sample=inp if cfg.get("hashseed") == 2 else None)
    if snap is None:
        col.fail(f"case {work.case['name']}: run {cfg} failed though the reference run {ref_cfg} succeeded: {err}", inp)
        return
    if rows_only:
        ra, rb = assembly_rows(ref), assembly_rows(snap)
        d = None
        if sorted(ra) != sorted(rb):
            d = f"different assembly files {sorted(ra)} vs {sorted(rb)}"
        else:
            for n in ra:
                if ra[n] != rb[n]:
                    k = next((i for i, (x, y) in enumerate(zip(ra[n], rb[n])) if x != y), min(len(ra[n]), len(rb[n])))
                    d = f"{n}: row {k + 1} differs ({len(ra[n])} vs {len(rb[n])} rows)"
                    break
    else:
        d = diff_snapshots(ref, snap)
    if d:
        col.fail(f"case {work.case['name']}: outputs of {cfg} differ from those of {ref_cfg}: {d}", inp)


def check_case(case, col, quick, rng):
    with tempfile.TemporaryDirectory() as root:
        work = Work(case, root)
        ref_cfg = {"via": "subprocess", "hashseed": 0, "cwd": "root", "cache": "cold"}
        ref, err = work.run(ref_cfg)
        col.case((case["name"], "ref"))
        if ref is None:
            # an input the tool rejects: nothing to compare, but it must be rejected every time
            snap2, _ = work.run({"via": "subprocess", "hashseed": 1, "cwd": "elsewhere", "cache": "warm"})
            if snap2 is not None:
                col.fail(f"case {case['name']}: fails under PYTHONHASHSEED=0 ({err[-200:]}) but succeeds under 1", {"kind": "pair", "case": case, "ref": ref_cfg, "run": {"via": "subprocess", "hashseed": 1}})
            return
        runs = [
            {"via": "subprocess", "hashseed": 1, "cwd": "elsewhere", "cache": "warm"},
            {"via": "subprocess", "hashseed": 2, "cwd": "outdir", "cache": "cold"},
            {"via": "subprocess", "hashseed": "random", "cwd": "root", "cache": "warm"},
        ]
        if not quick:
            runs += [{"via": "subprocess", "hashseed": s, "cwd": rng.choice(("root", "elsewhere", "outdir")), "cache": rng.choice(("cold", "warm"))} for s in (3, 4, 5, 11, 4242, "random")]
        runs += [{"via": "inprocess", "cwd": "root", "cache": "warm"}, {"via": "inprocess", "cwd": "outdir", "cache": "cold"}]
        # stream buffer sizes (reachable in process: the index class used by the CLI module is given another default)
        for b in (250_000, 1000, 200, 100, 64, 7) if quick else (250_000, 4096, 1000, 250, 200, 150, 100, 64, 50, 7, 1):
            runs.append({"via": "inprocess", "cwd": "root", "cache": ("warm", "cold")[b % 2], "buffer": b})
        for cfg in runs:
            if col.full:
                return
            compare(work, ref_cfg, ref, cfg, col)
        # the same input assembly as FASTA, AGP or TPF: same output assemblies row for row
        ref_agp_cfg = {"via": "inprocess", "in_fmt": "fa", "out_fmt": "agp", "cache": "warm"}
        ref_agp, err = work.run(ref_agp_cfg)
        col.case((case["name"], "ref-agp"))
        if ref_agp is None:
            col.fail(f"case {case['name']}: FASTA input with AGP output failed: {err}", {"kind": "pair", "case": case, "ref": ref_cfg, "run": ref_agp_cfg})
            return
        for in_fmt in ("agp", "tpf"):
            if in_fmt in work.inputs:
                for out_fmt in ("agp", "tpf"):
                    r_cfg = {"via": "inprocess", "in_fmt": "fa", "out_fmt": out_fmt, "cache": "warm"}
                    r, _ = (ref_agp, "") if out_fmt == "agp" else work.run(r_cfg)
                    if r is None:
                        continue
                    cfg = {"via": "inprocess", "in_fmt": in_fmt, "out_fmt": out_fmt}
                    # TPF output files are assemblies too: compare all files except the log in that case
                    if out_fmt == "agp":
                        compare(work, r_cfg, r, cfg, col, rows_only=True)
                    else:
                        snap, err = work.run(cfg)
                        col.case((case["name"], in_fmt, out_fmt))
                        inp = {"kind": "pair", "case": case, "ref": r_cfg, "run": cfg, "tpf_files": True}
                        if snap is None:
                            col.fail(f"case {case['name']}: {in_fmt} input failed where FASTA input succeeded: {err}", inp)
                        else:
                            ta = {n: v for n, v in r.items() if n.endswith(".tpf")}
                            tb = {n: v for n, v in snap.items() if n.endswith(".tpf")}
                            d = diff_snapshots(ta, tb)
                            if d:
                                col.fail(f"case {case['name']}: output assemblies from {in_fmt} input differ from those from FASTA input: {d}", inp)


def check_orders(cases, col, quick):
    """consecutive invocations in one process, on different inputs, in different orders"""
    with tempfile.TemporaryDirectory() as root:
        works = []
        refs = []
        for i, case in enumerate(cases):
            d = pathlib.Path(root) / f"c{i}"
            d.mkdir()
            w = Work(case, d)
            ref_cfg = {"via": "subprocess", "hashseed": 0, "cwd": "root", "cache": "cold"}
            ref, _ = w.run(ref_cfg)
            works.append(w)
            refs.append((ref_cfg, ref))
        orders = list(itertools.permutations(range(len(cases))))
        if quick:
            orders = orders[:6]
        for order in orders:
            for pos, i in enumerate(order):
                if refs[i][1] is None or col.full:
                    continue
                cfg = {"via": "inprocess", "cwd": ("root", "elsewhere")[pos % 2], "cache": "warm", "order": list(order), "position": pos}
                compare(works[i], refs[i][0], refs[i][1], cfg, col)


def check_asm_format(case, col, quick):
    with tempfile.TemporaryDirectory() as root:
        root = pathlib.Path(root)
        (root / "elsewhere").mkdir()
        ins = g.write_inputs(case, root, formats=("agp", "tpf") if g.tpf_can_carry(case) else ("agp",))
        jobs = [(["-f", "TPF", ins["agp"]], "agp->tpf"), ([ins["pretext"], "-f", "AGP"], "pretext->agp"), (["--qc-overlaps", ins["agp"]], "qc")]
        if "tpf" in ins:
            jobs.append(([ins["tpf"], "-f", "AGP"], "tpf->agp"))
        for args, label in jobs:
            outs = []
            for seed, cwd in ((0, root), (1, root / "elsewhere"), ("random", root)):
                code, out, err = g.run_subprocess(AFMT, args, cwd=cwd, hashseed=seed)
                outs.append((code, out))
                col.case((case["name"], "asm-format", label, seed))
            code, out, exc = g.run_asm_format(args)
            outs.append((code, out.encode()))
            col.case((case["name"], "asm-format", label, "inprocess"))
            if any(o != outs[0] for o in outs[1:]):
                col.fail(
                    f"asm-format {label} on case {case['name']}: output differs between runs (hash seeds 0 / 1 / random / in-process): "
                    f"{[(c, len(o)) for c, o in outs]}",
                    {"kind": "asm-format", "case": case, "label": label},
                )


def check_specimen(spec_dir, col):
    specimen = spec_dir.name
    version = ""
    if m := re.search(r"_(\d+)$", specimen):
        version = "." + m.group(1)
        specimen = specimen[: -len(version)]
    input_tpf = spec_dir / f"{specimen}-input{version}.tpf"
    pretext = spec_dir / f"{specimen}-pretext{version}.agp"
    snaps = []
    with tempfile.TemporaryDirectory() as root:
        for k, seed in enumerate((0, 7)):
            out = pathlib.Path(root) / f"o{k}"
            out.mkdir()
            code, _, err = g.run_subprocess(P2A, ["-a", input_tpf, "-p", pretext, "-o", out / f"{specimen}-pretext-to-tpf{version}.tpf", "--write-log"], cwd=out, hashseed=seed)
            col.case(("specimen", spec_dir.name, seed))
            snaps.append((code, g.snapshot(out)))
    inp = {"kind": "specimen", "dir": spec_dir.name}
    if snaps[0][0] != snaps[1][0]:
        col.fail(f"specimen {spec_dir.name}: exit status {snaps[0][0]} under PYTHONHASHSEED=0 but {snaps[1][0]} under 7", inp)
    elif d := diff_snapshots(snaps[0][1], snaps[1][1]):
        col.fail(f"specimen {spec_dir.name}: outputs differ between PYTHONHASHSEED 0 and 7: {d}", inp)


def replay(inp):
    col = Collector("replay")
    if inp["kind"] == "pair":
        with tempfile.TemporaryDirectory() as root:
            work = Work(inp["case"], root)
            ref, err = work.run(inp["ref"])
            if ref is None:
                return None
            cfg = dict(inp["run"])
            if inp.get("tpf_files"):
                snap, err = work.run(cfg)
                if snap is None:
                    return f"run failed: {err}"
                d = diff_snapshots({n: v for n, v in ref.items() if n.endswith(".tpf")}, {n: v for n, v in snap.items() if n.endswith(".tpf")})
                return d
            compare(work, inp["ref"], ref, cfg, col, rows_only=inp.get("rows_only", False))
    elif inp["kind"] == "asm-format":
        check_asm_format(inp["case"], col, True)
    elif inp["kind"] == "specimen":
        check_specimen(SPECIMENS / inp["dir"], col)
    return col.failures[0]["message"] if col.failures else None


def run(tier, seed, **opts):
    rng = random.Random(seed)
    quick = tier == "quick"
    col = Collector(
        "generated (input assembly, Pretext AGP) pairs - a contig cut in two whose piece is tagged Painted X Unloc / Hap1 Painted "
        "Haplotig, two haplotypes, unlocs, haplotigs, contaminants, random maps - each run as subprocess under PYTHONHASHSEED "
        "0, 1, 2, random from three working directories with the FASTA index cache cold / warm, in process with index buffer sizes "
        "from 250000 down to 7 (incl. divisors of the gap lengths), in process in different orders after other inputs, and with "
        "the input supplied as FASTA / AGP / TPF; asm-format under different hash seeds; thorough: the 12 specimens twice; "
        "non-trivial = distinct (case, run configuration) compared with the reference run"
    )
    cases = [g.case_cut(), g.case_haps(), g.case_multi()]
    if quick:
        cases.append(g.case_random(rng, 0))
    else:
        cases += [g.case_simple()] + [g.case_random(rng, k) for k in range(12)]
    for case in cases:
        if col.full:
            break
        check_case(case, col, quick, rng)
    if not col.full:
        check_orders(cases[:3], col, quick)
    for case in cases[:2] if quick else cases[:6]:
        if not col.full:
            check_asm_format(case, col, quick)
    n_spec = 0
    if not quick and SPECIMENS.is_dir():
        for spec in sorted(p for p in SPECIMENS.iterdir() if p.is_dir()):
            if col.full:
                break
            check_specimen(spec, col)
            n_spec += 1
    return col.result(
        bounds=f"{len(cases)} generated cases x (4" + ("" if quick else "+6") + " subprocess runs, 2 in-process runs, "
        + ("6" if quick else "11") + " buffer sizes, up to 4 input/output format pairs); 3 cases in "
        + ("6" if quick else "6") + f" orders in one process; asm-format 3-4 conversions x 4 runs; {n_spec} specimens x 2 hash seeds",
        exhaustive=False,
    )
