"""
C20 bounded tier: Assembly.scaffolds_sorted_by_name / smart_sort_scaffolds / name_natural_key.

Oracle: a hand-written left-to-right tokenizer (no regular expression): a name is an alternation
text, number, text, ..., number, text where a number is a maximal run of decimal digits (by value) or one of
the numerals I, II, III, IV (IV first, else up to three I) and everything else is text.  Two names compare
token by token (text as strings, numbers as integers, a proper prefix first).  Clauses of the statement:
never raises; consistent under permutation of the initial order; decimals and I..IV by value; an unloc directly
after its own chromosome; rank before name.

The order is a function of the names and ranks the scaffolds carry at the moment of sorting, of nothing else:
history cases keep the SAME Scaffold objects through several stages - keys taken, sorted by name in one
assembly and by (rank, name) in a second assembly holding the same objects, then renamed / re-ranked in place
(plain assignment, ScaffoldNamer.rename_by_size, ChrNamer.add_chr_prefix) and all of it again - and every
stage is judged by the oracle on the current names and compared with new objects carrying the same names.

"Of nothing else" includes everything else a Scaffold carries: haplotype, tag, original_name, original_tags and
rows (how many, how long, of which contigs).  The attribute cases (kind "attrs") give every scaffold of a name
set its own values of these - one attribute at a time over every assignment of a small value pool to the
scaffolds (so that the attribute runs against the name order in some assignment whatever its own order is), then
all at once at random - and demand, for every initial order, the order the oracle derives from rank and name,
and name_natural_key equal to that of a bare Scaffold(name); families and histories get attributes as well.
Long names (kind "long"): the quantifier bounds neither the length of a name nor how many numbers it holds, and every
number of a name counts ("embedded decimal numbers compare by value"), the 300th as much as the first.  Names that
agree in their first k-1 numbers and differ in the k-th (2, 9, 10, 100; zero-padded twins; I..IV against decimals;
chromosome, its unlocs, the next chromosome) for k from 1 to several thousand, behind long runs of text as well, are
sorted from every initial order (seven orders where name length x number of orders exceeds 60 000) and judged by the same oracle.
spec = {"pad": int, "stem": str, "sep": str, "k": int, "lead": "count"|"same"|"roman"|"mixed", "tails": [str, ...]}:
name i = "q" * pad + (stem + <number j> + sep for j = 1..k-1) + stem + tails[i]   (see long_names)

Very long digit runs (kind "digits"): one name of the case holds a run of `digits` decimal digits at its start, in
its middle or at its end, next to a twin whose run differs in the last digit and a few ordinary names; both entry points, all
initial orders, judged by the same oracle (the oracle reads digits by arithmetic, it has no limit).  KNOWN FINDING,
class "c20-digit-run-over-int-limit": where the interpreter limits int <-> str conversion (sys.get_int_max_str_digits(),
4300 by default; 0 = no limit) a run of more digits makes int() in the key function raise ValueError.  A failure carries
that class only if some name of the case has a digit run longer than the limit AND the failure is a ValueError raised
by the sort; a wrong order, another exception, or a ValueError for names within the limit stay unclassified.

Scaffolds built without a rank (kind "mixed").  "Sorting scaffolds by name succeeds for every set of names" and "rank takes
precedence over name" are said of scaffolds, however they came to be: the rank is an optional argument of the constructor, and
most scaffolds are built without one - Scaffold(name), Scaffold(name, rows=...), everything parse_agp / parse_tpf return,
Scaffold.reverse().  Such scaffolds all stand for the same thing (no rank given), so in the output they form ONE rank class:
made = [how, ...] says for each name how its scaffold is built (an int: Scaffold(name, rank=<int>), rank 0 given explicitly
too; "ctor" | "rows" | "agp" | "tpf" | "reverse": without a rank).  Demanded, for every initial order: neither entry point
raises; scaffolds_sorted_by_name gives the oracle's name order; smart_sort_scaffolds gives an order that is (rank, name)
order for SOME one place r* of the no-rank class among the ranks (before all, level with one of them, between two, after
all - the statement does not say which, only that there is an order and rank comes first in it), the scaffolds with a rank
among themselves by (rank, name), those without among themselves by name; and the same order from every initial order.

attr = {"haplotype": str|None, "tag": str|None, "original_name": str|None, "original_tags": [str]|None,
        "rows": [[contig name, length, strand], ...]}   (a missing key = the constructor's default)
"""

import io
import itertools
import random
import sys

from tola.assembly.assembly import Assembly
from tola.assembly.fragment import Fragment
from tola.assembly.parser import parse_agp, parse_tpf
from tola.assembly.scaffold import Scaffold

from .common import Collector

SMALL_ALPHABET = "SIVX_012"
WIDE_ALPHABET = "ABHISVXZabisvx0123456789_-."


def okey(name):
    """independent natural key: [text, number, text, ..., text]"""
    toks = [""]
    p = 0
    n = len(name)
    while p < n:
        ch = name[p]
        if "0" <= ch <= "9":
            q = p
            v = 0
            while q < n and "0" <= name[q] <= "9":
                v = v * 10 + (ord(name[q]) - 48)
                q += 1
            toks += [v, ""]
            p = q
        elif ch == "I":
            if p + 1 < n and name[p + 1] == "V":
                toks += [4, ""]
                p += 2
            else:
                q = p
                while q < n and name[q] == "I" and q - p < 3:
                    q += 1
                toks += [q - p, ""]
                p = q
        else:
            toks[-1] += ch
            p += 1
    return toks


def ocmp(a, b):
    """-1/0/1 for oracle keys"""
    for x, y in zip(a, b):
        if x != y:
            return -1 if x < y else 1
    return (len(a) > len(b)) - (len(a) < len(b))


def dress(sc, attr):
    """give a Scaffold the attribute values of `attr` (see the module docstring)"""
    if not attr:
        return sc
    if "haplotype" in attr:
        sc.haplotype = attr["haplotype"]
    if "tag" in attr:
        sc.tag = attr["tag"]
    if "original_name" in attr:
        sc.original_name = attr["original_name"]
    if "original_tags" in attr:
        sc.original_tags = None if attr["original_tags"] is None else set(attr["original_tags"])
    if "rows" in attr:
        sc.rows = [Fragment(nm, 1, ln, st) for nm, ln, st in attr["rows"]]
    return sc


def sort_by_name(names, attrs=None):
    asm = Assembly("a", scaffolds=[dress(Scaffold(n), a) for n, a in zip(names, attrs or [None] * len(names))])
    given = list(asm.scaffolds)
    out = asm.scaffolds_sorted_by_name()
    return given, out


def smart_sort(names, ranks, attrs=None):
    asm = Assembly("a", scaffolds=[dress(Scaffold(n, rank=r), a) for n, r, a in zip(names, ranks, attrs or [None] * len(names))])
    given = list(asm.scaffolds)
    asm.smart_sort_scaffolds()
    return given, list(asm.scaffolds)


def brief(attrs):
    """the attribute values that differ from the defaults, for messages"""
    return [{k: v for k, v in (a or {}).items() if v not in (None, [])} for a in attrs]


def judge(given, out, what):
    """out must be the same objects, in non-decreasing (rank, oracle key) order"""
    if sorted(map(id, given)) != sorted(map(id, out)):
        return f"{what}: output is not a rearrangement of the input scaffolds"
    by_rank = what.startswith("smart")
    for s, t in zip(out, out[1:]):
        if by_rank and s.rank != t.rank:
            if s.rank > t.rank:
                return f"{what}: '{s.name}' (rank {s.rank}) placed before '{t.name}' (rank {t.rank})"
            continue
        if ocmp(okey(s.name), okey(t.name)) > 0:
            return f"{what}: '{s.name}' placed before '{t.name}' ({okey(s.name)} > {okey(t.name)})"
    return None


def check_sort(names, ranks, col, inp, count=True, attrs=None):
    """both entry points on one initial order; returns the key sequences for the consistency check"""
    res = []
    worn = f", the scaffolds carrying {brief(attrs)}: the order must depend on rank and name only" if attrs else ""
    try:
        given, out = sort_by_name(names, attrs)
    except Exception as e:
        col.fail(f"scaffolds_sorted_by_name({names}) raised {type(e).__name__}: {e}{worn}", inp)
        return None
    msg = judge(given, out, "scaffolds_sorted_by_name")
    if msg:
        col.fail(f"{msg} for initial order {names}{worn}", inp)
        return None
    res.append([tuple(okey(s.name)) for s in out])
    rk = ranks or [0] * len(names)
    try:
        given, out = smart_sort(names, rk, attrs)
    except Exception as e:
        col.fail(f"smart_sort_scaffolds({names}, ranks {rk}) raised {type(e).__name__}: {e}{worn}", inp)
        return None
    msg = judge(given, out, "smart_sort_scaffolds")
    if msg:
        col.fail(f"{msg} for initial order {names} ranks {rk}{worn}", inp)
        return None
    res.append([(s.rank, tuple(okey(s.name))) for s in out])
    if attrs:
        for sc in given:
            try:
                k, bare = Assembly.name_natural_key(sc), Assembly.name_natural_key(Scaffold(sc.name))
            except Exception as e:
                col.fail(f"name_natural_key raised {type(e).__name__}: {e} for '{sc.name}'{worn}", inp)
                return None
            if k != bare:
                col.fail(f"name_natural_key of '{sc.name}' is {k!r}, of a bare scaffold of that name {bare!r}{worn}", inp)
                return None
    return res


def check_set(names, ranks, col, attrs=None):
    """all permutations of the initial order (<= 5 names): same order up to equal keys"""
    inp = {"kind": "set", "names": list(names), "ranks": list(ranks) if ranks else None}
    if attrs:
        inp = {**inp, "kind": "attrs", "attrs": attrs}
    first = None
    idx = list(range(len(names)))
    for perm in itertools.permutations(idx):
        nm = [names[i] for i in perm]
        rk = [ranks[i] for i in perm] if ranks else None
        res = check_sort(nm, rk, col, inp, attrs=[attrs[i] for i in perm] if attrs else None)
        col.evaluations += 2
        if res is None:
            return
        if first is None:
            first = res
        elif res != first:
            col.fail(f"order depends on the initial order: {names} ranks {ranks}", inp)
            return


def key_of(name):
    return Assembly.name_natural_key(Scaffold(name))


def trie_scan(names, col):
    """
    all-pairs comparability of the real keys without the quadratic loop: two tuples fail to compare exactly
    when they agree on a prefix and then hold an int against a str.  Returns a list of offending name pairs.
    """
    root = {}
    bad = []
    for nm in names:
        try:
            k = key_of(nm)
        except Exception as e:
            col.fail(
                f"name_natural_key('{nm}') raised {type(e).__name__}: {e}",
                {"kind": "set", "names": [nm, nm + "_"], "ranks": None},
            )
            if col.full:
                return bad
            continue
        node = root
        for el in k:
            kinds = node.setdefault("\0kinds", {})
            # what matters is whether the elements can be compared: text with text, numbers with numbers
            kind = "text" if isinstance(el, str) else "number" if isinstance(el, (int, float)) else type(el).__name__
            kinds.setdefault(kind, nm)
            if len(kinds) > 1 and "\0reported" not in node:
                node["\0reported"] = True
                bad.append(tuple(kinds.values()))
            node = node.setdefault(("v", el), {})
    return bad


def all_names(alphabet, max_len):
    for n in range(1, max_len + 1):
        for t in itertools.product(alphabet, repeat=n):
            yield "".join(t)


def check_global(names, rng, col, shuffles):
    """one big sort from several initial orders: output sorted w.r.t. the oracle"""
    for k in range(shuffles):
        order = list(names)
        if k:
            rng.shuffle(order)
        else:
            order.reverse()
        try:
            given, out = sort_by_name(order)
        except Exception as e:
            # find a small witness
            col.fail(
                f"scaffolds_sorted_by_name over {len(order)} names raised {type(e).__name__}: {e}",
                {"kind": "all", "alphabet": "".join(sorted(set("".join(names)))), "max_len": max(map(len, names))},
            )
            return
        col.evaluations += 1
        prev = None
        for s in out:
            if prev is not None and ocmp(okey(prev.name), okey(s.name)) > 0:
                inp = {"kind": "set", "names": [s.name, prev.name], "ranks": None}
                col.fail(f"'{prev.name}' sorted before '{s.name}' but {okey(prev.name)} > {okey(s.name)}", inp)
                if col.full:
                    return
            prev = s


def family(prefix, n_max, pad=0, unloc_every=7, sep="_unloc_"):
    """expected order, written out explicitly: chromosome n, its unlocs by number, chromosome n+1, ..."""
    exp = []
    for n in range(0, n_max + 1):
        chrom = f"{prefix}{n:0{pad}d}" if pad else f"{prefix}{n}"
        exp.append(chrom)
        if n % unloc_every in (1, 2) or n in (9, 10, 99, 100):
            n_unloc = 12 if n == 2 else 2
            exp.extend(f"{chrom}{sep}{m}" for m in range(1, n_unloc + 1))
    return exp


PREFIXES = ["SUPER_", "chr", "scaffold_", "Scaffold-", "ctg.", "H1.SUPER_", "RL_", "", "PRI_", "HAP2_VI_", "XIIII_S", "SUPER_Z", "v1.2_c"]


def check_family(exp, rng, col, inp, shuffles=3):
    for k in range(shuffles):
        order = list(exp)
        if k == 0:
            order.reverse()
        else:
            rng.shuffle(order)
        for fn in ("name", "smart"):
            col.evaluations += 1
            try:
                if fn == "name":
                    _, out = sort_by_name(order)
                else:
                    _, out = smart_sort(order, [1] * len(order))
            except Exception as e:
                col.fail(f"sorting the family {exp[:3]}.. ({len(exp)} names) raised {type(e).__name__}: {e}", inp)
                return
            got = [s.name for s in out]
            if got != exp:
                k = next(i for i, (g, w) in enumerate(zip(got, exp)) if g != w)
                col.fail(f"family order wrong at position {k}: got {got[max(0, k - 1): k + 3]}, expected {exp[max(0, k - 1): k + 3]}", inp)
                return


# ---------------------------------------------------------------------------------------------
# attributes: everything a Scaffold carries besides name and rank

ATTR_POOLS = {
    "haplotype": [None, "HAP1", "HAP2", "", "hap10"],
    "tag": [None, "Painted", "Haplotig", "Unloc", "Contaminant"],
    "original_name": [None, "Scaffold_10", "Scaffold_2", "zz", "1"],
    "original_tags": [None, ["Painted"], ["Haplotig", "Painted"], [], ["Unloc", "Painted", "HAP2"]],
    "rows": [[], [["ctg_9", 5000, 1]], [["ctg_1", 100, -1], ["ctg_2", 50, 1]], [["a", 1, 1]], [["zz", 10**9, -1], ["zz", 7, 1], ["b", 7, 1]]],
}
ATTR_NAME_SETS = [
    (["SUPER_1", "SUPER_2", "SUPER_10"], [1, 1, 1]),
    (["SUPER_2", "SUPER_2_unloc_1", "SUPER_3"], [1, 1, 1]),
    (["H_1", "H_2", "H_11"], [3, 3, 3]),
    (["I", "II", "IV"], None),
    (["SUPER_10", "SUPER_9", "scaffold_1"], [1, 1, 2]),
    (["SUPER_1", "SUPER_1_unloc_1", "SUPER_2", "SUPER_10"], [1, 1, 1, 1]),
    (["chr9", "chr10", "chrX", "chr09"], [0, 0, 0, 0]),
    (["S2", "S10", "S1", "S1"], [2, 2, 1, 2]),
]


def default_attr():
    return {k: None if k != "rows" else [] for k in ATTR_POOLS}


def attr_assignments(n, quick):
    """one attribute at a time: every assignment of the first 3 pool values (quick, four names: 2; thorough, three names: 4)
    to n scaffolds"""
    for key, pool in ATTR_POOLS.items():
        values = pool[: 2 if quick and n > 3 else 3 if quick or n > 3 else 4]
        for combo in itertools.product(values, repeat=n):
            if len({repr(v) for v in combo}) > 1:
                yield [{key: v} for v in combo]


def random_attr(rng):
    return {key: rng.choice(pool) for key, pool in ATTR_POOLS.items()}


def cycled_attr(i, k):
    """all five attributes, each cycling through its pool with its own period (2..5, shifted by k)"""
    out = {}
    for j, (key, pool) in enumerate(ATTR_POOLS.items()):
        period = 2 + (j + k) % 4
        out[key] = pool[(i + k) % period]
    return out


def check_family_attrs(prefix, n_max, k, rng, col, inp):
    """a family in its written-out order, the scaffolds at consecutive positions of it carrying cycling attribute values"""
    exp = family(prefix, n_max)
    attr_of = {nm: cycled_attr(i, k) for i, nm in enumerate(exp)}
    for shuffle in range(3):
        order = list(exp)
        if shuffle == 0:
            order.reverse()
        else:
            rng.shuffle(order)
        attrs = [attr_of[nm] for nm in order]
        for fn in ("name", "smart"):
            col.evaluations += 1
            try:
                _, out = sort_by_name(order, attrs) if fn == "name" else smart_sort(order, [1] * len(order), attrs)
            except Exception as e:
                col.fail(f"sorting the family {exp[:3]}.. ({len(exp)} names, scaffolds carrying attributes) raised {type(e).__name__}: {e}", inp)
                return
            got = [s.name for s in out]
            if got != exp:
                at = next(i for i, (g, w) in enumerate(zip(got, exp)) if g != w)
                worn = {nm: {a: v for a, v in attr_of[nm].items() if v not in (None, [])} for nm in got[max(0, at - 1): at + 3]}
                col.fail(
                    f"{'scaffolds_sorted_by_name' if fn == 'name' else 'smart_sort_scaffolds (equal ranks)'}: family order wrong at position {at}: got "
                    f"{got[max(0, at - 1): at + 3]}, expected {exp[max(0, at - 1): at + 3]}; the scaffolds differ in attributes other than name and rank, "
                    f"which must not count: {worn}",
                    inp,
                )
                return


NEMATODE = ["I", "II", "III", "IV", "V", "X"]


def check_nematode(prefix, suffix, rng, col):
    inp = {"kind": "nematode", "prefix": prefix, "suffix": suffix}
    chroms = [prefix + c + suffix for c in NEMATODE]
    unl = {c: [f"{c}_unloc_{m}" for m in (1, 2, 10)] for c in chroms}
    names = chroms + [u for v in unl.values() for u in v]
    for k in range(4):
        order = list(names)
        if k == 0:
            order.reverse()
        else:
            rng.shuffle(order)
        col.evaluations += 1
        try:
            _, out = sort_by_name(order)
        except Exception as e:
            col.fail(f"sorting nematode names {chroms} raised {type(e).__name__}: {e}", inp)
            return
        got = [s.name for s in out]
        # I, II, III, IV by value
        sub = [g for g in got if g in chroms[:4]]
        if sub != chroms[:4]:
            col.fail(f"numerals not by value: {sub}", inp)
            return
        # each unloc directly after its own chromosome, unlocs by number
        for c in chroms:
            i = got.index(c)
            if got[i + 1 : i + 4] != unl[c]:
                col.fail(f"unlocs of {c} not directly after it: {got[i: i + 5]}", inp)
                return


# ---------------------------------------------------------------------------------------------
# history: the same objects sorted, renamed in place, sorted again
#
# input {"kind": "history", "stages": [stage, ...]}; object j is the same Scaffold in every stage
#   {"names": [...], "ranks": [...]}   name and rank assigned to each object (the first stage creates them)
#   {"by_size": [length, ...]}          each object gets one contig of that length, then
#                                       ScaffoldNamer.rename_by_size hands the names out largest first
#   {"chr_prefix": "SUPER_"}            ChrNamer(prefix).add_chr_prefix on every object
#   {"attrs": [attr, ...]}              haplotype / tag / original_name / original_tags / rows assigned in place


def fresh_like(scaffolds):
    return [Scaffold(s.name, rank=s.rank) for s in scaffolds]


def enter_stage(objs, stage):
    if "names" in stage:
        if not objs:
            objs.extend(Scaffold(nm, rank=rk) for nm, rk in zip(stage["names"], stage["ranks"]))
        for o, nm, rk in zip(objs, stage["names"], stage["ranks"]):
            o.name = nm
            o.rank = rk
    elif "attrs" in stage:
        for o, a in zip(objs, stage["attrs"]):
            dress(o, a)
    elif "by_size" in stage:
        from tola.assembly.build_utils import ScaffoldNamer

        for j, (o, ln) in enumerate(zip(objs, stage["by_size"])):
            o.rows = [Fragment(f"ctg{j}", 1, ln, 1)]
        ScaffoldNamer().rename_by_size(list(objs))
    else:
        from tola.assembly.build_utils import ChrNamer

        namer = ChrNamer(chr_prefix=stage["chr_prefix"])
        for o in objs:
            namer.add_chr_prefix(o)


def check_history(stages, col, inp):
    objs = []
    asm_a = asm_b = None
    before = None
    for si, stage in enumerate(stages):
        enter_stage(objs, stage)
        if asm_a is None:
            asm_a = Assembly("a", scaffolds=list(objs))
            asm_b = Assembly("b", scaffolds=list(reversed(objs)))
        now = [(o.name, o.rank) for o in objs]
        where = f"stage {si}: scaffolds {now}" + (f", the same objects that went through name_natural_key and both sorts as {before}" if before else "")
        if "attrs" in stage:
            where += f"; attributes other than name and rank assigned in place, which must not count: {brief(stage['attrs'])}"
        col.evaluations += 3
        try:
            keys = [Assembly.name_natural_key(o) for o in objs]
            new_keys = [Assembly.name_natural_key(o) for o in fresh_like(objs)]
        except Exception as e:
            col.fail(f"name_natural_key raised {type(e).__name__}: {e} at {where}", inp)
            return
        for o, k, nk in zip(objs, keys, new_keys):
            if k != nk:
                col.fail(f"name_natural_key of the scaffold now named '{o.name}' is {k!r}, a new scaffold of that name gives {nk!r}; {where}", inp)
                return
        for what, asm in (("scaffolds_sorted_by_name", asm_a), ("smart_sort_scaffolds", asm_b), ("smart_sort_scaffolds", asm_a)):
            given = list(asm.scaffolds)
            new_asm = Assembly("n", scaffolds=fresh_like(given))
            try:
                if what == "smart_sort_scaffolds":
                    if asm is asm_a and si % 2 == 0:
                        continue  # the first assembly keeps its order in every other stage
                    asm.smart_sort_scaffolds()
                    new_asm.smart_sort_scaffolds()
                    out, new_out = list(asm.scaffolds), list(new_asm.scaffolds)
                else:
                    out, new_out = asm.scaffolds_sorted_by_name(), new_asm.scaffolds_sorted_by_name()
            except Exception as e:
                col.fail(f"{what} raised {type(e).__name__}: {e} at {where}", inp)
                return
            msg = judge(given, out, what)
            if msg:
                col.fail(f"{msg} for initial order {[s.name for s in given]}; {where}", inp)
                return
            if [(s.rank, okey(s.name)) for s in out] != [(s.rank, okey(s.name)) for s in new_out]:
                col.fail(
                    f"{what} gives {[s.name for s in out]} but new scaffolds with the same names, ranks and initial order "
                    f"come out as {[s.name for s in new_out]}; {where}",
                    inp,
                )
                return
        before = now


HISTORY_SETS = [
    ["scaffold_1", "scaffold_2", "scaffold_10"],
    ["H_1", "H_2", "H_3"],
    ["SUPER_2", "SUPER_10", "SUPER_B1"],
    ["SUPER_1", "SUPER_1_unloc_1", "SUPER_2"],
    ["I", "II", "IV"],
    ["S01", "S1", "S2"],
    ["chrIII", "chrV", "chrX"],
    ["9", "10", "x"],
]


def history_cases(quick, rng, names):
    """stage lists"""
    # every reassignment of a 3-name set to its objects, and back; ranks unchanged, then ranks permuted too
    for base in HISTORY_SETS:
        for perm in itertools.permutations(range(3)):
            if perm == (0, 1, 2):
                continue
            moved = [base[i] for i in perm]
            yield [{"names": base, "ranks": [0, 0, 0]}, {"names": moved, "ranks": [0, 0, 0]}, {"names": base, "ranks": [0, 0, 0]}]
            yield [{"names": base, "ranks": [1, 2, 3]}, {"names": base, "ranks": [[1, 2, 3][i] for i in perm]}, {"names": moved, "ranks": [2, 2, 1]}]
    # the package's own renamers
    yield [{"names": ["H_1", "H_2", "H_3"], "ranks": [3, 3, 3]}, {"by_size": [1000, 3000, 2000]}, {"by_size": [5, 4, 6]}]
    yield [{"names": ["SUPER_1_unloc_1", "SUPER_1_unloc_2", "SUPER_1_unloc_10", "SUPER_1"], "ranks": [1, 1, 1, 1]}, {"by_size": [10, 20, 30, 40]}]
    yield [{"names": ["B1", "SUPER_2", "SUPER_10"], "ranks": [2, 2, 2]}, {"chr_prefix": "SUPER_"}, {"chr_prefix": "chr"}]
    yield [{"names": ["X", "W", "2", "10", "B2"], "ranks": [2, 2, 1, 1, 2]}, {"chr_prefix": "SUPER_"}]
    # new names altogether: numbers given out again in another order, prefixes added, numerals for digits
    yield [{"names": [f"scaffold_{n}" for n in (1, 2, 3)], "ranks": [0] * 3}, {"names": [f"scaffold_{n}" for n in (30, 20, 10)], "ranks": [0] * 3}]
    yield [{"names": ["1", "2", "3", "4"], "ranks": [1] * 4}, {"names": ["IV", "III", "II", "I"], "ranks": [1] * 4}, {"names": ["chr4", "chr03", "chr20", "chr1"], "ranks": [1] * 4}]
    # attributes assigned in place between two sorts, names and ranks as they were; then taken away again
    for k, (base, ranks) in enumerate(ATTR_NAME_SETS):
        n = len(base)
        ranks = ranks or [0] * n
        first = {"names": base[::-1] if k % 2 else base, "ranks": ranks[::-1] if k % 2 else ranks}
        yield [first, {"attrs": [cycled_attr(n - i, k) for i in range(n)]}, {"attrs": [default_attr() for _ in range(n)]}]
        yield [first, {"attrs": [cycled_attr(i, k + 1) for i in range(n)]}, {"attrs": [cycled_attr(i + 1, k + 2) for i in range(n)]}, {"chr_prefix": "SUPER_"}]
    pool = INTERESTING + names[:600]
    for _ in range(60 if quick else 1500):
        n = rng.randint(2, 6)
        stages = [{"names": [rng.choice(pool) for _ in range(n)], "ranks": [rng.choice((0, 1, 1, 2)) for _ in range(n)]}]
        for _ in range(rng.randint(1, 3)):
            prev = stages[-1]
            nm, rk = list(prev["names"]), list(prev["ranks"])
            how = rng.randrange(4)
            if how == 0:  # the same names dealt out again
                rng.shuffle(nm)
            elif how == 1:  # some scaffolds get another name
                for j in rng.sample(range(n), rng.randint(1, n)):
                    nm[j] = rng.choice(pool)
            elif how == 2:  # ranks only
                rng.shuffle(rk)
                rk[rng.randrange(n)] = rng.choice((0, 1, 2, 3))
            else:
                nm = [rng.choice(["SUPER_", "chr", "x"]) + x for x in nm]
            stages.append({"names": nm, "ranks": rk})
        yield stages


LONG_NUMBERS = [10**15 - 2, 2**53 - 2, 2**53, 10**16, 20240101123456781, 2**63 - 1, 2**64, 10**22 + 7, 10**39, 10**309]


def long_number_sets(rng, quick):
    """
    (names, ranks): embedded decimal numbers compare by value however many digits they have - consecutive
    numbers of 15 to 310 digits behind several stems, with unlocs of the first one, a zero-padded twin, and
    numbers that differ in the leading digit or in the number of digits
    """
    numbers = LONG_NUMBERS + [rng.randrange(10**15, 10**26) for _ in range(5 if quick else 150)]
    stems = ["ctg_", "SUPER_", "", "x.", "H2-"]
    for k, n in enumerate(numbers):
        for stem in stems[: 3 if quick else 5] if k < len(LONG_NUMBERS) else [stems[k % 5]]:
            a, b, c = (f"{stem}{m}" for m in (n, n + 1, n + 2))
            yield [c, b, a], None
            yield [b, a + "_unloc_2", a, a + "_unloc_1"], [1, 1, 1, 1]
            yield [c, f"{stem}00{n + 1}", a, b], [2, 0, 2, 2] if k % 2 else None
            # the leading digits count: one more in the first digit and one less at the end; one digit fewer
            yield [f"{stem}{n + 10 ** (len(str(n)) - 1) - 1}", a, f"{stem}{n // 10}"], None


# ---------------------------------------------------------------------------------------------
# long names: the k-th number of a name counts like the first

ROMAN = ["I", "II", "III", "IV"]
TAIL_SETS = [
    ["2", "9", "10", "100"],
    ["10", "2", "1", "02", "20"],
    ["2", "2_unloc_1", "2_unloc_2", "2_unloc_10", "3"],
    ["IV", "5", "II", "10", "I"],
    ["9.z", "10.a", "9.a2", "9.a10"],
    ["7", "7_unloc_9", "7_unloc_10", "8", "10_unloc_1"],
    ["III", "IV", "II_unloc_2", "II_unloc_10", "I"],
]


def long_prefix(spec):
    k, lead, stem, sep = spec["k"], spec["lead"], spec["stem"], spec["sep"]
    parts = []
    for j in range(1, k):
        if lead == "count":
            num = str(j)
        elif lead == "same":
            num = "7"
        elif lead == "roman":
            num = ROMAN[j % 4]
        else:
            num = ROMAN[j % 4] if j % 3 == 0 else str(j % 50)
        parts.append(stem + num + sep)
    return "q" * spec.get("pad", 0) + "".join(parts) + stem


def long_names(spec):
    prefix = long_prefix(spec)
    return [prefix + t for t in spec["tails"]]


def some_orders(n, all_of_them):
    if all_of_them:
        yield from itertools.permutations(range(n))
        return
    ident = list(range(n))
    yield tuple(reversed(ident))
    yield tuple(ident)
    for r in (1, 2):
        yield tuple(ident[r:] + ident[:r])
        yield tuple(reversed(ident[r:] + ident[:r]))
    yield tuple(ident[::2] + ident[1::2])


def check_long(spec, ranks, col, inp):
    """names equal up to their k-th number: every initial order (the longest names: 7 orders), both entry points"""
    names = long_names(spec)
    n, k = len(names), spec["k"]
    plen = len(names[0]) - len(spec["tails"][0])
    keys = [okey(nm) for nm in names]
    # dense oracle position of each name (names with equal keys share one)
    order = sorted(range(n), key=lambda i: _CmpKey(keys[i]))
    pos = [0] * n
    for a, b in zip(order, order[1:]):
        pos[b] = pos[a] + (1 if ocmp(keys[a], keys[b]) else 0)
    where = (
        f"names of {len(names[0])}..{max(map(len, names))} characters that share their first {plen} characters (= {k - 1} numbers"
        + (f" behind {spec['pad']} letters" if spec.get("pad") else "")
        + f", '{names[0][:24]}...{names[0][max(24, plen - 16):plen]}') and end in {spec['tails']}: the {k}{'st' if k % 10 == 1 and k % 100 != 11 else 'th'} "
        "number of a name compares by value like the first"
    )
    tail_of = dict(enumerate(spec["tails"]))
    first = None
    n_orders = 1
    for j in range(2, n + 1):
        n_orders *= j
    for perm in some_orders(n, len(names[0]) * n_orders <= 60000):
        nm = [names[i] for i in perm]
        for fn in ("scaffolds_sorted_by_name", "smart_sort_scaffolds"):
            rk = [ranks[i] for i in perm] if (ranks and fn.startswith("smart")) else [0] * n
            col.evaluations += 1
            try:
                given, out = sort_by_name(nm) if fn.startswith("scaffolds") else smart_sort(nm, rk)
            except Exception as e:
                col.fail(f"{fn} raised {type(e).__name__}: {str(e)[:200]} for tails in the initial order {[spec['tails'][i] for i in perm]}; {where}", inp)
                return
            idx_of = {id(sc): i for sc, i in zip(given, perm)}
            if sorted(map(id, given)) != sorted(map(id, out)):
                col.fail(f"{fn}: output is not a rearrangement of the input scaffolds; {where}", inp)
                return
            got = [idx_of[id(sc)] for sc in out]
            for a, b in zip(got, got[1:]):
                ra, rb = (rk[perm.index(a)], rk[perm.index(b)])
                if ra != rb:
                    if ra > rb:
                        col.fail(f"{fn}: '...{tail_of[a]}' (rank {ra}) placed before '...{tail_of[b]}' (rank {rb}); {where}", inp)
                        return
                    continue
                if pos[a] > pos[b]:
                    col.fail(
                        f"{fn}: '...{tail_of[a]}' placed before '...{tail_of[b]}' (oracle keys end {keys[a][-4:]} > {keys[b][-4:]}), "
                        f"tails in the initial order {[spec['tails'][i] for i in perm]}" + (f" ranks {rk}" if any(rk) else "") + f"; {where}",
                        inp,
                    )
                    return
            res = [(rk[perm.index(i)], pos[i]) for i in got]
            if fn.startswith("scaffolds"):
                if first is None:
                    first = res
                elif res != first:
                    col.fail(f"{fn}: the order depends on the initial order; {where}", inp)
                    return


class _CmpKey:
    """sort key from ocmp"""

    __slots__ = ("k",)

    def __init__(self, k):
        self.k = k

    def __lt__(self, other):
        return ocmp(self.k, other.k) < 0


def long_specs(quick, rng):
    """(spec, ranks)"""
    if quick:
        ladder = [1, 2, 100, 255, 256, 257, 258, 300, 600, 2500]
    else:
        ladder = sorted({1, 2, 3, 17, 100, 300, 1000, 3000, 20000} | {2**e + d for e in range(3, 15) for d in (-1, 0, 1, 2)} | {rng.randrange(2, 6000) for _ in range(20)})
    stems = [("ctg", "."), ("", "."), ("SUPER_", "_"), ("s", "-"), ("H", "_x")]
    leads = ["count", "same", "roman", "mixed"]
    n = 0
    for k in ladder:
        for ti, tails in enumerate(TAIL_SETS[:2] if quick else TAIL_SETS):
            if quick and ti == 1 and k not in (257, 600):
                continue
            if not quick and ((k > 2100 and (ti + k) % 3) or (300 < k <= 2100 and (ti + k) % 2)):  # long names: every second tail set, the longest: every third
                continue
            n += 1
            stem, sep = stems[n % len(stems)] if not quick else stems[(n // 3) % 2]
            lead = leads[n % 4] if not (quick and k == 257) else "count"
            if k > 5000:
                tails = tails[:4]
            ranks = [1, 1, 0, 1, 1][: len(tails)] if n % 4 == 0 else None
            yield {"pad": 0, "stem": stem, "sep": sep, "k": k, "lead": lead, "tails": tails}, ranks
    # one number behind a long run of text (and behind text + numbers)
    for pad in (300, 5000) if quick else (250, 255, 256, 257, 511, 512, 513, 1000, 1024, 4096, 10000, 65536, 100000):
        yield {"pad": pad, "stem": "_", "sep": ".", "k": 1, "lead": "count", "tails": TAIL_SETS[0]}, None
        if not quick and pad <= 4096:
            yield {"pad": pad, "stem": "c", "sep": "_", "k": 40, "lead": "mixed", "tails": TAIL_SETS[2]}, None


def check_long_list(k, n_names, seed, col, inp):
    """many long names in one assembly: numbers 1..n_names as the k-th number, one shuffled initial order"""
    rng = random.Random(seed)
    spec = {"pad": 0, "stem": "ctg", "sep": ".", "k": k, "lead": "count", "tails": [str(m) for m in range(1, n_names + 1)]}
    names = long_names(spec)
    order = list(range(n_names))
    rng.shuffle(order)
    for fn in ("scaffolds_sorted_by_name", "smart_sort_scaffolds"):
        col.evaluations += 1
        try:
            given, out = sort_by_name([names[i] for i in order]) if fn.startswith("scaffolds") else smart_sort([names[i] for i in order], [2] * n_names)
        except Exception as e:
            col.fail(f"{fn} raised {type(e).__name__}: {str(e)[:200]} on {n_names} names of {k} numbers each", inp)
            return
        idx_of = {id(sc): i for sc, i in zip(given, order)}
        got = [idx_of.get(id(sc)) for sc in out]
        if got != list(range(n_names)):
            at = next(i for i, g in enumerate(got) if g != i)
            col.fail(
                f"{fn}: {n_names} names 'ctg1.ctg2. ... .ctg{k - 1}.ctg<m>', m = 1..{n_names} (equal up to their {k}th number): after sorting, the last "
                f"numbers run {[None if g is None else g + 1 for g in got[max(0, at - 1): at + 4]]} from position {at}, expected {list(range(max(1, at), at + 5))}",
                inp,
            )
            return


# ---------------------------------------------------------------------------------------------
# very long digit runs

KNOWN_DIGIT_RUN = "c20-digit-run-over-int-limit"


def longest_digit_run(name):
    best = run = 0
    for ch in name:
        run = run + 1 if "0" <= ch <= "9" else 0
        if run > best:
            best = run
    return best


def digit_names(inp):
    """[the name with the run, its twin (differs in the last digit of the run), *ordinary names]"""
    n, lead = inp["digits"], inp.get("lead", "1")
    run = lead * n
    twin = run[:-1] + ("3" if lead != "3" else "4")  # the same number of digits, another last digit
    shape = {"start": "{}_ctg", "middle": "SUPER_{}_unloc_2", "end": "ctg_{}"}[inp["where"]]
    return [shape.format(run), shape.format(twin), *inp["others"]]


def short(name):
    return name if len(name) <= 40 else f"{name[:14]}...({longest_digit_run(name)} digits)...{name[-12:]}"


def check_digits(inp, col):
    names = digit_names(inp)
    n = len(names)
    ranks = inp.get("ranks")
    limit = sys.get_int_max_str_digits() if hasattr(sys, "get_int_max_str_digits") else 0
    over = limit > 0 and any(longest_digit_run(nm) > limit for nm in names)
    keys = [okey(nm) for nm in names]
    order = sorted(range(n), key=lambda i: _CmpKey(keys[i]))
    pos = [0] * n
    for a, b in zip(order, order[1:]):
        pos[b] = pos[a] + (1 if ocmp(keys[a], keys[b]) else 0)
    where = f"names {[short(nm) for nm in names]}: a run of {inp['digits']} digits at the {inp['where']} of a name, and its twin"
    for fn in ("scaffolds_sorted_by_name", "smart_sort_scaffolds"):
        for perm in itertools.permutations(range(n)) if n <= 4 else some_orders(n, False):
            nm = [names[i] for i in perm]
            rk = [ranks[i] for i in perm] if (ranks and fn.startswith("smart")) else [0] * n
            col.evaluations += 1
            try:
                given, out = sort_by_name(nm) if fn.startswith("scaffolds") else smart_sort(nm, rk)
            except Exception as e:
                known = over and isinstance(e, ValueError)
                col.fail(
                    f"{fn} raised {type(e).__name__}: {str(e)[:160]} for {where}"
                    + (f" (more digits than sys.get_int_max_str_digits() = {limit})" if over else ""),
                    inp,
                    [KNOWN_DIGIT_RUN] if known else [],
                )
                break
            if sorted(map(id, given)) != sorted(map(id, out)):
                col.fail(f"{fn}: output is not a rearrangement of the input scaffolds; {where}", inp)
                break
            idx_of = {id(sc): i for sc, i in zip(given, perm)}
            got = [idx_of[id(sc)] for sc in out]
            bad = None
            for a, b in zip(got, got[1:]):
                ra, rb = rk[perm.index(a)], rk[perm.index(b)]
                if ra != rb:
                    if ra > rb:
                        bad = f"'{short(names[a])}' (rank {ra}) placed before '{short(names[b])}' (rank {rb})"
                        break
                    continue
                if pos[a] > pos[b]:
                    bad = f"'{short(names[a])}' placed before '{short(names[b])}' although its key is larger by value"
                    break
            if bad:
                col.fail(f"{fn}: {bad}, initial order {[short(x) for x in nm]}" + (f" ranks {rk}" if any(rk) else "") + f"; {where}", inp)
                break


def digit_cases(quick):
    others = ["ctg_2", "ctg_10"]
    if quick:
        yield {"kind": "digits", "digits": 4300, "where": "end", "lead": "1", "others": others, "ranks": None}
        yield {"kind": "digits", "digits": 4301, "where": "end", "lead": "1", "others": others, "ranks": None}
        return
    pools = [others, ["SUPER_2", "SUPER_10_unloc_1", "1_ctg"], ["9", "x"]]
    k = 0
    for digits, wheres in ((4299, ("end",)), (4300, ("start", "middle", "end")), (4301, ("end", "middle")), (5000, ("start",)), (10000, ("middle", "end"))):
        for where in wheres:
            k += 1
            pool = pools[k % 3]
            ranks = [1, 1, 0, 1, 1][: 2 + len(pool)] if k % 2 else None
            yield {"kind": "digits", "digits": digits, "where": where, "lead": "19"[k % 2], "others": pool, "ranks": ranks}


# ---------------------------------------------------------------------------------------------
# scaffolds built without a rank, mixed with scaffolds that were given one

UNRANKED_HOWS = ["ctor", "rows", "agp", "tpf", "reverse"]
HOW_TEXT = {
    "ctor": "Scaffold(name)", "rows": "Scaffold(name, rows=[...])", "agp": "parse_agp output", "tpf": "parse_tpf output",
    "reverse": "Scaffold(name, rows=[...]).reverse()",
}


def make_scaffold(name, how):
    """a scaffold of this name built in the way `how` says (see the module docstring)"""
    if isinstance(how, int) and not isinstance(how, bool):
        return Scaffold(name, rank=how)
    if how == "ctor":
        return Scaffold(name)
    if how == "rows":
        return Scaffold(name, rows=[Fragment("ctg_1", 1, 100, 1)])
    if how == "reverse":
        return Scaffold(name, rows=[Fragment("ctg_1", 1, 100, 1), Fragment("ctg_2", 5, 50, -1)]).reverse()
    if how == "agp":
        asm = parse_agp(io.StringIO(f"{name}\t1\t100\t1\tW\tctg_1\t1\t100\t+\n{name}\t101\t300\t2\tU\t200\tscaffold\tyes\tproximity_ligation\n"), "parsed")
    elif how == "tpf":
        asm = parse_tpf(io.StringIO(f"?\tctg_1:1-100\t{name}\tPLUS\nGAP\tTYPE-2\t200\n"), "parsed")
    else:
        raise ValueError(f"unknown way of building a scaffold: {how!r}")
    (sc,) = asm.scaffolds
    return sc


def describe_made(names, made):
    return "[" + ", ".join(f"'{nm}': " + (f"rank={h} given" if isinstance(h, int) else f"no rank given ({HOW_TEXT[h]})") for nm, h in zip(names, made)) + "]"


def rank_places(ranks):
    """every place the no-rank class can take among these ranks: before all, level with each, between neighbours, after all"""
    rs = sorted(set(ranks))
    if not rs:
        return [0]
    out = [rs[0] - 1]
    for a, b in zip(rs, rs[1:] + [rs[-1] + 2]):
        out += [a, (a + b) / 2]
    return out


def judge_mixed(given, hows, out, by_rank):
    """given[i] was built as hows[i] says; out is what the sort made of them -> (message | None, the order as comparable data)"""
    if sorted(map(id, given)) != sorted(map(id, out)):
        return "output is not a rearrangement of the input scaffolds", None
    how_of = {id(sc): h for sc, h in zip(given, hows)}
    seq = [(how_of[id(sc)] if isinstance(how_of[id(sc)], int) else None, sc.name) for sc in out]
    if not by_rank:
        for (_, a), (_, b) in zip(seq, seq[1:]):
            if ocmp(okey(a), okey(b)) > 0:
                return f"'{a}' placed before '{b}' ({okey(a)} > {okey(b)})", None
        return None, [tuple(okey(nm)) for _, nm in seq]
    # those with a rank among themselves, those without among themselves
    for label, part in (("with a rank", [x for x in seq if x[0] is not None]), ("without a rank", [x for x in seq if x[0] is None])):
        for (ra, a), (rb, b) in zip(part, part[1:]):
            if ra is not None and ra != rb:
                if ra > rb:
                    return f"'{a}' (rank {ra}) placed before '{b}' (rank {rb})", None
            elif ocmp(okey(a), okey(b)) > 0:
                return f"among the scaffolds {label}{'' if ra is None else f' {ra}'}: '{a}' placed before '{b}' ({okey(a)} > {okey(b)})", None
    # and together: one place for the no-rank class; the order is returned as it reads under every place that fits (scaffolds
    # with equal rank and equal key may stand in any order: "up to names with equal keys")
    places = rank_places([r for r, _ in seq if r is not None])
    fits = {}
    for place in places:
        eff = [(place if r is None else r, nm) for r, nm in seq]
        if all(x[0] < y[0] or (x[0] == y[0] and ocmp(okey(x[1]), okey(y[1])) <= 0) for x, y in zip(eff, eff[1:])):
            fits[place] = [(r, tuple(okey(nm))) for r, nm in eff]
    if fits:
        return None, fits
    shown = [nm if r is None else f"{nm} (rank {r})" for r, nm in seq]
    return f"the output {shown} is not in (rank, name) order wherever the scaffolds without a rank are ranked (tried {places})", None


def check_mixed(names, made, col, inp=None, all_orders=True):
    """both entry points, every initial order (<= 5 names; else the given order, reversed and two rotations)"""
    inp = inp or {"kind": "mixed", "names": list(names), "made": list(made)}
    n = len(names)
    what = f"scaffolds {describe_made(names, made)}"
    orders = itertools.permutations(range(n)) if (all_orders and n <= 5) else some_orders(n, False)
    first = {}
    for perm in orders:
        nm = [names[i] for i in perm]
        hw = [made[i] for i in perm]
        for fn in ("scaffolds_sorted_by_name", "smart_sort_scaffolds"):
            col.evaluations += 1
            try:
                given = [make_scaffold(a, h) for a, h in zip(nm, hw)]
            except Exception as e:
                col.fail(f"building the scaffolds raised {type(e).__name__}: {e}; {what}", inp)
                return
            asm = Assembly("a", scaffolds=list(given))
            try:
                if fn.startswith("smart"):
                    asm.smart_sort_scaffolds()
                    out = list(asm.scaffolds)
                else:
                    out = asm.scaffolds_sorted_by_name()
            except Exception as e:
                col.fail(
                    f"{fn} raised {type(e).__name__}: {str(e)[:200]} for {what} in the initial order {nm}: sorting has to succeed for every set of "
                    "scaffolds, whether they were built with a rank, without one, or some with and some without",
                    inp,
                )
                return
            msg, order = judge_mixed(given, hw, out, fn.startswith("smart"))
            if msg:
                col.fail(f"{fn}: {msg}; {what}, initial order {nm}", inp)
                return
            if fn not in first:
                first[fn] = order
            elif isinstance(order, dict):
                # one place of the no-rank class has to fit every initial order, and give the same order each time
                first[fn] = {pl: sq for pl, sq in first[fn].items() if order.get(pl) == sq}
                if not first[fn]:
                    col.fail(f"{fn}: the order depends on the initial order (no one place of the scaffolds without a rank among the ranks gives the order of every run); {what}, initial order {nm}", inp)
                    return
            elif order != first[fn]:
                col.fail(f"{fn}: the order depends on the initial order; {what}", inp)
                return


MIXED_SETS = [
    (["scaffold_10", "scaffold_2", "SUPER_2", "SUPER_10", "SUPER_X"], ["ctor", "ctor", 1, 1, 2]),
    (["scaffold_3", "scaffold_1", "SUPER_1"], ["agp", "agp", 1]),
    (["scaffold_3", "scaffold_1", "SUPER_1", "unplaced_7"], ["tpf", "tpf", 1, 3]),
    (["SUPER_1", "SUPER_2", "SUPER_2_unloc_1", "SUPER_3"], [1, "reverse", 1, 1]),
    (["a", "b", "c"], ["ctor", 0, "ctor"]),
    (["S2", "S10", "S1", "S1"], [0, "ctor", 0, "rows"]),
    (["I", "II", "IV", "III"], ["ctor", 3, 2, "agp"]),
    (["chr9", "chr10", "chrX", "chr09", "chr1"], ["agp", "tpf", "ctor", "reverse", 2]),
    (["x", "x"], ["ctor", 1]),
    (["b", "a"], ["ctor", "agp"]),
    (["H_1", "H_2", "H_11", "H_3"], ["rows", 3, 3, 0]),
    (["SUPER_1", "SUPER_1", "SUPER_01"], [1, "ctor", 0]),
]


def mixed_cases(quick, rng, names):
    """(names, made)"""
    yield from MIXED_SETS
    # every way of building without a rank against every rank, two names in both name orders
    for how in UNRANKED_HOWS:
        for rank in (0, 1, 2, 3):
            yield ["SUPER_2", "SUPER_10"], [how, rank]
            yield ["SUPER_2", "SUPER_10"], [rank, how]
    pool = INTERESTING + PREFIXED + names[:600]
    for k in range(60 if quick else 3000):
        n = rng.randint(2, 4 if quick else 5)
        chosen = [rng.choice(pool) for _ in range(n)]
        if n > 2 and rng.random() < 0.3:
            chosen[-1] = chosen[0]
        made = [rng.choice(UNRANKED_HOWS) if rng.random() < 0.5 else rng.choice((0, 1, 1, 2, 3)) for _ in range(n)]
        if k % 4 == 0:  # at least one of each kind
            made[0], made[1] = rng.choice(UNRANKED_HOWS), rng.choice((0, 1, 2, 3))
        yield chosen, made
    for k in range(10 if quick else 300):  # longer lists, a few initial orders
        n = rng.randint(6, 30)
        yield [rng.choice(pool) for _ in range(n)], [rng.choice(UNRANKED_HOWS) if rng.random() < 0.4 else rng.choice((0, 1, 2, 3)) for _ in range(n)]


def replay(inp):
    col = Collector("replay")
    rng = random.Random(0)
    if inp["kind"] == "mixed":
        check_mixed(inp["names"], inp["made"], col, inp)
    elif inp["kind"] == "digits":
        check_digits(inp, col)
    elif inp["kind"] == "long":
        check_long(inp["spec"], inp.get("ranks"), col, inp)
    elif inp["kind"] == "long-list":
        check_long_list(inp["k"], inp["n_names"], inp["seed"], col, inp)
    elif inp["kind"] == "set":
        names = inp["names"]
        if len(names) <= 5:
            check_set(names, inp.get("ranks"), col)
        else:
            check_sort(names, inp.get("ranks"), col, inp)
    elif inp["kind"] == "attrs":
        names = inp["names"]
        if len(names) <= 5:
            check_set(names, inp.get("ranks"), col, attrs=inp["attrs"])
        else:
            check_sort(names, inp.get("ranks"), col, inp, attrs=inp["attrs"])
    elif inp["kind"] == "family-attrs":
        check_family_attrs(inp["prefix"], inp["n_max"], inp["cycle"], rng, col, inp)
    elif inp["kind"] == "family":
        check_family(family(inp["prefix"], inp["n_max"], inp["pad"], sep=inp["sep"]), rng, col, inp)
    elif inp["kind"] == "nematode":
        check_nematode(inp["prefix"], inp["suffix"], rng, col)
    elif inp["kind"] == "all":
        names = list(all_names(inp["alphabet"], inp["max_len"]))
        check_global(names, rng, col, 2)
    elif inp["kind"] == "history":
        check_history(inp["stages"], col, inp)
    return col.failures[0]["message"] if col.failures else None


PREFIXED = [f"{p}{n}{u}" for p in ("SUPER_", "H_", "chr") for n in (1, 2, 3, 9, 10, 11, 20) for u in ("", "_unloc_1", "_unloc_2", "_unloc_10")]

INTERESTING = [
    "S1", "S01", "S001", "S2", "S10", "S_1", "SI", "SII", "SIII", "SIV", "SV", "SX", "S0", "S00", "S", "I", "1", "II", "2",
    "IIII", "IIV", "IIIV", "VI", "IX", "XI", "IVI", "0", "00", "_", "1S", "S1S", "S1_1", "S1_01", "S1_I", "S1.1", "S1-1",
    "SUPER_2", "SUPER_10", "SUPER_2_unloc_1", "SUPER_02", "SUPER_2_unloc_10", "SUPER_2_unloc_2", "SUPER_3",
]


def run(tier, seed, **opts):
    rng = random.Random(seed)
    quick = tier == "quick"
    max_len = 4 if quick else 5
    pair_len = 3 if quick else 4
    col = Collector(
        f"(1) all names of length <= {max_len} over '{SMALL_ALPHABET}': the real keys are checked for pairwise comparability "
        f"(trie form of the all-pairs test) and the whole list is sorted from several initial orders and compared with the "
        f"oracle order; all pairs of names of length <= {pair_len} are sorted literally; (2) multisets of <= 5 names (incl. "
        "duplicates, zero-padded, zero-valued, I/V/X runs, wide alphabet) under all permutations of the initial order, by name and "
        "by (rank, name); (3) families <prefix><n>[_unloc_<m>] n <= 120 and nematode chromosomes with unlocs; "
        "(4) histories: the same <= 6 Scaffold objects in two assemblies are keyed and sorted, renamed / re-ranked in place "
        "(every reassignment of 3-name sets, ScaffoldNamer.rename_by_size, ChrNamer.add_chr_prefix, random renames), keyed and "
        "sorted again, judged on the current names and against new objects with the same names; (5) consecutive numbers of "
        "15 to 310 digits behind several stems, with unlocs and zero-padded twins, under all permutations; (6) scaffolds that "
        "differ in haplotype / tag / original_name / original_tags / rows as well: every assignment of 3-4 values of one attribute "
        "to the scaffolds of 3-4 name sets x all initial orders, all attributes at random on multisets of <= 5 and lists of <= 30 "
        "names, families with cycling attribute values, attributes assigned in place between sorts (histories): the order is the "
        "oracle's order of (rank, name) and name_natural_key that of a bare scaffold of the name; (7) long names: 4-5 names that "
        "agree in their first k-1 numbers (decimal, I..IV or mixed, behind several stems / separators, or behind up to 100 000 "
        "letters) and differ in the k-th (2 9 10 100, zero-padded twins, unlocs, numerals against decimals), k = 1 .. 2500 (thorough: "
        "around every power of two to 16 384, 20 000), every initial order (longest names: 7 orders), and 30-120 such names in one sort; "
        "(8) a name with a run of 4300 / 4301 (thorough: 4299 .. 10 000) digits at its start, middle or end, its twin and ordinary names, both "
        "entry points, all initial orders (known class c20-digit-run-over-int-limit: ValueError beyond sys.get_int_max_str_digits()); "
        "(9) scaffolds built without a rank (Scaffold(name), with rows, parse_agp / parse_tpf output, reverse()) mixed with scaffolds given rank "
        "0..3: every way of building x every rank, hand-made and random sets of <= 5 under all initial orders, lists of <= 30: no exception, name "
        "order by name, one place for the no-rank class in the (rank, name) order, the same order from every initial order; "
        "non-trivial = distinct name multisets / pairs sorted",
        max_failures=40,  # up to 10 of them are of the known class (very long digit runs, run last)
    )
    # (1) exhaustive small alphabet
    names = list(all_names(SMALL_ALPHABET, max_len))
    bad = trie_scan(names, col)
    col.evaluations += len(names)
    for x, y in bad:
        inp = {"kind": "set", "names": [x, y], "ranks": None}
        check_set([x, y], None, col)
        if not any(f["input"] == inp for f in col.failures):
            col.fail(f"keys of '{x}' and '{y}' are not comparable: {key_of(x)!r} / {key_of(y)!r}", inp)
    if not col.full:
        check_global(names, rng, col, 3)
    col.distinct.update(names)
    short = list(all_names(SMALL_ALPHABET, pair_len))
    stride = 1 if quick else 7  # thorough: every 7th pair of the 11 M (offset by seed), all pairs of length <= 3 anyway
    count = 0
    for i, x in enumerate(short):
        if col.full:
            break
        kx = okey(x)
        for y in short[i:]:
            count += 1
            if stride > 1 and len(x) + len(y) > 6 and (count + seed) % stride:
                continue
            c = ocmp(kx, okey(y))
            order = [y, x] if c <= 0 else [x, y]  # present them in the wrong order
            inp = {"kind": "set", "names": order, "ranks": None}
            col.evaluations += 1
            try:
                _, out = sort_by_name(order)
            except Exception as e:
                col.fail(f"scaffolds_sorted_by_name({order}) raised {type(e).__name__}: {e}", inp)
                continue
            got = [s.name for s in out]
            if c != 0 and got != order[::-1]:
                col.fail(f"scaffolds_sorted_by_name({order}) = {got}; oracle keys {okey(order[1])} < {okey(order[0])}", inp)
            if c == 0:  # equal keys (leading zeros, the same name twice): both entry points must still cope
                try:
                    smart_sort(order, [1, 1])
                except Exception as e:
                    col.fail(f"smart_sort_scaffolds({order}, equal ranks) raised {type(e).__name__}: {e}", dict(inp, ranks=[1, 1]))
            if x == "S2" and y == "S10":
                col.samples.append(inp)
    # (2) permutations of small multisets
    n_sets = 250 if quick else 3000
    for k in range(n_sets):
        if col.full:
            break
        size = rng.randint(2, 5)
        mode = k % 4
        if mode == 0:
            chosen = [rng.choice(INTERESTING) for _ in range(size)]
        elif mode == 1:
            chosen = [rng.choice(names) for _ in range(size)]
        elif mode == 2:
            chosen = ["".join(rng.choice(WIDE_ALPHABET) for _ in range(rng.randint(1, 10))) for _ in range(size)]
        else:
            stem = rng.choice(["S", "SUPER_", "chr", "I", "x.", "a-"])
            chosen = [stem + rng.choice(["0", "00", "1", "01", "001", "2", "10", "I", "II", "III", "IV", "V", "X", "1_unloc_1", "1_unloc_2", "", "_"]) for _ in range(size)]
        if size > 2 and rng.random() < 0.3:
            chosen[-1] = chosen[0]  # duplicate name
        ranks = [rng.choice((0, 1, 1, 2, 3)) for _ in chosen] if k % 2 else None
        check_set(chosen, ranks, col)
        col.distinct.add((tuple(sorted(chosen)), tuple(ranks) if ranks else None))
        if k in (0, 3):
            col.samples.append({"kind": "set", "names": chosen, "ranks": ranks})
    # (3) families and nematode chromosomes
    for prefix in PREFIXES:
        for pad, sep in ((0, "_unloc_"), (3, "_unloc_"), (0, "_UNLOC")):
            if col.full:
                break
            inp = {"kind": "family", "prefix": prefix, "n_max": 120, "pad": pad, "sep": sep}
            exp = family(prefix, 120, pad, sep=sep)
            check_family(exp, rng, col, inp)
            col.distinct.add(("family", prefix, pad, sep))
    for prefix in ("", "chr", "SUPER_", "CHR_", "nx.", "h2-"):
        for suffix in ("", "_1", ".a"):
            if col.full:
                break
            check_nematode(prefix, suffix, rng, col)
            col.distinct.add(("nematode", prefix, suffix))
    # rank precedence, explicit: names in reverse natural order across ranks
    for k in range(40 if quick else 400):
        if col.full:
            break
        nm = [rng.choice(INTERESTING + names[:600]) for _ in range(rng.randint(6, 30))]
        rk = [rng.choice((0, 1, 2, 3)) for _ in nm]
        inp = {"kind": "set", "names": nm, "ranks": rk}
        check_sort(nm, rk, col, inp)
        col.evaluations += 2
        col.distinct.add((tuple(nm), tuple(rk)))
    # (6) attributes other than name and rank
    n_attr = 0
    for k, (base, ranks) in enumerate(ATTR_NAME_SETS):
        for attrs in attr_assignments(len(base), quick):
            if col.full:
                break
            check_set(base, ranks, col, attrs=attrs)
            n_attr += 1
            col.distinct.add(("attrs", tuple(base), repr(attrs)))
            if n_attr == 5:
                col.samples.append({"kind": "attrs", "names": base, "ranks": ranks, "attrs": attrs})
    for k in range(100 if quick else 4000):
        if col.full:
            break
        nm = [rng.choice(INTERESTING + PREFIXED) for _ in range(rng.randint(2, 4 if quick else 5))]
        rk = [rng.choice((0, 1, 1, 2, 3)) for _ in nm] if k % 3 else None
        attrs = [random_attr(rng) for _ in nm]
        check_set(nm, rk, col, attrs=attrs)
        n_attr += 1
        col.distinct.add(("attrs", tuple(nm), repr(attrs)))
    for k in range(20 if quick else 300):  # longer lists, one initial order
        if col.full:
            break
        nm = [rng.choice(INTERESTING + PREFIXED + names[:600]) for _ in range(rng.randint(6, 30))]
        rk = [rng.choice((0, 1, 2, 3)) for _ in nm]
        attrs = [random_attr(rng) for _ in nm]
        check_sort(nm, rk, col, {"kind": "attrs", "names": nm, "ranks": rk, "attrs": attrs}, attrs=attrs)
        col.evaluations += 2
        n_attr += 1
        col.distinct.add(("attrs", tuple(nm), repr(attrs)))
    for k, prefix in enumerate(PREFIXES[:4] if quick else PREFIXES):
        if col.full:
            break
        inp = {"kind": "family-attrs", "prefix": prefix, "n_max": 30 if quick else 120, "cycle": k}
        check_family_attrs(prefix, inp["n_max"], k, rng, col, inp)
        n_attr += 1
        col.distinct.add(("family-attrs", prefix, k))
    # (5) digit runs of 15 and more digits
    for chosen, ranks in long_number_sets(rng, quick):
        if col.full:
            break
        check_set(chosen, ranks, col)
        col.distinct.add((tuple(sorted(chosen)), tuple(ranks) if ranks else None))
    # (7) long names: the k-th number counts like the first
    n_long = 0
    for spec, ranks in long_specs(quick, rng):
        if col.full:
            break
        inp = {"kind": "long", "spec": spec, "ranks": ranks}
        check_long(spec, ranks, col, inp)
        n_long += 1
        col.distinct.add(("long", repr(spec), repr(ranks)))
        if spec["k"] == 257 and n_long < 12 and not any(x.get("kind") == "long" for x in col.samples):
            col.samples.append(inp)
    for k, n_names in ((300, 40),) if quick else ((2, 60), (257, 120), (300, 40), (1030, 60), (5000, 30)):
        if col.full:
            break
        inp = {"kind": "long-list", "k": k, "n_names": n_names, "seed": seed}
        check_long_list(k, n_names, seed, col, inp)
        n_long += 1
        col.distinct.add(("long-list", k, n_names))
    # (4) history: the same objects keyed and sorted, renamed / re-ranked in place, keyed and sorted again
    n_hist = 0
    for stages in history_cases(quick, rng, names):
        if col.full:
            break
        inp = {"kind": "history", "stages": stages}
        check_history(stages, col, inp)
        n_hist += 1
        col.distinct.add(("history", repr(stages)))
        if n_hist == 3:
            col.samples.append(inp)
    # (9) scaffolds built without a rank (constructor default, parser output, reverse()) mixed with ranked ones; its own seeded stream
    n_mixed = 0
    rng_mixed = random.Random(f"c20-mixed-{seed}")
    for chosen, made in mixed_cases(quick, rng_mixed, names):
        if col.full:
            break
        check_mixed(chosen, made, col)
        n_mixed += 1
        col.distinct.add(("mixed", tuple(chosen), tuple(made)))
        if n_mixed == 2:
            col.samples.append({"kind": "mixed", "names": chosen, "made": made})
    # (8) very long digit runs, last: the failures of the known class must not take the place of others
    n_digits = 0
    for inp in digit_cases(quick):
        if col.full:
            break
        check_digits(inp, col)
        n_digits += 1
        col.distinct.add(("digits", inp["digits"], inp["where"], inp["lead"]))
    return col.result(
        bounds=f"all {len(names)} names of length <= {max_len} over {len(SMALL_ALPHABET)} characters; all pairs of length <= {pair_len}"
        + ("" if quick else " (length-4 pairs: every 7th)")
        + f"; {n_sets} multisets of <= 5 names x all permutations; {len(PREFIXES) * 3} families up to n = 120; 18 nematode sets; "
        f"{n_hist} histories of 2-4 stages on the same <= 6 scaffold objects; {n_attr} name sets / lists / families with attributes other than name and rank; "
        f"{n_long} sets / lists of long names (up to {2500 if quick else 20000} numbers or {5000 if quick else 100000} letters in front of the number that decides); "
        f"{n_digits} cases with a digit run of up to {4301 if quick else 10000} digits; {n_mixed} sets / lists mixing scaffolds built without a rank and with one",
        exhaustive=True,
    )
