"""
C11 bounded tier: on every run that completes, the reported cuts equal (output fragments - input contigs), the
reported breaks / joins equal an independent recount of contig-end adjacencies (unordered pairs of the two facing
contig ends; input adjacencies missing from every output assembly / output adjacencies that were not in the input),
and the haplotig-removal count computed as write_info_yaml() does equals the number of haplotig scaffolds written.
"""

import random

from . import pipeline_gen as pg
from .common import Collector


def recount(inp, out):
    in_adj = set()
    for s in inp:
        for jn, *_ in pg.adjacencies(s["rows"]):
            in_adj.add(jn)
    out_adj = set()
    n_out = 0
    for asm in out.values():
        for sc in asm["scaffolds"]:
            n_out += sum(1 for r in sc["rows"] if r[0] == "F")
            for jn, *_ in pg.adjacencies(sc["rows"]):
                out_adj.add(jn)
    cuts = n_out - len(pg.contigs(inp))
    return cuts, len(in_adj - out_adj), len(out_adj - in_adj), in_adj, out_adj


def fmt(jns):
    return sorted(sorted(f"{n}:{c}{s}" for n, c, s in jn) for jn in jns)


def check(case, col):
    run = pg.run_case(case)
    if run.error is not None:
        return None
    cuts, breaks, joins, in_adj, out_adj = recount(case["input"], run.out)
    problems = []
    if run.cuts != cuts:
        problems.append(f"cuts reported {run.cuts}, output fragments - input contigs = {cuts}")
    if run.breaks != breaks:
        problems.append(f"breaks reported {run.breaks}, recount {breaks} (input adjacencies gone: {fmt(in_adj - out_adj)})")
    if run.joins != joins:
        problems.append(f"joins reported {run.joins}, recount {joins} (new output adjacencies: {fmt(out_adj - in_adj)})")
    # haplotig removals
    hap_scaffolds = run.out.get("Haplotig", {"scaffolds": []})["scaffolds"]
    if case.get("yaml"):
        reported = pg.info_yaml(run).get("manual_haplotig_removals")
    else:
        raw = run.raw_out.get("Haplotig")
        reported = len(raw.scaffolds) if raw else 0
    if reported != len(hap_scaffolds):
        problems.append(f"haplotig removals reported {reported}, haplotig scaffolds written {len(hap_scaffolds)}")
    if case.get("model"):
        # every Haplotig-tagged piece of a PretextView-model map becomes one haplotig scaffold (H_n) unless nothing of it is left
        margin = pg.margin_of(case["map"]["bpt"])
        in_toks = {s["name"]: pg.tokens(s["rows"]) for s in case["input"]}
        tagged = [p for sc in case["map"]["scaffolds"] for p in sc if "Haplotig" in p[4]]
        solid = [p for p in tagged if pg.piece_core(in_toks[p[0]], p, margin)]
        if not len(solid) <= len(hap_scaffolds) <= len(tagged):
            problems.append(f"{len(hap_scaffolds)} haplotig scaffolds written for {len(tagged)} Haplotig pieces ({len(solid)} with an interior)")
    if problems:
        col.fail("; ".join(problems), case)
    return (cuts, breaks, joins)


def replay(inp):
    col = Collector("replay")
    check(inp, col)
    return col.failures[0]["message"] if col.failures else None


def add_haplotigs(case, rng):
    scs = [[[*p[:4], list(p[4])] for p in sc] for sc in case["map"]["scaffolds"]]
    for sc in scs:
        for p in sc:
            if rng.random() < 0.3:
                p[4].append("Haplotig")
    return {**case, "map": {"bpt": case["map"]["bpt"], "scaffolds": scs}}


def run(tier, seed, **opts):
    rng = random.Random(seed)
    col = Collector(
        "PretextView-model edit scripts from pipeline_gen (exhaustive tiny scope with both strands per contig; single "
        "scaffolds of <= 3 contigs over every length tuple incl. 1-bp and abutting contigs and same-named contigs on "
        "opposite strands; sub-texel runs; 2-3 scaffold inputs; whole-scaffold reversals, cuts, regrouping), the same "
        "with Haplotig tags, and seeded perturbed maps that complete; oracle: independent recount over unordered pairs "
        "of facing contig ends; non-trivial = distinct completed case with cuts + breaks + joins > 0 or a reversed piece"
    )
    quick = tier == "quick"
    stats = {"errors": 0}
    n = 0

    def one(case, fam):
        nonlocal n
        n += 1
        case = {**case, "yaml": n % 41 == 0, "model": fam != "perturbed"}
        r = check(case, col)
        if r is None:
            stats["errors"] += 1
        stats[fam] = stats.get(fam, 0) + 1
        rev = any(p[3] == -1 for sc in case["map"]["scaffolds"] for p in sc)
        col.case(pg.case_key(case), nontrivial=r is not None and (sum(r) > 0 or rev), sample={"family": fam, **case} if (r and sum(r) > 2 and n % 797 == 0) else None)

    scopes = pg.tiny_scopes(tier)
    tiny_n = 0
    for kw in scopes:
        for case in pg.tiny_exhaustive(**kw):
            tiny_n += 1
            one(case, "tiny")
            if col.full:
                break
    for fam, case, _ in pg.model_cases(tier, rng):
        if col.full:
            break
        one(case, fam)
        roll = rng.random()
        if roll < 0.25:
            one(add_haplotigs(case, rng), fam + "+haplotig")
        elif roll > 0.7:
            for pc, _ in pg.perturbations(case, rng, 1):
                one(pc, "perturbed")
    return col.result(
        bounds=(
            "input: 1-3 scaffolds x 1-6 contigs, contig lengths from {1,2,7,12,40,150,400,1000}, gaps none/1/10/20/25/200, both "
            "strands (strand 0 excluded: the statement speaks of forward and reverse contigs), names fasta/own/offset; texel "
            f"sizes {{1,2.5,10,33.3}}; <= 3 cuts per scaffold; tiny scopes ({tiny_n} cases: {pg.describe_scopes(scopes)}) enumerated fully, the rest seeded; "
            f"runs ending in an error (not judged): {stats['errors']}; per family: "
            + ", ".join(f"{k}={v}" for k, v in sorted(stats.items()) if k != "errors")
        ),
        exhaustive=False,
    )
