"""
C11 bounded tier: on every run that completes, the reported cuts equal (output fragments - input contigs), the
reported breaks / joins equal an independent recount of contig-end adjacencies (unordered pairs of the two facing
contig ends; input adjacencies missing from every output assembly / output adjacencies that were not in the input),
and the haplotig-removal count which write_info_yaml() puts into *.info.yaml (the only place where it is reported)
equals the number of haplotig scaffolds written.

Besides the PretextView-model families of pipeline_gen (texel-aligned pieces of >= 2 texels) there are the *sliver*
families defined here: a tagged piece (Haplotig / Contaminant / FalseDuplicate / untagged) shorter than, equal to or
just above the texel error length 1 + floor(bp per texel), lying at / before / across every row boundary of a small
scaffold, so that its overlap result is trimmed away, awarded to the neighbouring piece, cut, or kept; with
tagged neighbours (several tagged pieces of one haplotig) and in three groupings.  These are the inputs on which
"pieces labelled Haplotig" and "haplotig scaffolds written" differ.

And the *prefix* families: the input adjacencies are all adjacencies of the input assembly, whatever the scaffolds
are called and in whichever order they stand.  Input assemblies of several haplotypes, told apart by a prefix of the
contig names (HAP1_SCAFFOLD_2, hap2_ctg1a, h3_...; some scaffolds without a prefix), of multi-contig scaffolds
(so that there are input adjacencies), the scaffolds of the haplotypes in EVERY interleaving (by haplotype, by
chromosome HAP1_1 HAP2_1 HAP1_2 HAP2_2, and all orders between), under the null map (every scaffold whole and
forward: 0 cuts, 0 breaks, 0 joins by the recount), every scaffold reversed, and seeded edit scripts.

Every place where the numbers are reported is judged: the statistics object and, whenever the *.info.yaml is read, its
top-level manual_breaks / manual_joins (present when the curation touched several assemblies).  The *outside* families
make the adjacencies that lie in no haplotype assembly: on the prefix inputs, two whole scaffolds (of one haplotype,
of two, without prefix) joined in one Pretext scaffold whose pieces are all Contaminant / FalseDuplicate / Haplotig /
untagged / named for another haplotype, a scaffold broken at each of its gaps into pieces so tagged, and whole input
scaffolds of the seeded edit scripts so tagged.

And the third place, the log line 'Curation made <n> cut(s) ..., <n> break(s) ... and <n> join(s)': for EVERY case the line
which AssemblyStats.log_curation_stats() logs (called as cli() calls it, the root logger writing into a list) is read - the
word in front of cut(s) / break(s) / join(s) as a number - and its three numbers are compared with the recount; and for
the first case of every combination of counts (cuts 0 / 1 / 2+, breaks 0 / 1 / 2 / 3+, joins 0 / 1 / 2 / 3+; thorough:
the first three) and one case in 499 (thorough 197) the real pretext-to-asm command is run on the case written as AGP
files and the line in the <output>.log it writes is judged in the same way.  The generator families give every
combination of one / none / several cuts, breaks and joins (counted in the bounds).

And the *gap-run* families: an adjacency is the pair of the two facing contig ends whatever lies between them, so
inputs whose contigs are separated by runs of 2-4 consecutive gap rows (legal AGP / TPF), left whole, reversed, broken
inside the run and rearranged, next to a second scaffold to join to.
"""

import contextlib
import itertools
import logging
import math
import pathlib
import random
import re
import shutil
import tempfile
from fractions import Fraction

from . import pipeline_gen as pg
from .common import Collector


_SCRATCH = []  # temporary directory of the run() / replay() in progress (removed when it ends)


@contextlib.contextmanager
def scratch_dir():
    d = tempfile.mkdtemp(prefix="c11-")
    _SCRATCH.append(d)
    try:
        yield d
    finally:
        _SCRATCH.remove(d)
        shutil.rmtree(d, ignore_errors=True)


def reported_info(run):
    """
    the *.info.yaml which write_info_yaml(), called as cli() calls it, writes for this run, as a dict ({} if it is not
    a mapping).  The file is written into the scratch directory and deleted as soon as it is read.
    """
    if not _SCRATCH:
        info = pg.info_yaml(run)
        return info if isinstance(info, dict) else {}
    import yaml

    from tola.assembly.scripts.pretext_to_asm import write_info_yaml

    d = pathlib.Path(_SCRATCH[-1])
    with pg.quiet():
        write_info_yaml(d / "x.1.agp", run.build.assembly_stats, run.raw_out, True)
    (yf,) = list(d.glob("*.info.yaml"))
    text = yf.read_text()
    yf.unlink()
    info = yaml.load(text, Loader=getattr(yaml, "CSafeLoader", yaml.SafeLoader))
    return info if isinstance(info, dict) else {}


# --------------------------------------------------------------------------------------------------
# the log line 'Curation made ...': the third place where the numbers are reported
# --------------------------------------------------------------------------------------------------


class _Lines(logging.Handler):
    def __init__(self):
        super().__init__(logging.DEBUG)
        self.lines = []

    def emit(self, record):
        self.lines.extend(record.getMessage().splitlines())


@contextlib.contextmanager
def captured_log():
    """
    the root logger as pretext-to-asm sets it up by default (level INFO, messages unchanged), but writing into a list:
    yields the list of logged lines.  The handlers, the level and the disable mark it finds are put back.
    """
    root = logging.getLogger()
    saved = (list(root.handlers), root.level, root.manager.disable)
    h = _Lines()
    root.handlers[:] = [h]
    root.setLevel(logging.INFO)
    logging.disable(logging.NOTSET)
    try:
        yield h.lines
    finally:
        root.handlers[:] = saved[0]
        root.setLevel(saved[1])
        logging.disable(saved[2])


NUMBER_WORDS = {"no": 0, "zero": 0, "a": 1, "an": 1, "one": 1, "two": 2, "three": 3}
_NOUN_RE = {noun: re.compile(rf"(\S+)\s+(?:manual\s+)?{noun}s?\b", re.IGNORECASE) for noun in ("cut", "break", "join")}
_GROUPED_RE = re.compile(r"\d{1,3}([,_]\d{3})+")
_LINE_RE = re.compile(r"\s*curation made\b", re.IGNORECASE)


def stated_count(line, noun):
    """
    the number which a line of prose states for `noun` ("... 3 cuts in contigs", "1 break at a gap", "no joins"): the word
    in front of the first cut / cuts (break / breaks, join / joins), read as a decimal number (thousands separators
    allowed) or a number word.  None if the line does not state one.
    """
    m = _NOUN_RE[noun].search(line)
    if not m:
        return None
    word = m.group(1).strip("(:;")
    if word.isascii() and word.isdigit():
        return int(word)
    if _GROUPED_RE.fullmatch(word):
        return int(word.replace(",", "").replace("_", ""))
    return NUMBER_WORDS.get(word.lower())


def log_line_problems(lines, want, detail, said=None):
    """
    lines: what was logged; want: {"cut": n, "break": n, "join": n} by the recount.  The line 'Curation made ...' is
    there once and states the three numbers.  said: wrong numbers already found elsewhere for this run ({noun: n}); a
    log line which merely repeats one of them is not listed a second time.
    """
    found = [ln for ln in lines if _LINE_RE.match(ln)]
    if len(found) != 1:
        return [f"{len(found)} lines 'Curation made ...' in the log ({found if found else lines[:5]})"]
    problems = []
    for noun, n in want.items():
        got = stated_count(found[0], noun)
        if got is None:
            problems.append(f"log line {found[0]!r} states no number of {noun}s (recount: {n})")
        elif got != n and not (said and said.get(noun) == got):
            problems.append(f"log line {found[0]!r} states {got} {noun}{'' if got == 1 else 's'}, recount: {n}{detail.get(noun, '')}")
    return problems


def logged_by_stats(run):
    """the lines which AssemblyStats.log_curation_stats(), called as cli() calls it once the output is made, logs for this run"""
    with captured_log() as lines:
        run.build.assembly_stats.log_curation_stats()
    return lines


def has_special_tag(case):
    return any(t in pg.SPECIAL_TAGS for sc in case["map"]["scaffolds"] for p in sc for t in p[4])


def recount(inp, out):
    in_adj = set()
    for s in inp:
        for jn, *_ in pg.adjacencies(s["rows"]):
            in_adj.add(jn)
    out_adj = set()
    n_out = 0
    for asm in out.values():
        for sc in asm["scaffolds"]:
            n_out += sum(1 for r in sc["rows"] if r[0] == "F")
            for jn, *_ in pg.adjacencies(sc["rows"]):
                out_adj.add(jn)
    cuts = n_out - len(pg.contigs(inp))
    return cuts, len(in_adj - out_adj), len(out_adj - in_adj), in_adj, out_adj


def fmt(jns):
    return sorted(sorted(f"{n}:{c}{s}" for n, c, s in jn) for jn in jns)


def check(case, col):
    run = pg.run_case(case)
    if run.error is not None:
        return None
    cuts, breaks, joins, in_adj, out_adj = recount(case["input"], run.out)
    problems = []
    if run.cuts != cuts:
        problems.append(f"cuts reported {run.cuts}, output fragments - input contigs = {cuts}")
    if run.breaks != breaks:
        problems.append(f"breaks reported {run.breaks}, recount {breaks} (input adjacencies gone: {fmt(in_adj - out_adj)})")
    if run.joins != joins:
        problems.append(f"joins reported {run.joins}, recount {joins} (new output adjacencies: {fmt(out_adj - in_adj)})")
    # the log line: its three numbers are those of the recount, whatever the statistics object holds
    problems += log_line_problems(
        logged_by_stats(run),
        {"cut": cuts, "break": breaks, "join": joins},
        {"break": f" (input adjacencies gone: {fmt(in_adj - out_adj)})", "join": f" (new output adjacencies: {fmt(out_adj - in_adj)})"},
        said={"cut": run.cuts, "break": run.breaks, "join": run.joins} if problems else None,
    )
    # haplotig removals: the number in *.info.yaml against the scaffolds of the Haplotig assembly that is written
    hap_scaffolds = run.out.get("Haplotig", {"scaffolds": []})["scaffolds"]
    if case.get("yaml"):
        info = reported_info(run)
        # the totals of the second report: wherever the file states the breaks / joins of the curation as a whole
        # they are the same two numbers
        for key, what, want, detail in (
            ("manual_breaks", "breaks", breaks, fmt(in_adj - out_adj)),
            ("manual_joins", "joins", joins, fmt(out_adj - in_adj)),
        ):
            if key in info and info[key] != want:
                problems.append(
                    f"info.yaml {key}: {info[key]!r}, recount of {what} over all output assemblies "
                    f"{sorted(str(k) for k in run.out)}: {want} ({detail}); per-assembly entries: {info.get('assemblies')}"
                )
        reported = info.get("manual_haplotig_removals")
        if reported != len(hap_scaffolds):
            tagged_h = sum(1 for sc in case["map"]["scaffolds"] for p in sc if "Haplotig" in p[4])
            problems.append(
                f"haplotig removals reported in info.yaml: {reported!r}, haplotig scaffolds written: {len(hap_scaffolds)} "
                f"({[sc['name'] for sc in hap_scaffolds]}; the map has {tagged_h} Haplotig-tagged pieces)"
            )
    if case.get("model"):
        # every Haplotig-tagged piece of a PretextView-model map becomes one haplotig scaffold (H_n) unless nothing of it is left
        margin = pg.margin_of(case["map"]["bpt"])
        in_toks = {s["name"]: pg.tokens(s["rows"]) for s in case["input"]}
        tagged = [p for sc in case["map"]["scaffolds"] for p in sc if "Haplotig" in p[4]]
        solid = [p for p in tagged if pg.piece_core(in_toks[p[0]], p, margin)]
        if not len(solid) <= len(hap_scaffolds) <= len(tagged):
            problems.append(f"{len(hap_scaffolds)} haplotig scaffolds written for {len(tagged)} Haplotig pieces ({len(solid)} with an interior)")
    if problems:
        if len(case["input"]) > 1:
            problems.append(f"input scaffolds, in order: {[s['name'] for s in case['input']]}")
        col.fail("; ".join(problems), case)
    return (cuts, breaks, joins, len(hap_scaffolds))


def check_cli(case, col):
    """
    the same numbers at the far end: the case's input and map written as AGP files, the real pretext-to-asm command run on
    them (in process, as the tests run it) with an output file, and the line 'Curation made ...' of the <output>.log it
    writes judged against the recount over the output of the run on those texts.  A command that exits with an error is not
    judged.  Returns True if judged.
    """
    from . import cli_gen

    case = {**case, "via": "agp"}
    run = pg.run_case(case)
    if run.error is not None:
        return False
    cuts, breaks, joins, in_adj, out_adj = recount(case["input"], run.out)
    d = pathlib.Path(tempfile.mkdtemp(prefix="cli-", dir=_SCRATCH[-1] if _SCRATCH else None))
    try:
        (d / "in.agp").write_text(pg.input_agp_text(case["input"]))
        (d / "pretext.agp").write_text(pg.pretext_agp_text(case["map"]))
        # the command sets up the root logger itself (run_pretext_to_asm puts handlers and level back, and click's runner
        # keeps the console output); only a disable mark left by someone else would keep it from logging
        mark = logging.root.manager.disable
        logging.disable(logging.NOTSET)
        try:
            code, _, _, exc = cli_gen.run_pretext_to_asm(["-a", d / "in.agp", "-p", d / "pretext.agp", "-o", d / "out.agp", "-c", case.get("prefix", "SUPER_")])
        finally:
            logging.disable(mark)
        if code != 0 or exc is not None:
            return False
        log = d / "out.log"
        lines = log.read_text().splitlines() if log.exists() else []
    finally:
        shutil.rmtree(d, ignore_errors=True)
    problems = log_line_problems(
        lines,
        {"cut": cuts, "break": breaks, "join": joins},
        {"break": f" (input adjacencies gone: {fmt(in_adj - out_adj)})", "join": f" (new output adjacencies: {fmt(out_adj - in_adj)})"},
    )
    if problems:
        col.fail("pretext-to-asm run on the AGP files of the case, out.log: " + "; ".join(problems), case)
    return True


def replay(inp):
    col = Collector("replay")
    with scratch_dir():
        if inp.get("cli"):
            check_cli(inp, col)
        else:
            check(inp, col)
    return col.failures[0]["message"] if col.failures else None


# --------------------------------------------------------------------------------------------------
# sliver families: tagged pieces around the texel error length at every row boundary
# --------------------------------------------------------------------------------------------------

TAG_OF = {"": [], "H": ["Haplotig"], "C": ["Contaminant"], "F": ["FalseDuplicate"]}
# (left flank, sliver, right flank)
TAG_PATTERNS_QUICK = ["-H-", "HH-", "-HH", "H-H", "-C-", "-F-", "CH-", "H--"]
TAG_PATTERNS_THOROUGH = TAG_PATTERNS_QUICK + ["HHH", "--H", "HC-", "-CH", "HF-", "-FH", "FH-", "-HC", "CHC", "---"]
GROUPINGS = ("apart", "flanks", "inplace")


def error_length(bpt):
    """the texel error length of the remapping: 1 + floor(bp per texel)"""
    return 1 + math.floor(bpt)


def sliver_lengths(bpt):
    """piece lengths around the error length e: 1 bp, half a texel, a texel (e - 1), e, e + 1, two texels + 1"""
    t = math.floor(bpt)
    return sorted({1, max(1, t // 2), t, t + 1, t + 2, 2 * t + 1})


def sliver_spans(rows, ln):
    """every span of `ln` bases that ends just before, lies across, or starts at a row boundary (scaffold ends included)"""
    total = pg.rows_len(rows)
    spans = set()
    pos = 1
    for r in [*rows, None]:
        for s in (pos - ln, pos - ln // 2, pos):
            if s >= 1 and s + ln - 1 <= total:
                spans.add((s, s + ln - 1))
        if r is not None:
            pos += pg.row_len(r)
    return sorted(spans)


def sliver_geometries(bpt, tier):
    """
    small input scaffolds for a texel size, as (scaffold, core): 1-3 contigs which are long (4 or 6 texels), shorter
    than a texel, or (thorough) 1 bp; no gap / a gap of one texel / a gap of more than two texels (thorough: also 1 bp
    and 200 bp); every strand tuple (quick: four patterns for three contigs).  core = within the quick scope's lengths
    and gaps.
    """
    t = math.ceil(bpt)
    long1, long2, short = 6 * t, 4 * t, max(2, math.floor(0.7 * bpt))
    quick = tier == "quick"
    tuples = [(long1, long2), (short, long1), (long1, short), (long2, short, long2)]
    gaps = [None, (t, "scaffold"), (2 * t + 5, "scaffold")]
    n_core = (len(tuples), len(gaps))
    if not quick:
        tuples += [(1, long1), (long1, 1), (short, short, long1), (long2, 1, long2), (long1,)]
        gaps += [(1, "contig"), (200, "scaffold")]
    i = 0
    for ti, lt in enumerate(tuples):
        k = len(lt)
        for gi, g in enumerate(gaps if k > 1 else (None,)):
            for sp in itertools.product((1, -1), repeat=k) if (k < 3 or not quick) else pg.strand_patterns(k):
                i += 1
                naming = "own" if quick else ("own", "fasta", "offset")[i % 3]
                yield pg.make_scaffold("scaffold_1", lt, sp, [g] * (k - 1), naming, tag="1"), (ti < n_core[0] and gi < n_core[1])


def sliver_case(sc, bpt, span, pattern, grouping, strand, extra, i):
    """
    the map in which scaffold `sc` is split into left flank / sliver `span` / right flank (a flank may be empty),
    tagged by `pattern`, grouped as
      apart    every piece its own (unpainted) Pretext scaffold
      flanks   the flanks together in one painted Pretext scaffold, the sliver on its own
      inplace  all three in input order in one painted Pretext scaffold
    the sliver on `strand`; `extra`: a second one-contig input scaffold, placed whole as a Haplotig ('H'), untagged
    ('-') or not in the input (None)
    """
    total = pg.rows_len(sc["rows"])
    s, e = span
    name = sc["name"]
    left = [name, 1, s - 1, 1, list(TAG_OF[pattern[0].strip("-")])] if s > 1 else None
    sliver = [name, s, e, strand, list(TAG_OF[pattern[1].strip("-")])]
    right = [name, e + 1, total, 1, list(TAG_OF[pattern[2].strip("-")])] if e < total else None
    if grouping == "apart":
        scs = [[p] for p in (left, sliver, right) if p]
    else:
        group = [p for p in ((left, right) if grouping == "flanks" else (left, sliver, right)) if p]
        for p in group:
            p[4].insert(0, "Painted")
        scs = ([group] if group else []) + ([[sliver]] if grouping == "flanks" else [])
    inp = [sc]
    if extra is not None:
        sc2 = pg.make_scaffold("scaffold_2", [4 * math.ceil(bpt) + 3], [-1 if i % 2 else 1], None, "own", tag="2")
        inp = [sc, sc2]
        scs.insert(i % (len(scs) + 1), [["scaffold_2", 1, pg.rows_len(sc2["rows"]), 1 if i % 4 < 2 else -1, list(TAG_OF[extra.strip("-")])]])
    return {"input": inp, "map": {"bpt": bpt, "scaffolds": scs}, "prefix": "SUPER_", "via": pg.pick_via(inp, i)}


def sliver_cases(tier):
    """
    The enumerated sliver scope: every geometry x sliver length x position (sliver_spans).  Thorough, 10 bp/texel, core
    geometries: ALL listed tag patterns per span (grouping, sliver strand and the extra scaffold rotate).  Elsewhere
    `per` combinations of pattern x grouping x strand per span (quick 2; thorough 5 at 10 bp/texel, 2 at the other
    texel sizes), rotating through the full product so that every combination is met many times over the scope.
    """
    quick = tier == "quick"
    i = 0
    patterns = TAG_PATTERNS_QUICK if quick else TAG_PATTERNS_THOROUGH
    combos = list(itertools.product(patterns, GROUPINGS, (1, -1)))
    for bpt in (10.0,) if quick else (10.0, 2.5, 33.3):
        per = 2 if quick or bpt != 10.0 else 5
        for sc, core in sliver_geometries(bpt, tier):
            full = core and not quick and bpt == 10.0
            for ln in sliver_lengths(bpt):
                for span in sliver_spans(sc["rows"], ln):
                    if full:
                        chosen = [(pat, GROUPINGS[(i + j) % 3], 1 if (i + j) % 2 else -1) for j, pat in enumerate(patterns)]
                    else:
                        # 7 is coprime to the number of combinations: the rotation visits all of them
                        chosen = [combos[(7 * (i + j)) % len(combos)] for j in range(per)]
                    for pat, grouping, strand in chosen:
                        i += 1
                        extra = (None, "H", "-", None)[i % 4]
                        yield sliver_case(sc, bpt, span, pat, grouping, strand, extra, i)


def random_sliver_cases(tier, rng):
    """
    seeded: the multi-scaffold and sub-texel-run inputs of pipeline_gen, every scaffold split at 0-3 points lying within
    one error length of a row boundary (so that pieces of any length down to 1 bp arise), each piece tagged Haplotig
    (p 0.25), Contaminant or FalseDuplicate (p 0.06 each), random order / orientation / grouping / painting
    """
    n = 150 if tier == "quick" else 10000
    inputs = itertools.chain.from_iterable(zip(pg.multi_scaffold_inputs(rng, n, clean_ends=True), pg.subtexel_run_inputs(rng, n)))
    for i, inp in enumerate(inputs):
        bpt = rng.choice((10.0, 10.0, 2.5, 33.3))
        e = error_length(bpt)
        pieces, tags = [], []
        for sc in inp:
            total = pg.rows_len(sc["rows"])
            bounds = []
            pos = 0
            for r in sc["rows"]:
                pos += pg.row_len(r)
                bounds.append(pos)
            cuts = set()
            for _ in range(rng.choice((0, 1, 2, 2, 3))):
                c = rng.choice(bounds) + rng.randint(-e - 1, e + 1)
                if 1 <= c < total:
                    cuts.add(c)
            edges = [0, *sorted(cuts), total]
            for a, b in itertools.pairwise(edges):
                pieces.append([sc["name"], a + 1, b])
                roll = rng.random()
                tags.append(["Haplotig"] if roll < 0.25 else ["Contaminant"] if roll < 0.31 else ["FalseDuplicate"] if roll < 0.37 else [])
        arr = pg.random_arrangement(len(pieces), rng)
        painted = [rng.random() < 0.5 for _ in arr[2]]
        mp = {"bpt": bpt, "scaffolds": pg.arrange(pieces, arr, painted, tags)}
        yield {"input": inp, "map": mp, "prefix": "SUPER_", "via": pg.pick_via(inp, i)}


# --------------------------------------------------------------------------------------------------
# prefix families: several haplotypes in one input assembly, their scaffolds in every interleaving
# --------------------------------------------------------------------------------------------------

# (contig lengths, gaps between them): two or three contigs, so that every scaffold has input adjacencies
PREFIX_GEOMETRIES = [
    ((150, 40), [(10, "scaffold")]),
    ((40, 150, 40), [(200, "scaffold"), None]),
    ((400, 150), [None]),
    ((40, 40, 150), [(10, "scaffold"), (20, "scaffold")]),
    ((150, 7, 40), [(10, "scaffold"), (1, "contig")]),
    ((1000, 40), [(25, "contig")]),
]


def label_orders(counts):
    """every distinct order of counts[0] x label 0, counts[1] x label 1, ...: all interleavings of the haplotypes"""
    labels = [k for k, c in enumerate(counts) for _ in range(c)]
    return sorted(set(itertools.permutations(labels)))


def prefix_scaffold(prefix, number, serial, naming):
    """
    scaffold `number` of the haplotype called `prefix` ('' = no prefix).  naming 'fasta': contigs named after the
    scaffold <PREFIX>_SCAFFOLD_<n>, coordinates = position in the scaffold; 'own': contigs <prefix>_ctg<tag><a..>
    running from 1; 'first': as 'own', but only the contig listed first carries the prefix
    """
    lengths, gaps = PREFIX_GEOMETRIES[serial % len(PREFIX_GEOMETRIES)]
    strands = pg.strand_patterns(len(lengths))[(serial // 2) % 4]
    name = f"{prefix}_SCAFFOLD_{number}" if prefix else f"scaffold_{number}"
    sc = pg.make_scaffold(name, lengths, strands, gaps, "fasta" if naming == "fasta" else "own", tag=f"{serial}x")
    if naming != "fasta" and prefix:
        for j, r in enumerate(r for r in sc["rows"] if r[0] == "F"):
            if naming == "own" or j == 0:
                r[1] = f"{prefix}_{r[1]}"
    return sc


def prefix_input(prefixes, order, naming, shift=0):
    """the input assembly whose k-th scaffold belongs to haplotype prefixes[order[k]]"""
    seen = {}
    inp = []
    for k, lab in enumerate(order):
        seen[lab] = seen.get(lab, 0) + 1
        inp.append(prefix_scaffold(prefixes[lab], seen[lab], k + shift, naming))
    return inp


def whole_map(inp, bpt, strand, painted):
    """every input scaffold as one piece in its own Pretext scaffold, in input order"""
    scs = []
    for k, sc in enumerate(inp):
        (piece,) = pg.pieces_of(sc, bpt, "ceil", ())
        scs.append([[*piece, strand if isinstance(strand, int) else strand[k % len(strand)], ["Painted"] if painted else []]])
    return {"bpt": bpt, "scaffolds": scs}


PREFIX_SETS = [("HAP1", "HAP2"), ("HAP1", "HAP2", ""), ("hap1", "h2", "HAP3"), ("", "ctg12")]


def prefix_cases(tier, rng):
    """
    counts of scaffolds per haplotype: quick (2, 2) and (2, 1, 1); thorough every count vector of 2-3 haplotypes with
    <= 3 scaffolds each and <= 6 in all.  Every interleaving x (null map, null map painted, all reversed, mixed
    orientations, `n` seeded PretextView-model edit scripts).
    """
    quick = tier == "quick"
    if quick:
        plans = [((2, 2), PREFIX_SETS[0]), ((2, 1, 1), PREFIX_SETS[1]), ((1, 2), PREFIX_SETS[3])]
    else:
        vectors = [c for n in (2, 3) for c in itertools.product((1, 2, 3), repeat=n) if sum(c) <= 6]
        plans = [(c, ps) for c in vectors for ps in PREFIX_SETS if len(ps) >= len(c)]
    i = 0
    for counts, prefixes in plans:
        for order in label_orders(counts):
            for naming in ("fasta", "own") if quick else ("fasta", "own", "first"):
                i += 1
                if quick and i % 2 and naming == "own":
                    continue
                inp = prefix_input(prefixes, order, naming, shift=i)
                bpt = (10.0, 2.5, 33.3)[i % 3] if not quick else 10.0
                maps = [whole_map(inp, bpt, 1, False), whole_map(inp, bpt, -1, i % 2 == 0)]
                if not quick:
                    maps += [whole_map(inp, bpt, 1, True), whole_map(inp, bpt, (1, -1, -1), False)]
                for mp, _ in pg.scripts_for(inp, bpt, rng, 2 if quick else 4, max_cuts=2, painted_p=0.3):
                    maps.append(mp)
                for k, mp in enumerate(maps):
                    yield {"input": inp, "map": mp, "prefix": "SUPER_", "via": pg.pick_via(inp, i + k)}

# --------------------------------------------------------------------------------------------------
# outside families: joins and breaks that lie in no haplotype assembly (prefix inputs, tagged groups)
# --------------------------------------------------------------------------------------------------

# what the pieces of the edited group carry: a removal tag, nothing, or the name of a haplotype no input contig is named for
OUTSIDE_TAGS = (["Contaminant"], ["FalseDuplicate"], ["Haplotig"], [], ["Mat"])


def whole_piece(sc, bpt):
    (piece,) = pg.pieces_of(sc, bpt, "ceil", ())
    return piece


def joined_map(inp, bpt, a, b, strands, tags, painted):
    """every input scaffold whole in its own Pretext scaffold, but scaffolds a and b together in one, both pieces tagged `tags`"""
    scs = []
    for k, sc in enumerate(inp):
        if k == b:
            continue
        if k == a:
            t = (["Painted"] if painted else []) + list(tags)
            scs.append([[*whole_piece(inp[a], bpt), strands[0], list(t)], [*whole_piece(inp[b], bpt), strands[1], list(t)]])
        else:
            scs.append([[*whole_piece(sc, bpt), 1, []]])
    return {"bpt": bpt, "scaffolds": scs}


def broken_map(inp, bpt, a, tags, swap):
    """
    every input scaffold whole, but scaffold a split behind each of its contigs but the last (the gap rows that follow
    go with the next piece), every piece in its own Pretext scaffold and tagged `tags`; `swap`: the pieces in reverse order
    """
    scs = []
    for k, sc in enumerate(inp):
        if k != a:
            scs.append([[*whole_piece(sc, bpt), 1, []]])
            continue
        ends = []
        pos = 0
        for r in sc["rows"]:
            pos += pg.row_len(r)
            if r[0] == "F":
                ends.append(pos)
        total = max(pos, whole_piece(sc, bpt)[2])
        edges = [0, *ends[:-1], total]
        pieces = [[[sc["name"], x + 1, y, 1, list(tags)]] for x, y in itertools.pairwise(edges)]
        scs.extend(reversed(pieces) if swap else pieces)
    return {"bpt": bpt, "scaffolds": scs}


def tag_source(mp, name, tags):
    """the map with `tags` added to every piece taken from input scaffold `name`"""
    return {"bpt": mp["bpt"], "scaffolds": [[[*p[:4], list(p[4]) + (list(tags) if p[0] == name else [])] for p in sc] for sc in mp["scaffolds"]]}


def outside_cases(tier, rng):
    """
    prefix inputs (quick: (2, 2) HAP1/HAP2 and (2, 1, 1) HAP1/HAP2/none, two interleavings each; thorough: every count
    vector with <= 4 scaffolds in all, every prefix set, every interleaving) x
      joined  every pair of scaffolds (quick: two pairs per input, rotating) in one Pretext scaffold, orientations
              rotating, both pieces tagged alike from OUTSIDE_TAGS (two tag sets per pair, thorough three, rotating)
      broken  each multi-contig scaffold (quick: one) split at its gaps, the pieces tagged alike
      source  seeded edit scripts in which every piece of one input scaffold carries the tag
    """
    quick = tier == "quick"
    if quick:
        plans = [((2, 2), PREFIX_SETS[0]), ((2, 1, 1), PREFIX_SETS[1])]
    else:
        vectors = [c for n in (2, 3) for c in itertools.product((1, 2, 3), repeat=n) if sum(c) <= 4]
        plans = [(c, ps) for c in vectors for ps in PREFIX_SETS if len(ps) >= len(c)]
    orient = list(itertools.product((1, -1), repeat=2))
    i = 0
    for counts, prefixes in plans:
        orders = label_orders(counts)
        if quick:
            orders = [orders[0], orders[len(orders) // 2]]
        for order in orders:
            for naming in ("fasta", "own") if quick else ("fasta", "own", "first"):
                i += 1
                inp = prefix_input(prefixes, order, naming, shift=i)
                bpt = (10.0, 2.5, 33.3)[i % 3] if not quick else 10.0
                n = len(inp)
                pairs = [(a, b) for a in range(n) for b in range(n) if a != b]
                if quick:
                    pairs = [pairs[(5 * i + j * 7) % len(pairs)] for j in range(2)]
                maps = []
                for pi, (a, b) in enumerate(pairs):
                    tagsets = [OUTSIDE_TAGS[(i + pi + j) % 5] for j in ((0, 2) if quick else (0, 2, 4))]
                    for ti, tags in enumerate(tagsets):
                        maps.append(joined_map(inp, bpt, a, b, orient[(i + pi + ti) % 4], tags, (i + pi + ti) % 3 == 0))
                for a in range(n) if not quick else [i % n]:
                    for ti, tags in enumerate(OUTSIDE_TAGS if not quick else [OUTSIDE_TAGS[(i + 1) % 5]]):
                        maps.append(broken_map(inp, bpt, a, tags, (i + ti) % 2 == 1))
                for k, (mp, _) in enumerate(pg.scripts_for(inp, bpt, rng, 2 if quick else 5, max_cuts=2, painted_p=0.3)):
                    maps.append(tag_source(mp, inp[(i + k) % n]["name"], OUTSIDE_TAGS[(i + k) % 5]))
                for k, mp in enumerate(maps):
                    yield {"input": inp, "map": mp, "prefix": "SUPER_", "via": pg.pick_via(inp, i + k)}


# --------------------------------------------------------------------------------------------------
# gap-run families: contigs separated by several consecutive gap rows
# --------------------------------------------------------------------------------------------------

GAP_RUNS = [
    [(100, "contig"), (200, "scaffold")],
    [(200, "scaffold"), (200, "scaffold")],
    [(1, "contig"), (10, "scaffold"), (9, "contig")],
    [(10, "scaffold"), (1, "contig"), (1, "contig"), (28, "scaffold")],
]


def gaprun_scaffold(name, lengths, strands, runs, naming, tag=""):
    """as pg.make_scaffold, but between contigs j and j + 1 lies the run of gap rows runs[j] (a list of (length, type); [] = abut)"""
    gaps = [(sum(g[0] for g in run), "scaffold") if run else None for run in runs]
    sc = pg.make_scaffold(name, lengths, strands, gaps, naming, tag=tag)
    it = iter(run for run in runs if run)
    rows = []
    for r in sc["rows"]:
        if r[0] == "G":
            rows.extend(pg.G(*g) for g in next(it))
        else:
            rows.append(r)
    return {"name": name, "rows": rows}


def run_cuts(rows, bpt):
    """for every run of >= 2 gap rows between two contigs the texel boundary nearest to its middle"""
    cuts = []
    pos = 0
    start = n_gaps = 0
    seen_frag = False
    for r in rows:
        if r[0] == "G":
            if not n_gaps:
                start = pos
            n_gaps += 1
        else:
            if seen_frag and n_gaps >= 2:
                cuts.append(round(Fraction(start + pos, 2) / pg.bptF(bpt)))
            seen_frag = True
            n_gaps = 0
        pos += pg.row_len(r)
    return cuts


def with_gap_runs(inp, rng):
    """the input with gap rows of >= 2 bp split (p 0.7) into 2-4 consecutive gap rows of the same total length, types drawn anew"""
    out = []
    for sc in inp:
        rows = []
        for r in sc["rows"]:
            if r[0] == "G" and r[1] >= 2 and rng.random() < 0.7:
                k = min(r[1], rng.choice((2, 2, 3, 4)))
                marks = sorted(rng.sample(range(1, r[1]), k - 1))
                for x, y in itertools.pairwise([0, *marks, r[1]]):
                    rows.append(pg.G(y - x, rng.choice(("scaffold", "contig"))))
            else:
                rows.append(r)
        out.append({"name": sc["name"], "rows": rows})
    return out


def gaprun_cases(tier, rng):
    """
    enumerated: one scaffold of two contigs around each run of GAP_RUNS, or of three contigs around (run, single gap),
    (no gap, run) and (run, next run), every strand tuple (quick: the four patterns), names own / fasta / offset in
    rotation, alone or before / after a second two-contig scaffold (with a run of its own); maps: whole, reversed, and for
    every run the two pieces of a cut in its middle in EVERY order x orientation x grouping (quick: four of the sixteen,
    rotating), the second scaffold whole before, after or between; plus seeded edit scripts.
    seeded: the 2-3 scaffold inputs of pipeline_gen with their gaps split into runs, two seeded edit scripts each.
    """
    quick = tier == "quick"
    i = 0
    for bpt in (10.0,) if quick else (10.0, 2.5):
        t = math.ceil(bpt)
        long1, long2, short = 6 * t, 4 * t, max(2, math.floor(0.7 * bpt))
        geoms = [((long1, long2), [run]) for run in GAP_RUNS]
        for j, run in enumerate(GAP_RUNS):
            nxt = GAP_RUNS[(j + 1) % len(GAP_RUNS)]
            geoms += [((long2, long1, long2), [run, [(t, "scaffold")]]), ((long2, short, long1), [[], run]), ((long2, long2, long2), [run, nxt])]
        for lt, runs in geoms:
            k = len(lt)
            for sp in itertools.product((1, -1), repeat=k) if not quick else pg.strand_patterns(k):
                i += 1
                if quick and k == 3 and i % 2:
                    continue
                naming = ("own", "fasta", "offset")[i % 3]
                sc = gaprun_scaffold("scaffold_1", lt, sp, runs, naming, tag="1")
                second = gaprun_scaffold("scaffold_2", (long2, long2), (1, -1) if i % 2 else (1, 1), [GAP_RUNS[i % len(GAP_RUNS)]], "own", tag="2")
                inp = ([sc], [sc, second], [second, sc])[i % 3]
                maps = [whole_map(inp, bpt, 1, i % 2 == 0), whole_map(inp, bpt, -1, i % 2 == 1)]
                other = [[[*whole_piece(second, bpt), 1 if i % 4 < 2 else -1, []]]] if len(inp) > 1 else []
                for c in run_cuts(sc["rows"], bpt):
                    pcs = pg.pieces_of(sc, bpt, "ceil", (c,))
                    arrs = pg.ALL_ARRANGEMENTS[2]
                    for ai, arr in enumerate(arrs if not quick else [arrs[(5 * i + 3 * j) % len(arrs)] for j in range(4)]):
                        scs = pg.arrange(pcs, arr, [(i + ai) % 3 == 0] * len(arr[2]))
                        where = (i + ai) % (len(scs) + 1)
                        maps.append({"bpt": bpt, "scaffolds": scs[:where] + other + scs[where:]})
                for mp, _ in pg.scripts_for(inp, bpt, rng, 1 if quick else 4, max_cuts=2, painted_p=0.3):
                    maps.append(mp)
                for mk, mp in enumerate(maps):
                    yield {"input": inp, "map": mp, "prefix": "SUPER_", "via": pg.pick_via(inp, i + mk)}
    for n, inp in enumerate(pg.multi_scaffold_inputs(rng, 60 if quick else 4000, clean_ends=True)):
        inp = with_gap_runs(inp, rng)
        bpt = rng.choice(pg.BPTS)
        for mp, _ in pg.scripts_for(inp, bpt, rng, 2, max_cuts=2):
            yield {"input": inp, "map": mp, "prefix": "SUPER_", "via": pg.pick_via(inp, n)}


def add_tags(case, rng):
    """Haplotig on three pieces in ten, Contaminant / FalseDuplicate on six in a hundred each (one rng call per piece)"""
    scs = [[[*p[:4], list(p[4])] for p in sc] for sc in case["map"]["scaffolds"]]
    for sc in scs:
        for p in sc:
            roll = rng.random()
            if roll < 0.3:
                p[4].append("Haplotig")
            elif roll < 0.36:
                p[4].append("Contaminant")
            elif roll < 0.42:
                p[4].append("FalseDuplicate")
    return {**case, "map": {"bpt": case["map"]["bpt"], "scaffolds": scs}}


def run(tier, seed, **opts):
    with scratch_dir():
        return _run(tier, seed, **opts)


def _run(tier, seed, **opts):
    rng = random.Random(seed)
    col = Collector(
        "PretextView-model edit scripts from pipeline_gen (exhaustive tiny scope with both strands per contig; single "
        "scaffolds of <= 3 contigs over every length tuple incl. 1-bp and abutting contigs and same-named contigs on "
        "opposite strands; sub-texel runs; 2-3 scaffold inputs; whole-scaffold reversals, cuts, regrouping), the same "
        "with Haplotig / Contaminant / FalseDuplicate tags, seeded perturbed maps that complete, and the sliver families "
        "(enumerated: a tagged piece of 1 bp .. two texels at / before / across every row boundary of a 1-3 contig "
        "scaffold, tagged or untagged flanks, three groupings, both strands; seeded: 2-3 scaffold and sub-texel-run inputs "
        "split within one error length of row boundaries, random tags; and perturbations of these), and the prefix families "
        "(input assemblies of 2-3 haplotypes named by contig-name prefixes, multi-contig scaffolds, every interleaving of the "
        "haplotypes' scaffolds, under null, reversed and seeded edit maps), the outside families (prefix inputs; two whole "
        "scaffolds joined in one Pretext scaffold, a scaffold broken at its gaps, or all pieces of one input scaffold, tagged "
        "Contaminant / FalseDuplicate / Haplotig / nothing / a haplotype no input contig is named for) and the gap-run families "
        "(contigs separated by runs of 2-4 consecutive gap rows; whole, reversed, cut inside each run with the two pieces in every "
        "order x orientation x grouping, seeded scripts); oracle: independent "
        "recount over unordered pairs of facing contig ends, judged against the statistics object and, when the info.yaml "
        "written for the run is read (every prefix / outside case, every case whose map carries a Haplotig / Contaminant / "
        "FalseDuplicate tag, one in 5 of the gap-run cases and one in 41 of the others), against its top-level manual_breaks / "
        "manual_joins where present; against the three numbers read from the log line 'Curation made ...' (every case: as "
        "AssemblyStats.log_curation_stats() logs it; the first case(s) of every combination of counts and one case in "
        f"{499 if tier == 'quick' else 197}: as the real pretext-to-asm command writes it into <output>.log); and the haplotig removals of the info.yaml "
        "against the scaffolds of the Haplotig assembly; non-trivial = distinct completed case with cuts + breaks + joins "
        "> 0, a reversed piece, or a Haplotig-tagged piece"
    )
    stats = {"errors": 0, "yaml read": 0, "haplotig pieces != haplotig scaffolds": 0, "through the command line": 0}
    n = 0
    count_classes = {}  # (cuts, breaks, joins by the recount, capped at 2 / 3 / 3) -> cases
    every = 499 if tier == "quick" else 197

    def one(case, fam, model=True, yaml=False):
        nonlocal n
        n += 1
        case = {**case, "yaml": yaml or n % 41 == 0 or has_special_tag(case), "model": model}
        r = check(case, col)
        if r is None:
            stats["errors"] += 1
        stats[fam] = stats.get(fam, 0) + 1
        stats["yaml read"] += bool(case["yaml"] and r is not None)
        pieces = [p for sc in case["map"]["scaffolds"] for p in sc]
        rev = any(p[3] == -1 for p in pieces)
        hap = sum(1 for p in pieces if "Haplotig" in p[4])
        if r is not None and hap != r[3]:
            stats["haplotig pieces != haplotig scaffolds"] += 1
        if r is not None:
            # the first case (thorough: the first three) of every combination of counts, and one case in `every`, goes
            # through the real command line as well
            cls = (min(r[0], 2), min(r[1], 3), min(r[2], 3))
            count_classes[cls] = count_classes.get(cls, 0) + 1
            if count_classes[cls] <= (1 if tier == "quick" else 3) or n % every == 0:
                stats["through the command line"] += bool(check_cli({**case, "cli": True}, col))
        col.case(
            hash(pg.case_key(case)),  # 64-bit hash of the identity: the distinct count needs no more, and the keys of a thorough run would fill 1 GB
            nontrivial=r is not None and (sum(r[:3]) > 0 or rev or hap > 0),
            sample={"family": fam, **case} if (r and sum(r[:3]) > 2 and n % 797 == 0) else None,
        )

    scopes = pg.tiny_scopes(tier)
    tiny_n = 0
    for kw in scopes:
        for case in pg.tiny_exhaustive(**kw):
            tiny_n += 1
            one(case, "tiny")
            if col.full:
                break
    for fam, case, _ in pg.model_cases(tier, rng):
        if col.full:
            break
        one(case, fam)
        roll = rng.random()
        if roll < 0.25:
            one(add_tags(case, rng), fam + "+tagged")
        elif roll > 0.7:
            for pc, _ in pg.perturbations(case, rng, 1):
                one(pc, "perturbed", model=False)
    # the sliver families draw from their own generator, so that the stream above does not depend on them
    rng2 = random.Random(seed * 1000003 + 11)
    sliver_n = 0
    for case in sliver_cases(tier):
        if col.full:
            break
        sliver_n += 1
        one(case, "sliver")
        if sliver_n % 6 == 0:
            for pc, _ in pg.perturbations(case, rng2, 1):
                one(pc, "sliver perturbed", model=False)
    for case in random_sliver_cases(tier, rng2):
        if col.full:
            break
        one(case, "sliver seeded")
        if rng2.random() < 0.15:
            for pc, _ in pg.perturbations(case, rng2, 1):
                one(pc, "sliver perturbed", model=False)
    # the prefix families have their own generator as well
    rng3 = random.Random(seed * 1000003 + 12)
    prefix_n = 0
    for case in prefix_cases(tier, rng3):
        if col.full:
            break
        prefix_n += 1
        one(case, "prefix", model=False, yaml=True)
    # ... and so have the outside and the gap-run families
    rng4 = random.Random(seed * 1000003 + 13)
    outside_n = 0
    for case in outside_cases(tier, rng4):
        if col.full:
            break
        outside_n += 1
        one(case, "outside", model=False, yaml=True)
    rng5 = random.Random(seed * 1000003 + 14)
    gaprun_n = 0
    for case in gaprun_cases(tier, rng5):
        if col.full:
            break
        gaprun_n += 1
        one(case, "gap run", model=False, yaml=gaprun_n % 5 == 0)
    return col.result(
        bounds=(
            "input: 1-3 scaffolds x 1-6 contigs, contig lengths from {1,2,7,12,40,150,400,1000}, gaps none/1/10/20/25/200, both "
            "strands (strand 0 excluded: the statement speaks of forward and reverse contigs), names fasta/own/offset; texel "
            f"sizes {{1,2.5,10,33.3}}; <= 3 cuts per scaffold; tiny scopes ({tiny_n} cases: {pg.describe_scopes(scopes)}) enumerated fully, the rest seeded; "
            f"sliver scope ({sliver_n} cases, enumerated): texel sizes {[10.0] if tier == 'quick' else [10.0, 2.5, 33.3]}, contigs of 6 / 4 texels, 0.7 texel"
            f"{'' if tier == 'quick' else ', 1 bp'}, gaps none / 1 texel / 2 texels + 5{'' if tier == 'quick' else ' / 1 / 200'}, sliver lengths "
            "{1, texel/2, texel, e, e+1, 2 texels + 1} with e = 1 + floor(texel size), tag patterns (left flank, sliver, right flank) "
            f"{TAG_PATTERNS_QUICK if tier == 'quick' else TAG_PATTERNS_THOROUGH}; "
            f"prefix scope ({prefix_n} cases): 2-3 haplotype prefixes from {PREFIX_SETS}, {'(2,2) / (2,1,1) / (1,2)' if tier == 'quick' else '1-3'} scaffolds of 2-3 contigs "
            "each, every interleaving, null / reversed / seeded edit maps; "
            f"outside scope ({outside_n} cases): {'(2,2) / (2,1,1), two interleavings' if tier == 'quick' else 'every count vector with <= 4 scaffolds, every interleaving'}, "
            f"pairs joined / scaffolds broken / sources tagged with {[t[0] if t else '-' for t in OUTSIDE_TAGS]}; "
            f"gap-run scope ({gaprun_n} cases): runs {GAP_RUNS} between contigs of 6 / 4 / 0.7 texels at {[10.0] if tier == 'quick' else [10.0, 2.5]} bp/texel, "
            "and gaps of seeded 2-3 scaffold inputs split into 2-4 rows; "
            "combinations of (cuts, breaks, joins) by the recount, capped at 2 / 3 / 3, met (cases): "
            + ", ".join(f"{k}: {v}" for k, v in sorted(count_classes.items()))
            + f"; runs ending in an error (not judged): {stats['errors']}; per family: "
            + ", ".join(f"{k}={v}" for k, v in sorted(stats.items()) if k != "errors")
        ),
        exhaustive=False,
    )
