"""
C01 bounded tier: whenever the remapping completes, the fragments of all output assemblies together partition the
input contigs base by base, and every output fragment is a sub-interval of one input contig under its name.
Driven over the PretextView-model case stream of pipeline_gen, an exhaustive tiny scope, tagged maps, seeded
perturbations of the maps (dropped / duplicated / overlapping / out-of-range pieces, junk bait lists) and an
enumeration of short contigs (around the texel error length) shared by two or three pieces that leave a hole in them.  Errors are
allowed (the statement is conditional on completion); silent loss, duplication or invention is not.

Two levels are judged with the same oracle:
  1. the dict of assemblies which BuildAssembly.assemblies_with_scaffolds_fused() returns (every case);
  2. for cases carrying "cli_out" (an --output file name) the FILES which the real command line (pretext-to-asm, run in
     process in a temporary directory that is removed) writes: every *.agp / *.tpf file found in the output directory
     is read with the small readers below (no project code) and the fragments of ALL files together have to partition
     the input contigs base by base - or the command has to end with a non-zero exit status.  Besides, the command
     announces every file it writes on STDERR ("Created: '<path>'"); in a fresh output directory an assembly file
     announced twice, or announced as "Overwrote", means that two assemblies were written to one path.
     A rotating share of all the cases above goes through this level, plus two case families made for it (cli_cases):
     single-haplotype maps whose unplaced scaffolds are named after 0-3 haplotype-like prefixes, and multi-haplotype
     maps (with and without a Primary tag) holding scaffolds with and without a haplotype; in both, tagged pieces of
     every kind, unplaced scaffolds present in / absent from the map, Target mode.
"""

import math
import pathlib
import random
import re
import tempfile

from . import cli_gen
from . import pipeline_gen as pg
from .common import Collector


def partition_problems(inp, out):
    """the statement, base by base"""
    count = {}
    owner = {}
    for ci, f in enumerate(pg.contigs(inp)):
        for pos in range(f[2], f[3] + 1):
            count[(f[1], pos)] = 0
            owner[(f[1], pos)] = ci
    problems = []
    for key, asm in out.items():
        for sc in asm["scaffolds"]:
            for r in sc["rows"]:
                if r[0] != "F":
                    continue
                invented = 0
                owners = set()
                for pos in range(r[2], r[3] + 1):
                    k = (r[1], pos)
                    if k in count:
                        count[k] += 1
                        owners.add(owner[k])
                    else:
                        invented += 1
                where = f"assembly {key!r} scaffold {sc['name']!r}"
                if invented:
                    problems.append(f"{invented} bp of output fragment {r[1]}:{r[2]}-{r[3]} ({where}) are in no input contig")
                elif len(owners) != 1:
                    problems.append(f"output fragment {r[1]}:{r[2]}-{r[3]} ({where}) spans {len(owners)} input contigs")
                if r[4] not in (1, -1, 0):
                    problems.append(f"output fragment {r[1]}:{r[2]}-{r[3]} has strand {r[4]!r}")

    def runs(test, what):
        run = None
        for (name, pos), c in sorted(count.items()):
            if test(c):
                if run and run[0] == name and run[2] == pos - 1:
                    run[2] = pos
                    continue
                if run:
                    problems.append(f"{what}: {run[0]}:{run[1]}-{run[2]}")
                run = [name, pos, pos]
        if run:
            problems.append(f"{what}: {run[0]}:{run[1]}-{run[2]}")

    runs(lambda c: c == 0, "input bases missing from every output")
    runs(lambda c: c > 1, "input bases present more than once")
    return problems


def check(case, col, stats=None):
    run = pg.run_case(case)
    if run.error is not None:
        if stats is not None:
            stats["errors"] = stats.get("errors", 0) + 1
    else:
        problems = partition_problems(case["input"], run.out)
        if problems:
            col.fail("remapping completed but the outputs do not partition the input: " + "; ".join(problems[:4]), case)
    if case.get("cli_out"):
        check_cli(case, col, stats)
    return run


def replay(inp):
    col = Collector("replay")
    check(inp, col)
    return col.failures[0]["message"] if col.failures else None


# --------------------------------------------------------------------------------------------------
# the command line: the files pretext-to-asm writes
# --------------------------------------------------------------------------------------------------

CLI_OUT_NAMES = ("asm.1.agp", "asm.1.tpf", "x.agp", "idTest1.2.tpf", "out.tpf", "mVulVul1.3.agp")
ANNOUNCED = re.compile(r"^\s*(Created|Overwrote): '(.*)'\s*$")


def read_agp(text):
    """scaffolds of a written AGP file as plain rows (hand-written reader, no project code)"""
    scaffolds = {}
    for line in text.splitlines():
        if not line.strip() or line.startswith("#"):
            continue
        cols = line.split("\t")
        rows = scaffolds.setdefault(cols[0], [])
        if cols[4] in ("U", "N"):
            rows.append(("G", int(cols[5]), cols[6]))
        else:
            rows.append(("F", cols[5], int(cols[6]), int(cols[7]), {"+": 1, "-": -1}.get(cols[8], 0), tuple(c for c in cols[9:] if c)))
    return [{"name": n, "rows": r} for n, r in scaffolds.items()]


def read_tpf(text):
    """scaffolds of a written TPF file as plain rows (hand-written reader, no project code)"""
    scaffolds = {}
    last = None
    pending = []
    for line in text.splitlines():
        if not line.strip() or line.startswith("#"):
            continue
        cols = line.split("\t")
        if cols[0] == "GAP":
            gap = ("G", int(cols[2]), {"TYPE-2": "scaffold", "TYPE-3": "contig"}.get(cols[1], cols[1]))
            (scaffolds[last] if last is not None else pending).append(gap)
            continue
        name, span = cols[1].rsplit(":", 1)
        start, end = span.split("-")
        rows = scaffolds.setdefault(cols[2], [])
        rows.extend(pending)
        pending = []
        rows.append(("F", name, int(start), int(end), {"PLUS": 1, "MINUS": -1}.get(cols[3], 0), ()))
        last = cols[2]
    return [{"name": n, "rows": r} for n, r in scaffolds.items()]


def run_cli(case):
    """
    the case through the real command line: -a <input as AGP or TPF text> -p <PretextView AGP> -o <tmp>/out/<cli_out>
    -c <prefix> into an empty output directory.
    -> (exit code, error text, {file name: {"scaffolds": [...]}} for EVERY .agp / .tpf file in the output directory,
        [(verb, file name)] as announced on STDERR)
    """
    out_name = case["cli_out"]
    with tempfile.TemporaryDirectory() as d:
        d = pathlib.Path(d)
        if case.get("via") == "tpf" and pg.tpf_ok(case["input"]):
            asm = d / "asm.tpf"
            asm.write_text(pg.input_tpf_text(case["input"]))
        else:
            asm = d / "asm.agp"
            asm.write_text(pg.input_agp_text(case["input"]))
        (d / "pretext.agp").write_text(pg.pretext_agp_text(case["map"]))
        out_dir = d / "out"
        out_dir.mkdir()
        args = ["-a", asm, "-p", d / "pretext.agp", "-o", out_dir / out_name, "-c", case.get("prefix", "SUPER_"), "--no-write-log", "-l", "ERROR"]
        code, _, err, exc = cli_gen.run_pretext_to_asm(args)
        files = {}
        for p in sorted(out_dir.iterdir()):
            ext = p.suffix.lower()
            if p.is_file() and ext in (".agp", ".tpf"):
                text = p.read_text(errors="replace")
                try:
                    files[p.name] = {"scaffolds": read_agp(text) if ext == ".agp" else read_tpf(text)}
                except (ValueError, IndexError, KeyError) as e:
                    files[p.name] = {"scaffolds": [], "unreadable": f"{type(e).__name__}: {e}"}
        announced = []
        for line in (err or "").splitlines():
            if m := ANNOUNCED.match(line):
                announced.append((m.group(1), pathlib.Path(m.group(2)).name))
    return code, ((exc or "") + " " + (err or "")).strip()[-300:], files, announced


def cli_problems(case, files, announced):
    """the statement over the files of a run that completed"""
    problems = []
    said = {}
    for verb, name in announced:
        if not name.lower().endswith((".agp", ".tpf")):
            continue
        said[name] = said.get(name, 0) + 1
        if said[name] == 2 or (verb == "Overwrote" and said[name] == 1):
            problems.append(f"two outputs were written to one assembly file path: {name!r} was announced {verb!r} in an empty output directory; what was written there first is gone")
    for name, f in files.items():
        if "unreadable" in f:
            problems.append(f"{name!r} is not an {name.rsplit('.', 1)[1].upper()} file ({f['unreadable']})")
    return problems + partition_problems(case["input"], files)


def check_cli(case, col, stats=None):
    code, err, files, announced = run_cli(case)
    if stats is not None:
        stats["cli"] = stats.get("cli", 0) + 1
    if code != 0:
        # "ends in an error": allowed
        if stats is not None:
            stats["cli_errors"] = stats.get("cli_errors", 0) + 1
        return
    problems = cli_problems(case, files, announced)
    if problems:
        col.fail(
            f"pretext-to-asm -o {case['cli_out']} completed (exit 0) but the {len(files)} assembly file(s) it wrote "
            f"({', '.join(files) or 'none'}) do not partition the input: " + "; ".join(problems[:4]),
            case,
        )


TAG_POOL = (["Haplotig"], ["Contaminant"], ["FalseDuplicate"], ["Unloc"], ["X"], ["Hap1"], ["Hap2"], ["Target"], ["B1"], ["Singleton"])


def decorate(case, rng):
    """random tags on pieces (consistent or not: C01 only speaks about runs that complete)"""
    scs = [[[*p[:4], list(p[4])] for p in sc] for sc in case["map"]["scaffolds"]]
    for sc in scs:
        for p in sc:
            if rng.random() < 0.35:
                p[4].extend(rng.choice(TAG_POOL))
    return {**case, "map": {"bpt": case["map"]["bpt"], "scaffolds": scs}}


# --------------------------------------------------------------------------------------------------
# short contigs shared by two or three pieces that do not abut inside them
# --------------------------------------------------------------------------------------------------
# "Whatever the Pretext file says": pieces whose ends were nudged off the texel grid leave a stretch of a contig that
# no piece claims (a hole), or claim a stretch twice.  When the contig is about as long as the texel error length
# E = 1 + floor(bp per texel), every piece's share of it is of the order of the tolerance, which is where a remapping
# is most tempted to give the contig away.  The statement does not care who gets it, only that exactly one output
# fragment holds each of its bases, or that the run ends in an error.

HOLE_BPTS = {"quick": (1.0, 2.5, 10.0, 33.3), "thorough": (1.0, 2.5, 4.0, 7.5, 10.0, 33.3, 100.0)}


def err_len(bpt):
    return 1 + math.floor(bpt)


def share_marks(E, full):
    """lengths of a piece's share of the short contig: everything up to E + 2 (small E), else around 1, E/2 and E"""
    if full:
        return list(range(1, E + 3))
    return sorted({1, 2, E // 2, E - 2, E - 1, E, E + 1})


def hole_marks(E, full):
    """unclaimed bases between two pieces (negative: claimed twice)"""
    if full:
        return list(range(-1, 2 * E + 1))
    return sorted({-1, 0, 1, 2, E // 2, E - 1, E, E + 1, 2 * E})


def hole_geometry(position, K, L, gap, strands, naming):
    """
    one input scaffold with a short contig of L bp at its start / end / between two long contigs of K bp;
    -> (scaffold, first base of the short contig in the scaffold, scaffold length)
    """
    lens = {"start": [L, K], "end": [K, L], "middle": [K, L, K], "run": [K, L, L, K]}[position]
    k = len(lens)
    sc = pg.make_scaffold("scaffold_1", lens, strands[:k], [gap] * (k - 1), naming, tag="1")
    s0 = 1 if position == "start" else K + (gap[0] if gap else 0) + 1
    return sc, s0, pg.rows_len(sc["rows"])


def hole_pieces(position, s0, L, total, shares, holes):
    """
    the pieces over scaffold_1: shares = (a, [m, ...], b) bases of the short contig for the pieces in scaffold order,
    holes = unclaimed bases between consecutive pieces.  The first piece starts at the scaffold start, the last ends
    at the scaffold end (position 'end': at the end of the short contig, which is the scaffold end).  None if the
    shares and holes do not fit the contig.
    """
    if sum(shares) + sum(holes) != L:
        return None
    pieces = []
    pos = s0
    last = len(shares) - 1
    for i, share in enumerate(shares):
        start = 1 if i == 0 else pos
        end = total if i == last else pos + share - 1
        if end < start or end > total or (pieces and start <= pieces[-1][1]):
            return None
        pieces.append(["scaffold_1", start, end])
        if i < last:
            pos += share + holes[i]
            if pos < s0:
                return None
    return pieces


def hole_cases(tier, rng):
    """
    Yields (family, case).  Families
      hole2-<position>   two pieces share the short contig: a bp to the first, h unclaimed (h < 0: claimed twice), b to
                         the second; a, b, h from share_marks / hole_marks of every texel size, short contig of
                         a + h + b bp (so below, at and above E and 2E) at the scaffold start, end, or in the middle
      hole3-<position>   three pieces: a, h1, m (a piece wholly inside the contig), h2, b
      hole2-run          two short contigs in a row, the second one untouched by the hole
    per combination `reps` seeded variants of: long-contig length, gap between contigs, strands, naming, an extra
    texel-grid cut in the long left contig, arrangement (order / orientation / grouping of the pieces) and paint.
    """
    quick = tier == "quick"
    reps = 1 if quick else 3
    i = 0
    for bpt in HOLE_BPTS[tier]:
        E = err_len(bpt)
        full = E <= 3 or (not quick and E <= 5)
        A = share_marks(E, full)
        H = hole_marks(E, full)
        combos = [("hole2", (a, b), (h,)) for a in A for b in A for h in H]
        small = sorted({1, E - 1, E + 1})
        combos += [
            ("hole3", (a, m, b), (h1, h2))
            for a in small
            for m in small
            for b in small
            for h1 in sorted({0, E - 1} if quick else {0, 1, E - 1})
            for h2 in sorted({0, E - 1} if quick else {0, 1, E - 1})
        ]
        for ci, (fam, shares, holes) in enumerate(combos):
            L = sum(shares) + sum(holes)
            if L < 1 or min(shares) < 1:
                continue
            if not quick:
                positions = ("middle", "end", "start", "run") if fam == "hole2" else ("middle", "end", "start")
            elif fam == "hole3":
                positions = ("middle",)
            else:
                # quick: the middle always; scaffold ends for every combination when E <= 3, else alternating
                positions = ("middle", "end", "start") if full else ("middle", ("end", "start")[ci % 2])
                if L % 3 == 0:
                    positions = (*positions, "run")
            for position in positions:
                for _ in range(reps):
                    K = rng.choice((math.ceil(4 * bpt) + 1, 6 * E + 1))
                    gap = rng.choice((None, None, None, (1, "contig"), (max(1, E // 2), "scaffold"), (E, "scaffold")))
                    strands = [rng.choice((1, 1, -1)) for _ in range(4)]
                    naming = rng.choice(("own", "own", "fasta", "offset"))
                    sc, s0, total = hole_geometry(position, K, L, gap, strands, naming)
                    pieces = hole_pieces(position, s0, L, total, shares, holes)
                    if pieces is None:
                        continue
                    if position != "start" and rng.random() < 0.25:
                        # one more piece, cut off the long left contig on the texel grid
                        s, e = pg.texel_piece(0, 2, bpt)
                        if e + 1 < pieces[0][2] and e < K:
                            pieces[0][1] = e + 1
                            pieces.insert(0, ["scaffold_1", s, e])
                    k = len(pieces)
                    arr = rng.choice(pg.ALL_ARRANGEMENTS[k]) if k <= 3 else pg.random_arrangement(k, rng)
                    if rng.random() < 0.3:
                        # as PretextView would list them if nothing had been moved: every piece its own scaffold
                        arr = (tuple(range(k)), (1,) * k, (1,) * k)
                    painted = [rng.random() < 0.5 for _ in arr[2]]
                    mp = {"bpt": bpt, "scaffolds": pg.arrange(pieces, arr, painted)}
                    i += 1
                    inp = [sc]
                    yield f"{fam}-{position}", {"input": inp, "map": mp, "prefix": "SUPER_", "via": pg.pick_via(inp, i)}


# --------------------------------------------------------------------------------------------------
# case families for the command-line level: several output assemblies per run
# --------------------------------------------------------------------------------------------------
# The statement counts the bases over ALL assemblies written.  How many assemblies a run writes, and under which
# names, depends on the haplotypes in the map: tags that are not known words name a haplotype, an unplaced scaffold
# belongs to the haplotype its name begins with, Haplotig / Contaminant / FalseDuplicate pieces go to files of their
# own, and a Primary tag says that only one haplotype of a combined map is curated.  Whatever the combination, no
# base may fall between the files.

HAPLIKE_PREFIXES = ("HAP1", "HAP2", "h1tg000001l", "h2tg000007l", "Hap3", "atg000012l", "hap2")
HAPLIKE_FORMS = ("{p}_SCAFFOLD_{j}", "{p}_frag_{j}", "{p}_ctg_{j}_1", "{p}_scaffold_{j}", "{p}_{j}")
NOHAP_FORMS = ("scaffold_{j}", "ctg0001{j}", "ptg00000{j}l_1", "Scaff{j}")
HAP_TAGS = (("Hap1", "Hap2", "Hap3"), ("HAP1", "HAP2", "HAP3"), ("Mat", "Pat", "Alt"), ("hapA", "hapB", "hapC"))
UNPLACED_STATES = ("plain", "plain", "absent", "Haplotig", "Contaminant", "FalseDuplicate")
CUT_FATES = ("keep", "flip", "Unloc", "Haplotig", "Contaminant", "FalseDuplicate", "unpainted", "none", "none")


def bp(texels, bpt):
    return max(1, math.ceil(texels * bpt))


def family_scaffold(name, k, texel_range, bpt, rng, tag):
    """a FASTA-like scaffold (contig name = scaffold name) or one whose contigs have names of their own"""
    lens = [bp(rng.randint(*texel_range), bpt) for _ in range(k)]
    gaps = [rng.choice(((10, "scaffold"), (200, "scaffold"), (1, "contig"), None)) for _ in range(k - 1)]
    strands = [rng.choice((1, 1, -1)) for _ in range(k)]
    return pg.make_scaffold(name, lens, strands, gaps, "fasta" if rng.random() < 0.85 else "own", tag=tag)


def family_map(chroms, others, bpt, rng, target=False, mix=False):
    """
    chroms  [(scaffold, [tags of the painted Pretext scaffold], primary: bool)] in map order: one Pretext scaffold
            each, painted; a chromosome of >= 6 texels may be cut in two on a texel boundary, the second piece then is
            kept / put in front reversed / an Unloc / cut off into a Pretext scaffold of its own tagged Haplotig,
            Contaminant or FalseDuplicate, or left unpainted
    others  [(scaffold, state, [tags])]: unplaced scaffolds, state 'plain' (its own unpainted Pretext scaffold with
            the tags given), 'absent' (not in the map at all) or Haplotig / Contaminant / FalseDuplicate
    target  Target on every painted scaffold and a seeded half of the plain unplaced ones
    mix     unplaced scaffolds are listed between the chromosomes instead of after them
    """
    painted = []
    rest = []
    for sc, tags, primary in chroms:
        rounding = rng.choice(("floor", "ceil"))
        n = max(1, pg.texels(pg.rows_len(sc["rows"]), bpt, rounding))
        fate = rng.choice(CUT_FATES) if n >= 6 else "none"
        cuts = () if fate == "none" else (rng.randint(2, n - 2),)
        pcs = pg.pieces_of(sc, bpt, rounding, cuts)
        t = ["Painted", *tags] + (["Target"] if target else [])
        first = [*pcs[0], rng.choice((1, -1)), t + (["Primary"] if primary else [])]
        psc = [first]
        if len(pcs) == 2:
            second = [*pcs[1], rng.choice((1, -1)), list(t)]
            if fate == "keep":
                psc.append(second)
            elif fate == "flip":
                psc.insert(0, second)
            elif fate == "Unloc":
                second[4].append("Unloc")
                psc.append(second)
            elif fate == "unpainted":
                second[4] = [x for x in tags]
                rest.append([second])
            else:
                second[4] = [*tags, *(["Painted"] if rng.random() < 0.3 else []), fate]
                rest.append([second])
        painted.append(psc)
    for sc, state, tags in others:
        if state == "absent":
            continue
        (pc,) = pg.pieces_of(sc, bpt, "ceil", ())
        t = list(tags)
        if state != "plain":
            t.append(state)
        elif target and rng.random() < 0.5:
            t.append("Target")
        rest.append([[*pc, rng.choice((1, -1)), t]])
    rng.shuffle(rest)
    if not mix:
        return {"bpt": bpt, "scaffolds": painted + rest}
    scs = []
    for psc in painted:
        while rest and rng.random() < 0.4:
            scs.append(rest.pop())
        scs.append(psc)
    return {"bpt": bpt, "scaffolds": scs + rest}


def single_haplotype_case(k, rng, n):
    """
    a map without haplotype tags: 1-2 painted chromosomes (scaffold_1, scaffold_2; one may carry a name tag), 0-2
    unplaced scaffolds with plain names, and unplaced scaffolds named after `k` different haplotype-like prefixes
    (1-2 scaffolds per prefix: HAP1_SCAFFOLD_7, h1tg000001l_frag_3, Hap3_ctg_2_1, HAP2_9 ...)
    """
    bpt = pg.BPTS[n % len(pg.BPTS)]
    inp = []
    chroms = []
    for i in range(1, rng.randint(1, 2) + 1):
        sc = family_scaffold(f"scaffold_{i}", rng.randint(1, 2), (6, 14), bpt, rng, str(i))
        inp.append(sc)
        chroms.append((sc, ["X"] if i == 2 and rng.random() < 0.3 else [], False))
    others = []
    j = 2
    for prefix in rng.sample(HAPLIKE_PREFIXES, k):
        form = rng.choice(HAPLIKE_FORMS[:4]) if rng.random() < 0.9 else HAPLIKE_FORMS[4]
        for _ in range(rng.randint(1, 2)):
            j += 1
            sc = family_scaffold(form.format(p=prefix, j=j), rng.randint(1, 2), (1, 5), bpt, rng, str(j))
            others.append((sc, rng.choice(UNPLACED_STATES), []))
    for _ in range(rng.randint(0, 2)):
        j += 1
        sc = family_scaffold(rng.choice(NOHAP_FORMS).format(j=j), 1, (1, 5), bpt, rng, str(j))
        others.append((sc, rng.choice(UNPLACED_STATES), []))
    rng.shuffle(others)
    inp.extend(sc for sc, _, _ in others)
    if rng.random() < 0.3:
        rng.shuffle(inp)
    mp = family_map(chroms, others, bpt, rng, target=rng.random() < 0.15, mix=rng.random() < 0.2)
    return {"input": inp, "map": mp, "prefix": ("SUPER_", "chr")[n % 2], "via": ("agp", "tpf")[n % 2], "cli_out": CLI_OUT_NAMES[n % len(CLI_OUT_NAMES)]}


def multi_haplotype_case(n_hap, primary, n_nohap, rng, n):
    """
    a combined map of `n_hap` haplotypes (2-3).  Every haplotype has 1-2 chromosomes named <HAP>_SCAFFOLD_<i>, listed
    in alternating haplotype order and painted; with `primary` only one haplotype is curated: the first piece of its first
    chromosome carries Primary and the chromosomes of the other haplotypes are painted or left as they are (seeded).
    The haplotype is written as a tag on the Pretext scaffold or only shows in the scaffold names (seeded per case, as in
    maps of hifiasm assemblies).  0-2 unplaced scaffolds per haplotype (named <HAP>_SCAFFOLD_<j>) and `n_nohap`
    scaffolds WITHOUT a haplotype (scaffold_7, ctg00017, ptg000007l_1), each plain / absent / Haplotig / Contaminant /
    FalseDuplicate.
    """
    bpt = pg.BPTS[n % len(pg.BPTS)]
    haps = rng.choice(HAP_TAGS)[:n_hap]
    forms = {h: rng.choice((h.upper(), h)) for h in haps}
    tagged = rng.random() < 0.6
    curated = rng.randrange(n_hap) if primary else None
    paint_all = not primary or rng.random() < 0.5
    n_chr = rng.randint(1, 2)
    inp = []
    chroms = []
    others = []
    j = 0
    for i in range(1, n_chr + 1):
        order = haps if curated is None else [haps[curated]] + [h for h in haps if h != haps[curated]]
        for hi, h in enumerate(order):
            j += 1
            sc = family_scaffold(f"{forms[h]}_SCAFFOLD_{j}", rng.randint(1, 2), (6, 14), bpt, rng, str(j))
            inp.append(sc)
            if paint_all or hi == 0:
                chroms.append((sc, [h] if tagged else [], primary and i == 1 and hi == 0))
            else:
                others.append((sc, "plain", [h] if tagged and rng.random() < 0.5 else []))
    for h in haps:
        for _ in range(rng.randint(0, 2)):
            j += 1
            sc = family_scaffold(f"{forms[h]}_SCAFFOLD_{j}", 1, (1, 5), bpt, rng, str(j))
            inp.append(sc)
            others.append((sc, rng.choice(UNPLACED_STATES), [h] if tagged and rng.random() < 0.3 else []))
    for _ in range(n_nohap):
        j += 1
        sc = family_scaffold(rng.choice(NOHAP_FORMS).format(j=j), rng.randint(1, 2), (1, 5), bpt, rng, str(j))
        inp.append(sc)
        others.append((sc, rng.choice(UNPLACED_STATES), []))
    mp = family_map(chroms, others, bpt, rng, target=rng.random() < 0.1, mix=rng.random() < 0.2)
    return {"input": inp, "map": mp, "prefix": ("SUPER_", "chr")[n % 2], "via": ("agp", "tpf")[n % 2], "cli_out": CLI_OUT_NAMES[n % len(CLI_OUT_NAMES)]}


def cli_cases(tier, rng):
    """
    Yields (family, case); every case runs the command line.
      haplike-<k>                       single_haplotype_case with k = 0, 1, 2, 3 haplotype-like name prefixes
      primary-<h>hap-<m>nohap           multi_haplotype_case with a Primary tag, h = 2, 3 haplotypes, m = 0, 1, 2 scaffolds
      haps-<h>hap-<m>nohap              without a haplotype; the same without Primary tag (all haplotypes curated)
    `reps` seeded variants each (scaffold lengths / strands / gaps, which unplaced scaffolds are in the map, which are
    tagged, how a chromosome is cut and what becomes of the cut-off piece, Target mode, order of the map); texel size,
    input format (AGP / TPF), output format and --output name rotate.
    """
    quick = tier == "quick"
    n = 0
    for k in (0, 1, 2, 3):
        for _ in range((6, 10, 14, 14)[k] if quick else (150, 300, 450, 450)[k]):
            n += 1
            yield f"haplike-{k}", single_haplotype_case(k, rng, n)
    for primary in (True, False):
        for n_hap in (2, 3):
            for n_nohap in (0, 1, 2):
                reps = (4, 10, 8)[n_nohap] if quick else (100, 250, 200)[n_nohap]
                if not primary:
                    reps = max(2, reps // 3)
                for _ in range(reps):
                    n += 1
                    yield f"{'primary' if primary else 'haps'}-{n_hap}hap-{n_nohap}nohap", multi_haplotype_case(n_hap, primary, n_nohap, rng, n)


def run(tier, seed, **opts):
    rng = random.Random(seed)
    col = Collector(
        "PretextView-model edit scripts (pipeline_gen.model_cases: single scaffolds of <= 3 contigs over every length "
        "tuple, sub-texel contig runs, 2-3 scaffold inputs; cut/permuted/reoriented/regrouped, floor/ceil, sub-texel "
        "scaffolds absent or present, painted or not), the same with random tags, seeded perturbations (drop, "
        "duplicate, overlap, shift, out-of-range, junk baits), an exhaustive tiny scope, and short-contig hole "
        "scenarios (hole_cases: a contig of a + h + b bp at the scaffold start / end / middle, shared by two or three "
        "pieces with shares a, b around 1, E/2 and E = 1 + floor(bp per texel) and h unclaimed or doubly claimed "
        "bases between them; every value up to E + 2 resp. 2E for E <= 3), and maps that make several output "
        "assemblies (cli_cases: single-haplotype maps with unplaced scaffolds named after 0-3 haplotype-like prefixes; "
        "combined maps of 2-3 haplotypes with / without Primary tag and 0-2 scaffolds without a haplotype; tagged pieces "
        "of every kind, unplaced scaffolds present or absent, Target mode); oracle: per-base "
        "partition of the input contigs by all output assemblies returned by the library and, for the cli_cases and "
        "every n-th other case, by ALL AGP / TPF files which the real pretext-to-asm command writes (own readers), plus "
        "no assembly file announced twice / as overwritten in a fresh directory; non-trivial = distinct case that "
        "completed without error and has >= 2 pieces or a perturbation"
    )
    stats = {}
    quick = tier == "quick"
    n = 0

    cli_every = 100 if quick else 150  # every n-th case of the streams below also goes through the command line

    def one(case, fam, extra=None, nontrivial_hint=True):
        nonlocal n
        n += 1
        if n % cli_every == 7 and "cli_out" not in case:
            case = {**case, "cli_out": CLI_OUT_NAMES[(n // cli_every) % len(CLI_OUT_NAMES)]}
        r = check(case, col, stats)
        nontrivial = r.error is None and nontrivial_hint
        sample = None
        if nontrivial and n % 977 == 0:
            sample = {"family": fam, **case}
        if nontrivial and fam in ("haplike-2", "primary-2hap-1nohap") and fam not in stats:
            col.samples.append({"family": fam, **case})  # one of each command-line family, whatever came before
        col.case((pg.case_key(case), case.get("cli_out")), nontrivial=nontrivial, sample=sample)
        stats[fam] = stats.get(fam, 0) + 1

    # exhaustive tiny scopes
    scopes = pg.tiny_scopes(tier)
    tiny_n = 0
    for kw in scopes:
        for case in pg.tiny_exhaustive(**kw):
            tiny_n += 1
            one(case, "tiny", nontrivial_hint=pg.n_cut_pieces(case) >= 2)
            if col.full:
                break
    for fam, case, _ in pg.model_cases(tier, rng):
        if col.full:
            break
        one(case, fam, nontrivial_hint=pg.n_cut_pieces(case) >= 2)
        roll = rng.random()
        if roll < 0.25:
            one(decorate(case, rng), fam + "+tags")
        if roll > 0.5:
            for pc, kinds in pg.perturbations(case, rng, 2):
                one(pc, "perturbed")
    # several output assemblies per run, judged on the files of the command line
    for fam, case in cli_cases(tier, rng):
        if col.full:
            break
        one(case, fam)
    # short contigs shared by pieces that leave a hole (or overlap) inside them
    for fam, case in hole_cases(tier, rng):
        if col.full:
            break
        one(case, fam)
        if rng.random() < (0.05 if quick else 0.15):
            one(decorate(case, rng), "hole+tags")
    return col.result(
        bounds=(
            "input: 1-3 scaffolds x 1-6 contigs, contig lengths from {1,2,7,12,40,150,400,1000}, gaps none/1/10/20/25/200, "
            "both strands, names fasta/own/offset, optional terminal gaps; texel sizes {1,2.5,10,33.3}; <= 3 cuts per "
            f"scaffold; hole scenarios at texel sizes {list(HOLE_BPTS[tier])}, long contigs of 4-6 texels, gaps none/1/E/2/E; "
            f"tiny scopes ({tiny_n} cases: {pg.describe_scopes(scopes)}; both strands, every cut set / permutation / "
            "orientation / grouping, painted and unpainted) are enumerated fully, the rest is seeded sampling; "
            f"runs ending in an error: {stats.get('errors', 0)} (allowed); cases also run through the command line "
            f"(every {cli_every}th case + all cli_cases; output AGP and TPF, input as AGP or TPF text): {stats.get('cli', 0)}, "
            f"of which {stats.get('cli_errors', 0)} ended with a non-zero exit status (allowed); per family: "
            + ", ".join(f"{k}={v}" for k, v in sorted(stats.items()) if k not in ("errors", "cli", "cli_errors"))
        ),
        exhaustive=False,
    )
