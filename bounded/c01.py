"""
C01 bounded tier: whenever the remapping completes, the fragments of all output assemblies together partition the
input contigs base by base, and every output fragment is a sub-interval of one input contig under its name.
Driven over the PretextView-model case stream of pipeline_gen, an exhaustive tiny scope, tagged maps and seeded
perturbations of the maps (dropped / duplicated / overlapping / out-of-range pieces, junk bait lists).  Errors are
allowed (the statement is conditional on completion); silent loss, duplication or invention is not.
"""

import random

from . import pipeline_gen as pg
from .common import Collector


def partition_problems(inp, out):
    """the statement, base by base"""
    count = {}
    owner = {}
    for ci, f in enumerate(pg.contigs(inp)):
        for pos in range(f[2], f[3] + 1):
            count[(f[1], pos)] = 0
            owner[(f[1], pos)] = ci
    problems = []
    for key, asm in out.items():
        for sc in asm["scaffolds"]:
            for r in sc["rows"]:
                if r[0] != "F":
                    continue
                invented = 0
                owners = set()
                for pos in range(r[2], r[3] + 1):
                    k = (r[1], pos)
                    if k in count:
                        count[k] += 1
                        owners.add(owner[k])
                    else:
                        invented += 1
                where = f"assembly {key!r} scaffold {sc['name']!r}"
                if invented:
                    problems.append(f"{invented} bp of output fragment {r[1]}:{r[2]}-{r[3]} ({where}) are in no input contig")
                elif len(owners) != 1:
                    problems.append(f"output fragment {r[1]}:{r[2]}-{r[3]} ({where}) spans {len(owners)} input contigs")
                if r[4] not in (1, -1, 0):
                    problems.append(f"output fragment {r[1]}:{r[2]}-{r[3]} has strand {r[4]!r}")

    def runs(test, what):
        run = None
        for (name, pos), c in sorted(count.items()):
            if test(c):
                if run and run[0] == name and run[2] == pos - 1:
                    run[2] = pos
                    continue
                if run:
                    problems.append(f"{what}: {run[0]}:{run[1]}-{run[2]}")
                run = [name, pos, pos]
        if run:
            problems.append(f"{what}: {run[0]}:{run[1]}-{run[2]}")

    runs(lambda c: c == 0, "input bases missing from every output")
    runs(lambda c: c > 1, "input bases present more than once")
    return problems


def check(case, col, stats=None):
    run = pg.run_case(case)
    if run.error is not None:
        if stats is not None:
            stats["errors"] = stats.get("errors", 0) + 1
        return run
    problems = partition_problems(case["input"], run.out)
    if problems:
        col.fail("remapping completed but the outputs do not partition the input: " + "; ".join(problems[:4]), case)
    return run


def replay(inp):
    col = Collector("replay")
    check(inp, col)
    return col.failures[0]["message"] if col.failures else None


TAG_POOL = (["Haplotig"], ["Contaminant"], ["FalseDuplicate"], ["Unloc"], ["X"], ["Hap1"], ["Hap2"], ["Target"], ["B1"], ["Singleton"])


def decorate(case, rng):
    """random tags on pieces (consistent or not: C01 only speaks about runs that complete)"""
    scs = [[[*p[:4], list(p[4])] for p in sc] for sc in case["map"]["scaffolds"]]
    for sc in scs:
        for p in sc:
            if rng.random() < 0.35:
                p[4].extend(rng.choice(TAG_POOL))
    return {**case, "map": {"bpt": case["map"]["bpt"], "scaffolds": scs}}


def run(tier, seed, **opts):
    rng = random.Random(seed)
    col = Collector(
        "PretextView-model edit scripts (pipeline_gen.model_cases: single scaffolds of <= 3 contigs over every length "
        "tuple, sub-texel contig runs, 2-3 scaffold inputs; cut/permuted/reoriented/regrouped, floor/ceil, sub-texel "
        "scaffolds absent or present, painted or not), the same with random tags, seeded perturbations (drop, "
        "duplicate, overlap, shift, out-of-range, junk baits) and an exhaustive tiny scope; oracle: per-base "
        "partition of the input contigs by all output assemblies; non-trivial = distinct case that completed "
        "without error and has >= 2 pieces or a perturbation"
    )
    stats = {}
    quick = tier == "quick"
    n = 0

    def one(case, fam, extra=None, nontrivial_hint=True):
        nonlocal n
        n += 1
        r = check(case, col, stats)
        nontrivial = r.error is None and nontrivial_hint
        sample = None
        if nontrivial and n % 977 == 0:
            sample = {"family": fam, **case}
        col.case(pg.case_key(case), nontrivial=nontrivial, sample=sample)
        stats[fam] = stats.get(fam, 0) + 1

    # exhaustive tiny scopes
    scopes = pg.tiny_scopes(tier)
    tiny_n = 0
    for kw in scopes:
        for case in pg.tiny_exhaustive(**kw):
            tiny_n += 1
            one(case, "tiny", nontrivial_hint=pg.n_cut_pieces(case) >= 2)
            if col.full:
                break
    for fam, case, _ in pg.model_cases(tier, rng):
        if col.full:
            break
        one(case, fam, nontrivial_hint=pg.n_cut_pieces(case) >= 2)
        roll = rng.random()
        if roll < 0.25:
            one(decorate(case, rng), fam + "+tags")
        if roll > 0.5:
            for pc, kinds in pg.perturbations(case, rng, 2):
                one(pc, "perturbed")
    return col.result(
        bounds=(
            "input: 1-3 scaffolds x 1-6 contigs, contig lengths from {1,2,7,12,40,150,400,1000}, gaps none/1/10/20/25/200, "
            "both strands, names fasta/own/offset, optional terminal gaps; texel sizes {1,2.5,10,33.3}; <= 3 cuts per "
            f"scaffold; tiny scopes ({tiny_n} cases: {pg.describe_scopes(scopes)}; both strands, every cut set / permutation / "
            "orientation / grouping, painted and unpainted) are enumerated fully, the rest is seeded sampling; "
            f"runs ending in an error: {stats.get('errors', 0)} (allowed); per family: "
            + ", ".join(f"{k}={v}" for k, v in sorted(stats.items()) if k != "errors")
        ),
        exhaustive=False,
    )
