"""
C01 bounded tier: whenever the remapping completes, the fragments of all output assemblies together partition the
input contigs base by base, and every output fragment is a sub-interval of one input contig under its name.
Driven over the PretextView-model case stream of pipeline_gen, an exhaustive tiny scope, tagged maps, seeded
perturbations of the maps (dropped / duplicated / overlapping / out-of-range pieces, junk bait lists) and an
enumeration of short contigs (around the texel error length) shared by two or three pieces that leave a hole in them.  Errors are
allowed (the statement is conditional on completion); silent loss, duplication or invention is not.

Two levels are judged with the same oracle:
  1. the dict of assemblies which BuildAssembly.assemblies_with_scaffolds_fused() returns (every case);
  2. for cases carrying "cli_out" (an --output file name) the FILES which the real command line (pretext-to-asm, run in
     process in a temporary directory that is removed) writes: every *.agp / *.tpf file found in the output directory
     is read with the small readers below (no project code) and the fragments of ALL files together have to partition
     the input contigs base by base - or the command has to end with a non-zero exit status.  Besides, the command
     announces every file it writes on STDERR ("Created: '<path>'"); in a fresh output directory an assembly file
     announced twice, or announced as "Overwrote", means that two assemblies were written to one path.
     A rotating share of all the cases above goes through this level, plus two case families made for it (cli_cases):
     single-haplotype maps whose unplaced scaffolds are named after 0-3 haplotype-like prefixes, and multi-haplotype
     maps (with and without a Primary tag) holding scaffolds with and without a haplotype; in both, tagged pieces of
     every kind, unplaced scaffolds present in / absent from the map, Target mode.
"""

import math
import pathlib
import random
import re
import tempfile

from . import cli_gen
from . import pipeline_gen as pg
from .common import Collector


def partition_problems(inp, out):
    """the statement, base by base"""
    count = {}
    owner = {}
    for ci, f in enumerate(pg.contigs(inp)):
        for pos in range(f[2], f[3] + 1):
            count[(f[1], pos)] = 0
            owner[(f[1], pos)] = ci
    problems = []
    for key, asm in out.items():
        for sc in asm["scaffolds"]:
            for r in sc["rows"]:
                if r[0] != "F":
                    continue
                invented = 0
                owners = set()
                for pos in range(r[2], r[3] + 1):
                    k = (r[1], pos)
                    if k in count:
                        count[k] += 1
                        owners.add(owner[k])
                    else:
                        invented += 1
                where = f"assembly {key!r} scaffold {sc['name']!r}"
                if invented:
                    problems.append(f"{invented} bp of output fragment {r[1]}:{r[2]}-{r[3]} ({where}) are in no input contig")
                elif len(owners) != 1:
                    problems.append(f"output fragment {r[1]}:{r[2]}-{r[3]} ({where}) spans {len(owners)} input contigs")
                if r[4] not in (1, -1, 0):
                    problems.append(f"output fragment {r[1]}:{r[2]}-{r[3]} has strand {r[4]!r}")

    def runs(test, what):
        run = None
        for (name, pos), c in sorted(count.items()):
            if test(c):
                if run and run[0] == name and run[2] == pos - 1:
                    run[2] = pos
                    continue
                if run:
                    problems.append(f"{what}: {run[0]}:{run[1]}-{run[2]}")
                run = [name, pos, pos]
        if run:
            problems.append(f"{what}: {run[0]}:{run[1]}-{run[2]}")

    runs(lambda c: c == 0, "input bases missing from every output")
    runs(lambda c: c > 1, "input bases present more than once")
    return problems


def check(case, col, stats=None):
    run = pg.run_case(case)
    if run.error is not None:
        if stats is not None:
            stats["errors"] = stats.get("errors", 0) + 1
    else:
        problems = partition_problems(case["input"], run.out)
        if problems:
            col.fail("remapping completed but the outputs do not partition the input: " + "; ".join(problems[:4]), case)
    if case.get("cli_out"):
        check_cli(case, col, stats)
    return run


def replay(inp):
    col = Collector("replay")
    check(inp, col)
    return col.failures[0]["message"] if col.failures else None


# --------------------------------------------------------------------------------------------------
# the command line: the files pretext-to-asm writes
# --------------------------------------------------------------------------------------------------

CLI_OUT_NAMES = ("asm.1.agp", "asm.1.tpf", "x.agp", "idTest1.2.tpf", "out.tpf", "mVulVul1.3.agp")
ANNOUNCED = re.compile(r"^\s*(Created|Overwrote): '(.*)'\s*$")


def read_agp(text):
    """scaffolds of a written AGP file as plain rows (hand-written reader, no project code)"""
    scaffolds = {}
    for line in text.splitlines():
        if not line.strip() or line.startswith("#"):
            continue
        cols = line.split("\t")
        rows = scaffolds.setdefault(cols[0], [])
        if cols[4] in ("U", "N"):
            rows.append(("G", int(cols[5]), cols[6]))
        else:
            rows.append(("F", cols[5], int(cols[6]), int(cols[7]), {"+": 1, "-": -1}.get(cols[8], 0), tuple(c for c in cols[9:] if c)))
    return [{"name": n, "rows": r} for n, r in scaffolds.items()]


def read_tpf(text):
    """scaffolds of a written TPF file as plain rows (hand-written reader, no project code)"""
    scaffolds = {}
    last = None
    pending = []
    for line in text.splitlines():
        if not line.strip() or line.startswith("#"):
            continue
        cols = line.split("\t")
        if cols[0] == "GAP":
            gap = ("G", int(cols[2]), {"TYPE-2": "scaffold", "TYPE-3": "contig"}.get(cols[1], cols[1]))
            (scaffolds[last] if last is not None else pending).append(gap)
            continue
        name, span = cols[1].rsplit(":", 1)
        start, end = span.split("-")
        rows = scaffolds.setdefault(cols[2], [])
        rows.extend(pending)
        pending = []
        rows.append(("F", name, int(start), int(end), {"PLUS": 1, "MINUS": -1}.get(cols[3], 0), ()))
        last = cols[2]
    return [{"name": n, "rows": r} for n, r in scaffolds.items()]


def run_cli(case):
    """
    the case through the real command line: -a <input as AGP or TPF text> -p <PretextView AGP> -o <tmp>/out/<cli_out>
    -c <prefix> into an empty output directory.
    -> (exit code, error text, {file name: {"scaffolds": [...]}} for EVERY .agp / .tpf file in the output directory,
        [(verb, file name)] as announced on STDERR)
    """
    out_name = case["cli_out"]
    with tempfile.TemporaryDirectory() as d:
        d = pathlib.Path(d)
        if case.get("via") == "tpf" and pg.tpf_ok(case["input"]):
            asm = d / "asm.tpf"
            asm.write_text(pg.input_tpf_text(case["input"]))
        else:
            asm = d / "asm.agp"
            asm.write_text(pg.input_agp_text(case["input"]))
        (d / "pretext.agp").write_text(pg.pretext_agp_text(case["map"]))
        out_dir = d / "out"
        out_dir.mkdir()
        args = ["-a", asm, "-p", d / "pretext.agp", "-o", out_dir / out_name, "-c", case.get("prefix", "SUPER_"), "--no-write-log", "-l", "ERROR"]
        code, _, err, exc = cli_gen.run_pretext_to_asm(args)
        files = {}
        for p in sorted(out_dir.iterdir()):
            ext = p.suffix.lower()
            if p.is_file() and ext in (".agp", ".tpf"):
                text = p.read_text()
                files[p.name] = {"scaffolds": read_agp(text) if ext == ".agp" else read_tpf(text)}
        announced = []
        for line in (err or "").splitlines():
            if m := ANNOUNCED.match(line):
                announced.append((m.group(1), pathlib.Path(m.group(2)).name))
    return code, ((exc or "") + " " + (err or "")).strip()[-300:], files, announced


def cli_problems(case, files, announced):
    """the statement over the files of a run that completed"""
    problems = []
    said = {}
    for verb, name in announced:
        if not name.lower().endswith((".agp", ".tpf")):
            continue
        said[name] = said.get(name, 0) + 1
        if said[name] == 2 or (verb == "Overwrote" and said[name] == 1):
            problems.append(f"two assemblies were written to one path: {name!r} was announced {verb!r} in an empty output directory; what was written there first is gone")
    return problems + partition_problems(case["input"], files)


def check_cli(case, col, stats=None):
    code, err, files, announced = run_cli(case)
    if stats is not None:
        stats["cli"] = stats.get("cli", 0) + 1
    if code != 0:
        # "ends in an error": allowed
        if stats is not None:
            stats["cli_errors"] = stats.get("cli_errors", 0) + 1
        return
    problems = cli_problems(case, files, announced)
    if problems:
        col.fail(
            f"pretext-to-asm -o {case['cli_out']} completed (exit 0) but the {len(files)} assembly file(s) it wrote "
            f"({', '.join(files) or 'none'}) do not partition the input: " + "; ".join(problems[:4]),
            case,
        )


TAG_POOL = (["Haplotig"], ["Contaminant"], ["FalseDuplicate"], ["Unloc"], ["X"], ["Hap1"], ["Hap2"], ["Target"], ["B1"], ["Singleton"])


def decorate(case, rng):
    """random tags on pieces (consistent or not: C01 only speaks about runs that complete)"""
    scs = [[[*p[:4], list(p[4])] for p in sc] for sc in case["map"]["scaffolds"]]
    for sc in scs:
        for p in sc:
            if rng.random() < 0.35:
                p[4].extend(rng.choice(TAG_POOL))
    return {**case, "map": {"bpt": case["map"]["bpt"], "scaffolds": scs}}


# --------------------------------------------------------------------------------------------------
# short contigs shared by two or three pieces that do not abut inside them
# --------------------------------------------------------------------------------------------------
# "Whatever the Pretext file says": pieces whose ends were nudged off the texel grid leave a stretch of a contig that
# no piece claims (a hole), or claim a stretch twice.  When the contig is about as long as the texel error length
# E = 1 + floor(bp per texel), every piece's share of it is of the order of the tolerance, which is where a remapping
# is most tempted to give the contig away.  The statement does not care who gets it, only that exactly one output
# fragment holds each of its bases, or that the run ends in an error.

HOLE_BPTS = {"quick": (1.0, 2.5, 10.0, 33.3), "thorough": (1.0, 2.5, 4.0, 7.5, 10.0, 33.3, 100.0)}


def err_len(bpt):
    return 1 + math.floor(bpt)


def share_marks(E, full):
    """lengths of a piece's share of the short contig: everything up to E + 2 (small E), else around 1, E/2 and E"""
    if full:
        return list(range(1, E + 3))
    return sorted({1, 2, E // 2, E - 2, E - 1, E, E + 1})


def hole_marks(E, full):
    """unclaimed bases between two pieces (negative: claimed twice)"""
    if full:
        return list(range(-1, 2 * E + 1))
    return sorted({-1, 0, 1, 2, E // 2, E - 1, E, E + 1, 2 * E})


def hole_geometry(position, K, L, gap, strands, naming):
    """
    one input scaffold with a short contig of L bp at its start / end / between two long contigs of K bp;
    -> (scaffold, first base of the short contig in the scaffold, scaffold length)
    """
    lens = {"start": [L, K], "end": [K, L], "middle": [K, L, K], "run": [K, L, L, K]}[position]
    k = len(lens)
    sc = pg.make_scaffold("scaffold_1", lens, strands[:k], [gap] * (k - 1), naming, tag="1")
    s0 = 1 if position == "start" else K + (gap[0] if gap else 0) + 1
    return sc, s0, pg.rows_len(sc["rows"])


def hole_pieces(position, s0, L, total, shares, holes):
    """
    the pieces over scaffold_1: shares = (a, [m, ...], b) bases of the short contig for the pieces in scaffold order,
    holes = unclaimed bases between consecutive pieces.  The first piece starts at the scaffold start, the last ends
    at the scaffold end (position 'end': at the end of the short contig, which is the scaffold end).  None if the
    shares and holes do not fit the contig.
    """
    if sum(shares) + sum(holes) != L:
        return None
    pieces = []
    pos = s0
    last = len(shares) - 1
    for i, share in enumerate(shares):
        start = 1 if i == 0 else pos
        end = total if i == last else pos + share - 1
        if end < start or end > total or (pieces and start <= pieces[-1][1]):
            return None
        pieces.append(["scaffold_1", start, end])
        if i < last:
            pos += share + holes[i]
            if pos < s0:
                return None
    return pieces


def hole_cases(tier, rng):
    """
    Yields (family, case).  Families
      hole2-<position>   two pieces share the short contig: a bp to the first, h unclaimed (h < 0: claimed twice), b to
                         the second; a, b, h from share_marks / hole_marks of every texel size, short contig of
                         a + h + b bp (so below, at and above E and 2E) at the scaffold start, end, or in the middle
      hole3-<position>   three pieces: a, h1, m (a piece wholly inside the contig), h2, b
      hole2-run          two short contigs in a row, the second one untouched by the hole
    per combination `reps` seeded variants of: long-contig length, gap between contigs, strands, naming, an extra
    texel-grid cut in the long left contig, arrangement (order / orientation / grouping of the pieces) and paint.
    """
    quick = tier == "quick"
    reps = 1 if quick else 3
    i = 0
    for bpt in HOLE_BPTS[tier]:
        E = err_len(bpt)
        full = E <= 3 or (not quick and E <= 5)
        A = share_marks(E, full)
        H = hole_marks(E, full)
        combos = [("hole2", (a, b), (h,)) for a in A for b in A for h in H]
        small = sorted({1, E - 1, E + 1})
        combos += [
            ("hole3", (a, m, b), (h1, h2))
            for a in small
            for m in small
            for b in small
            for h1 in sorted({0, E - 1} if quick else {0, 1, E - 1})
            for h2 in sorted({0, E - 1} if quick else {0, 1, E - 1})
        ]
        for ci, (fam, shares, holes) in enumerate(combos):
            L = sum(shares) + sum(holes)
            if L < 1 or min(shares) < 1:
                continue
            if not quick:
                positions = ("middle", "end", "start", "run") if fam == "hole2" else ("middle", "end", "start")
            elif fam == "hole3":
                positions = ("middle",)
            else:
                # quick: the middle always; scaffold ends for every combination when E <= 3, else alternating
                positions = ("middle", "end", "start") if full else ("middle", ("end", "start")[ci % 2])
                if L % 3 == 0:
                    positions = (*positions, "run")
            for position in positions:
                for _ in range(reps):
                    K = rng.choice((math.ceil(4 * bpt) + 1, 6 * E + 1))
                    gap = rng.choice((None, None, None, (1, "contig"), (max(1, E // 2), "scaffold"), (E, "scaffold")))
                    strands = [rng.choice((1, 1, -1)) for _ in range(4)]
                    naming = rng.choice(("own", "own", "fasta", "offset"))
                    sc, s0, total = hole_geometry(position, K, L, gap, strands, naming)
                    pieces = hole_pieces(position, s0, L, total, shares, holes)
                    if pieces is None:
                        continue
                    if position != "start" and rng.random() < 0.25:
                        # one more piece, cut off the long left contig on the texel grid
                        s, e = pg.texel_piece(0, 2, bpt)
                        if e + 1 < pieces[0][2] and e < K:
                            pieces[0][1] = e + 1
                            pieces.insert(0, ["scaffold_1", s, e])
                    k = len(pieces)
                    arr = rng.choice(pg.ALL_ARRANGEMENTS[k]) if k <= 3 else pg.random_arrangement(k, rng)
                    if rng.random() < 0.3:
                        # as PretextView would list them if nothing had been moved: every piece its own scaffold
                        arr = (tuple(range(k)), (1,) * k, (1,) * k)
                    painted = [rng.random() < 0.5 for _ in arr[2]]
                    mp = {"bpt": bpt, "scaffolds": pg.arrange(pieces, arr, painted)}
                    i += 1
                    inp = [sc]
                    yield f"{fam}-{position}", {"input": inp, "map": mp, "prefix": "SUPER_", "via": pg.pick_via(inp, i)}


def run(tier, seed, **opts):
    rng = random.Random(seed)
    col = Collector(
        "PretextView-model edit scripts (pipeline_gen.model_cases: single scaffolds of <= 3 contigs over every length "
        "tuple, sub-texel contig runs, 2-3 scaffold inputs; cut/permuted/reoriented/regrouped, floor/ceil, sub-texel "
        "scaffolds absent or present, painted or not), the same with random tags, seeded perturbations (drop, "
        "duplicate, overlap, shift, out-of-range, junk baits), an exhaustive tiny scope, and short-contig hole "
        "scenarios (hole_cases: a contig of a + h + b bp at the scaffold start / end / middle, shared by two or three "
        "pieces with shares a, b around 1, E/2 and E = 1 + floor(bp per texel) and h unclaimed or doubly claimed "
        "bases between them; every value up to E + 2 resp. 2E for E <= 3); oracle: per-base "
        "partition of the input contigs by all output assemblies; non-trivial = distinct case that completed "
        "without error and has >= 2 pieces or a perturbation"
    )
    stats = {}
    quick = tier == "quick"
    n = 0

    def one(case, fam, extra=None, nontrivial_hint=True):
        nonlocal n
        n += 1
        r = check(case, col, stats)
        nontrivial = r.error is None and nontrivial_hint
        sample = None
        if nontrivial and n % 977 == 0:
            sample = {"family": fam, **case}
        col.case(pg.case_key(case), nontrivial=nontrivial, sample=sample)
        stats[fam] = stats.get(fam, 0) + 1

    # exhaustive tiny scopes
    scopes = pg.tiny_scopes(tier)
    tiny_n = 0
    for kw in scopes:
        for case in pg.tiny_exhaustive(**kw):
            tiny_n += 1
            one(case, "tiny", nontrivial_hint=pg.n_cut_pieces(case) >= 2)
            if col.full:
                break
    for fam, case, _ in pg.model_cases(tier, rng):
        if col.full:
            break
        one(case, fam, nontrivial_hint=pg.n_cut_pieces(case) >= 2)
        roll = rng.random()
        if roll < 0.25:
            one(decorate(case, rng), fam + "+tags")
        if roll > 0.5:
            for pc, kinds in pg.perturbations(case, rng, 2):
                one(pc, "perturbed")
    # short contigs shared by pieces that leave a hole (or overlap) inside them
    for fam, case in hole_cases(tier, rng):
        if col.full:
            break
        one(case, fam)
        if rng.random() < (0.05 if quick else 0.15):
            one(decorate(case, rng), "hole+tags")
    return col.result(
        bounds=(
            "input: 1-3 scaffolds x 1-6 contigs, contig lengths from {1,2,7,12,40,150,400,1000}, gaps none/1/10/20/25/200, "
            "both strands, names fasta/own/offset, optional terminal gaps; texel sizes {1,2.5,10,33.3}; <= 3 cuts per "
            f"scaffold; hole scenarios at texel sizes {list(HOLE_BPTS[tier])}, long contigs of 4-6 texels, gaps none/1/E/2/E; "
            f"tiny scopes ({tiny_n} cases: {pg.describe_scopes(scopes)}; both strands, every cut set / permutation / "
            "orientation / grouping, painted and unpainted) are enumerated fully, the rest is seeded sampling; "
            f"runs ending in an error: {stats.get('errors', 0)} (allowed); per family: "
            + ", ".join(f"{k}={v}" for k, v in sorted(stats.items()) if k != "errors")
        ),
        exhaustive=False,
    )
