"""
C03 bounded tier: FASTA written from an assembly == the assembly's rows applied to the input FASTA.

Direct part: FastaStream.write_scaffold / write_assembly over generated FASTA files (all layouts) and
assemblies whose rows lie within the indexed sequences: every interval x strands +,-,? x buffer sizes x output
line lengths for single-row scaffolds, gaps 0..several buffers, and multi-row / multi-scaffold assemblies.
Oracle (bounded/fasta_gen.py): the record must be the concatenation of the intervals of the *model* residue
strings (reverse-complemented base by base with an independent case-preserving IUPAC table for minus rows),
gaps as N, wrapped at the line length with no empty, short-but-not-last or over-long line; record names and
order equal scaffold names and order.

End-to-end part: the pretext-to-asm command (click CliRunner) on a generated FASTA and a small Pretext AGP
with --output x.fa: every *.fa written equals its companion *.agp (read here by splitting on tabs) applied to
the model of the input FASTA, AGP object lengths equal record lengths, record names are unique.
"""

import io
import random

from tola.assembly.assembly import Assembly
from tola.fasta.index import FastaIndex, index_fasta_file
from tola.fasta.stream import FastaStream

from . import fasta_gen as G
from .common import Collector, scaffold_from

R1 = b"AcgRtNnYKtGC"  # 12 = 3 x 4 = 2 x 6: exact multiple of widths 1,2,3,4
R2 = b"tTGmc"  # 5: one full line at width 5
R3 = b"a"


def close_index(fi):
    fh = fi.__dict__.pop("fasta_fileandle", None)
    if fh is not None:
        fh.close()


def base_case(width, eol, fin):
    recs = [G.Rec("s1", R1, b" d "), G.Rec("s2", R2), G.Rec("s3", R3, b" x")]
    if not fin:
        # without a final newline the multi-line record goes last: its last line is the unterminated one
        recs = recs[1:] + recs[:1]
    return G.FastaCase(recs, width, eol, fin)


def make_index(path, bs, idx):
    fi = FastaIndex(path, bs)
    fi.index = idx
    return fi


def stream_check(fi, seqs, scaffolds, line_length, use_assembly):
    """scaffolds: [(name, [row spec])] -> messages"""
    out = io.BytesIO()
    fs = FastaStream(out, fi, line_length=line_length)
    objs = [scaffold_from(name, specs) for name, specs in scaffolds]
    try:
        if use_assembly:
            fs.write_assembly(Assembly("a", scaffolds=objs))
        else:
            for sc in objs:
                fs.write_scaffold(sc)
    except Exception as e:  # noqa: BLE001
        return [f"streaming raised {e!r} for rows that lie within the indexed sequences"]
    want = [(name, G.apply_rows(seqs, specs)) for name, specs in scaffolds]
    return G.compare_written_fasta(out.getvalue(), want, line_length)


def replay(inp):
    with G.quiet_logging(), G.workdir() as d:
        if inp["kind"] == "cli":
            if "gen" in inp:
                case, ptxt, _ = G.random_cli_case(random.Random(inp["gen"]), big=True)
            else:
                case, ptxt = G.FastaCase.from_spec(inp["case"]), inp["pretext"]
            msgs, _ = check_cli(d, case, ptxt)
            return msgs[0] if msgs else None
        case = G.FastaCase.from_spec(inp["case"])
        path = d / "r.fa"
        case.write(path)
        try:
            idx, _ = index_fasta_file(path, inp["index_buffer"])
        except Exception as e:  # noqa: BLE001
            return f"index_fasta_file raised {e!r}"
        fi = make_index(path, inp["buffer"], idx)
        try:
            msgs = stream_check(fi, case.seqs(), [(n, s) for n, s in inp["scaffolds"]], inp["line_length"], inp.get("assembly", False))
        finally:
            close_index(fi)
        return msgs[0] if msgs else None


def check_cli(tmp, case, pretext_text):
    """-> (messages, number of FASTA records checked); a non-zero exit status is an allowed outcome"""
    res = G.run_pretext_cli(tmp, case.data(), pretext_text, output="x.fa")
    if res["exception"]:
        return [f"pretext-to-asm raised {res['exception']} (partial output left behind)"], 0
    if res["exit_code"] != 0:
        return [], 0
    msgs = []
    seqs = case.seqs()
    n_records = 0
    fastas = [n for n in res["files"] if n.startswith("x.") and n.endswith(".fa")]
    if not fastas:
        msgs.append("pretext-to-asm exited 0 with --output x.fa but wrote no FASTA file")
    for fa in fastas:
        agp_name = fa[: -len(".fa")] + ".agp"
        if agp_name not in res["files"]:
            msgs.append(f"{fa}: no companion {agp_name} written")
            continue
        objects, problems = G.parse_agp_text(res["files"][agp_name].decode())
        msgs += [f"{agp_name}: {p}" for p in problems]
        want = []
        for name, rows in objects:
            m, end, specs = G.check_agp_object(name, rows)
            msgs += [f"{agp_name}: {x}" for x in m]
            try:
                seq = G.apply_rows(seqs, specs)
            except (ValueError, KeyError) as e:
                msgs.append(f"{agp_name}: object {name} has a row outside the input FASTA: {e}")
                continue
            if end != len(seq):
                msgs.append(f"{agp_name}: object {name} ends at {end} but its rows denote {len(seq)} residues")
            want.append((name, seq))
        records, _ = G.parse_written_fasta(res["files"][fa])
        names = [h for h, _ in records]
        if len(set(names)) != len(names):
            msgs.append(f"{fa}: record names are not unique: {names}")
        for (h, lines), (name, seq) in zip(records, want):
            n_records += 1
            if h == name and sum(map(len, lines)) != len(seq):
                msgs.append(f"{fa}: record {h} has {sum(map(len, lines))} residues, AGP object length is {len(seq)}")
        msgs += [f"{fa} vs {agp_name}: {m}" for m in G.compare_written_fasta(res["files"][fa], want, 60)]
    return msgs, n_records


def run(tier, seed, **opts):
    rng = random.Random(seed)
    quick = tier == "quick"
    col = Collector(
        "direct: 3-record FASTA (12, 5, 1 residues, mixed-case IUPAC) in every layout (widths 1..5,60 x LF/CRLF x "
        "final newline) x every interval x strand +,-,? x buffer sizes x output line lengths as single-row scaffolds; "
        "gap-only scaffolds (length 0..3 buffers+2); random multi-row, multi-scaffold assemblies over random FASTA "
        "files; end to end: pretext-to-asm on random FASTA + Pretext AGP.  One evaluation = one streamed assembly or "
        "one CLI run; non-trivial = distinct (file, assembly, buffer, line length) with at least one non-empty record "
        "(CLI: run exited 0 and wrote records)"
    )
    line_lengths_all = (1, 2, 3, 5, 7, 60)
    with G.quiet_logging(), G.workdir() as d:
        path = d / "t.fa"
        # ---- 1. single-row scaffolds, exhaustive intervals
        n = 0
        for w, eol, fin in G.layouts():
            case = base_case(w, eol, fin)
            spec = case.spec()
            seqs = case.seqs()
            case.write(path)
            try:
                idx, _ = index_fasta_file(path, 250_000)
            except Exception as e:  # noqa: BLE001
                col.fail(f"index_fasta_file raised {e!r}", {"kind": "stream", "case": spec, "index_buffer": 250_000, "buffer": 1, "scaffolds": [], "line_length": 60})
                continue
            if quick:
                buffers = sorted({1, 2, 3, w - 1, w, w + 1, 5, 11, 12, 13, 250_000} - {0})
            else:
                buffers = [*range(1, 15), 250_000]
            for bs in buffers:
                fi = make_index(path, bs, idx)
                try:
                    for r in case.records:
                        L = len(r.seq)
                        for s in range(1, L + 1):
                            for e in range(s, L + 1):
                                for strand in (1, -1, 0):
                                    n += 1
                                    lls = line_lengths_all if not quick else (60, line_lengths_all[n % 5])
                                    for ll in lls:
                                        scs = [(f"x{n % 7}", [["F", r.name, s, e, strand]])]
                                        msgs = stream_check(fi, seqs, scs, ll, False)
                                        inp = {"kind": "stream", "case": spec, "index_buffer": 250_000, "buffer": bs, "scaffolds": scs, "line_length": ll}
                                        if msgs:
                                            col.fail(msgs[0], inp)
                                        col.case((case.key(), bs, ll, r.name, s, e, strand), sample=inp if n == 4000 else None)
                        if col.full:
                            break
                finally:
                    close_index(fi)
                if col.full:
                    break
            G.remove_with_caches(path)
            if col.full:
                break
        # ---- 2. gap-only and gap-flanked scaffolds
        case = base_case(3, b"\n", True)
        seqs = case.seqs()
        case.write(path)
        idx, _ = index_fasta_file(path, 250_000)
        for bs in range(1, 9 if quick else 14):
            fi = make_index(path, bs, idx)
            try:
                for glen in range(0, 3 * bs + 3):
                    for ll in (1, 2, 3, 5, 60) if quick else line_lengths_all:
                        for shape in range(3):
                            if shape == 0:
                                rows = [["G", glen, "scaffold"]]
                            elif shape == 1:
                                rows = [["F", "s2", 1, 5, -1], ["G", glen, "scaffold"], ["F", "s1", 3, 9, 1]]
                            else:
                                rows = [["G", glen, "contig"], ["F", "s3", 1, 1, 0], ["G", glen, "scaffold"]]
                            scs = [("g", rows)]
                            msgs = stream_check(fi, seqs, scs, ll, True)
                            inp = {"kind": "stream", "case": case.spec(), "index_buffer": 250_000, "buffer": bs, "scaffolds": scs, "line_length": ll, "assembly": True}
                            if msgs:
                                col.fail(msgs[0], inp)
                            col.case(("gap", bs, glen, ll, shape), nontrivial=glen > 0 or shape > 0, sample=inp if (bs, glen, ll, shape) == (2, 5, 3, 1) else None)
            finally:
                close_index(fi)
        G.remove_with_caches(path)
        # ---- 3. random multi-row, multi-scaffold assemblies over random files
        for k in range(400 if quick else 10000):
            if col.full:
                break
            case = G.random_case(rng, max_len=90 if quick else 300)
            seqs = case.seqs()
            case.write(path)
            ibs = rng.choice((1, 2, 3, 7, 250_000))
            try:
                idx, _ = index_fasta_file(path, ibs)
            except Exception as e:  # noqa: BLE001
                col.fail(f"index_fasta_file raised {e!r}", {"kind": "stream", "case": case.spec(), "index_buffer": ibs, "buffer": 1, "scaffolds": [], "line_length": 60})
                G.remove_with_caches(path)
                continue
            for _rep in range(6):
                bs = rng.choice((1, 2, 3, 4, 5, 7, 11, case.width - 1 or 1, case.width, case.width + 1, 59, 60, 61, 250_000))
                scs = []
                for si in range(rng.randint(1, 3)):
                    rows = []
                    for _ in range(rng.randint(0, 5)):
                        if rng.random() < 0.3:
                            rows.append(["G", rng.choice((0, 1, 2, bs - 1, bs, bs + 1, 2 * bs, 3 * bs + 1, 200)), "scaffold"])
                        else:
                            r = rng.choice(case.records)
                            L = len(r.seq)
                            s = rng.choice((1, rng.randint(1, L), max(1, L - case.width)))
                            e = rng.choice((L, rng.randint(s, L), min(L, s + bs - 1), min(L, s + bs), min(L, s + case.width - 1)))
                            rows.append(["F", r.name, s, e, rng.choice((1, 1, -1, -1, 0)), ["Painted"] if rng.random() < 0.2 else []])
                    scs.append((f"sc{si + 1}", rows))
                ll = rng.choice((60, 60, 1, 2, 3, 7, 61, case.width))
                fi = make_index(path, bs, idx)
                try:
                    msgs = stream_check(fi, seqs, scs, ll, True)
                finally:
                    close_index(fi)
                inp = {"kind": "stream", "case": case.spec(), "index_buffer": ibs, "buffer": bs, "scaffolds": scs, "line_length": ll, "assembly": True}
                if msgs:
                    col.fail(msgs[0], inp)
                total = sum(G.spec_length(s) for _, rows in scs for s in rows)
                col.case((case.key(), bs, ll, repr(scs)), nontrivial=total > 0, sample=inp if k == 3 and _rep == 0 else None)
            G.remove_with_caches(path)
        # ---- 4. end to end through the pretext-to-asm command
        n_cli = 40 if quick else 1200
        for k in range(n_cli):
            if col.full:
                break
            big = k == 1 or (not quick and k % 300 == 1)
            gen = f"c03-{seed}-{k}"
            case, ptxt, _ = G.random_cli_case(random.Random(gen) if big else rng, big=big)
            sub = d / f"cli{k}"
            sub.mkdir()
            msgs, nrec = check_cli(sub, case, ptxt)
            for p in sub.iterdir():
                p.unlink()
            sub.rmdir()
            # the large input is rebuilt from its generator seed instead of being stored (1 MB of residues)
            inp = {"kind": "cli", "gen": gen} if big else {"kind": "cli", "case": case.spec(), "pretext": ptxt}
            if msgs:
                col.fail(msgs[0], inp)
            col.case(("cli", case.key(), ptxt), nontrivial=nrec > 0, sample=inp if k == 0 else None)
    return col.result(
        bounds=(
            "direct: records of 12/5/1 residues in 24 layouts, all intervals, 3 strands, buffers "
            + ("1,2,3,width-1..width+1,5,11,12,13,250000" if quick else "1..14,250000")
            + ", line lengths "
            + ("60 and one of 1,2,3,5,7" if quick else "1,2,3,5,7,60")
            + f"; gaps 0..3*buffer+2 for buffers 1..{8 if quick else 13}; {400 if quick else 10000} random files x 6 random assemblies "
            f"(<= 3 scaffolds x <= 5 rows); {n_cli} pretext-to-asm runs (2-4 records, contigs 40-400, one input with 250000 / 500001 N runs "
            "and a 300017-residue contig to cross the command's fixed 250000 buffer)"
        ),
        exhaustive=False,
    )
