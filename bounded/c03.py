"""
C03 bounded tier: FASTA written from an assembly == the assembly's rows applied to the input FASTA.

Direct part: FastaStream.write_scaffold / write_assembly over generated FASTA files (all layouts) and
assemblies whose rows lie within the indexed sequences: every interval x strands +,-,? x buffer sizes x output
line lengths for single-row scaffolds, gaps 0..several buffers, and multi-row / multi-scaffold assemblies.
Oracle (bounded/fasta_gen.py): the record must be the concatenation of the intervals of the *model* residue
strings (reverse-complemented base by base with an independent case-preserving IUPAC table for minus rows),
gaps as N, wrapped at the line length with no empty, short-but-not-last or over-long line; record names and
order equal scaffold names and order.

End-to-end part: the pretext-to-asm command (click CliRunner) on a generated FASTA and a small Pretext AGP
with --output x.fa: every *.fa written equals its companion *.agp (read here by splitting on tabs) applied to
the model of the input FASTA, AGP object lengths equal record lengths, record names are unique.

Left-over index files part: "the input FASTA" of the statement is the file as it is *now*.  The same two routes
(FastaIndex.auto_load + FastaStream, and the command) are run with <fasta>.fai / <fasta>.agp already lying beside
the FASTA in every freshness state: each file absent / older / same time stamp / newer than the FASTA (times set
with os.utime on a FASTA 0.9 s into a second, so that "older within the same second" occurs), and written by an
indexing run either on the current content or on earlier content of the same path (re-wrapped, header of a
different length, other residues/lengths, fewer records).  Only when both files are strictly newer than the FASTA
may they be used, so only then are they required to stem from the current content; in every other state their
content is arbitrary.  The oracle is the one above, over the model of the current content; an error is an
allowed outcome of a load, but the command must not fail only because such files are present.

Several output assemblies part: "every FASTA file written" by one run of the command.  Pretext AGPs whose tags
(Haplotig / Contaminant / FalseDuplicate, Hap1 / Hap2 with and without Primary, Target) split the result into
two or more output assemblies; every x.*.fa is judged against the x.*.agp of the same name beside it as above, the
.fa and .agp files of a run pair up one to one, and "the AGP beside the FASTA lists the same rows [as the
assembly]": its objects and rows equal those of the file of that name written by the same command with
--output x.agp (the command's own AGP rendering of that assembly).  The Primary tag is only put where --help says it
goes, on the first Painted scaffold of its haplotype in the map.  One input record cut into pieces
that carry the same Haplotig / Contaminant / FalseDuplicate tag and different haplotype tags is generated (mode
"split"; also by chance in mode "haps+extra"): the pieces go to the one file of the tag, where record names are
unique (they come out as one scaffold; /repo 47974e9 repaired two scaffolds of one name in x.1.contaminants.fa /
x.1.falseduplicates.fa).  Side condition of the statement, not generated: a Primary tag anywhere else than --help
puts it (e.g. [scaffold_1 Painted Hap1], [scaffold_2:1-40 Painted Hap2], [scaffold_2:41-80 Painted Hap1 Primary]
writes two records named SUPER_1 into x.1.all_haplotigs.curated.fa), and maps with three or more haplotypes.

State carried between calls part: a FastaIndex outlives a FastaStream.  Several streams are written one after the
other through one FastaIndex object (and through a second index object on the same file), differing in gap
character (the default, b"N", b"n", b"-", b"x"), line length and strands, with the same gap lengths and intervals
recurring; every stream is judged on its own: gaps are that many N, or that many of the stream's own gap
character where the stream was configured with one.
"""

import io
import os
import pathlib
import random
import shutil

from tola.assembly.assembly import Assembly
from tola.fasta.index import FastaIndex, index_fasta_file
from tola.fasta.stream import FastaStream

from . import fasta_gen as G
from .common import Collector, row_spec, scaffold_from

R1 = b"AcgRtNnYKtGC"  # 12 = 3 x 4 = 2 x 6: exact multiple of widths 1,2,3,4
R2 = b"tTGmc"  # 5: one full line at width 5
R3 = b"a"


def close_index(fi):
    fh = fi.__dict__.pop("fasta_fileandle", None)
    if fh is not None:
        fh.close()


def base_case(width, eol, fin):
    recs = [G.Rec("s1", R1, b" d "), G.Rec("s2", R2), G.Rec("s3", R3, b" x")]
    if not fin:
        # without a final newline the multi-line record goes last: its last line is the unterminated one
        recs = recs[1:] + recs[:1]
    return G.FastaCase(recs, width, eol, fin)


def make_index(path, bs, idx):
    fi = FastaIndex(path, bs)
    fi.index = idx
    return fi


def stream_check(fi, seqs, scaffolds, line_length, use_assembly, gap=None):
    """scaffolds: [(name, [row spec])] -> messages; gap: the stream's gap character (str), None = not configured"""
    out = io.BytesIO()
    if gap is None:
        fs = FastaStream(out, fi, line_length=line_length)
    else:
        fs = FastaStream(out, fi, line_length=line_length, gap_character=gap.encode("latin-1"))
    objs = [scaffold_from(name, specs) for name, specs in scaffolds]
    try:
        if use_assembly:
            fs.write_assembly(Assembly("a", scaffolds=objs))
        else:
            for sc in objs:
                fs.write_scaffold(sc)
    except Exception as e:  # noqa: BLE001
        return [f"streaming raised {e!r} for rows that lie within the indexed sequences"]
    gap_bytes = b"N" if gap is None else gap.encode("latin-1")
    want = [(name, G.apply_rows(seqs, specs, gap_bytes)) for name, specs in scaffolds]
    return G.compare_written_fasta(out.getvalue(), want, line_length)


def describe_gap(gap):
    return "the default gap character" if gap is None else f"gap_character={gap.encode('latin-1')!r}"


def streams_check(path, idx, bs, seqs, steps):
    """
    steps: [{"scaffolds", "line_length", "assembly", "gap": None | str, "index": 0 | 1}] written one after the other;
    steps with the same "index" share one FastaIndex object (two objects on the same file).  Each stream is judged
    on its own.  -> messages
    """
    fis = {}
    try:
        for i, st in enumerate(steps):
            fi = fis.get(st["index"])
            if fi is None:
                fi = fis[st["index"]] = make_index(path, bs, idx)
            msgs = stream_check(fi, seqs, [(n, r) for n, r in st["scaffolds"]], st["line_length"], st["assembly"], st["gap"])
            if msgs:
                before = [f"{describe_gap(p['gap'])} on {'the same' if p['index'] == st['index'] else 'another'} FastaIndex object" for p in steps[:i]]
                pre = f"stream {i + 1} of {len(steps)} ({describe_gap(st['gap'])}, line length {st['line_length']}, buffer {bs})"
                pre += f" after earlier streams [{'; '.join(before)}]: " if before else ": "
                return [pre + m for m in msgs]
    finally:
        for fi in fis.values():
            close_index(fi)
    return []


def single_step(scaffolds, line_length, use_assembly):
    return {"scaffolds": scaffolds, "line_length": line_length, "assembly": use_assembly, "gap": None, "index": 0}


def with_history(path, idx, bs, seqs, history, step, msgs, inp):
    """
    a failure seen on a FastaIndex object that has served earlier streams: when the stream alone (fresh index object)
    is right, the recorded input is the sequence of streams that leads to it -> (messages, input)
    """
    if not history or streams_check(path, idx, bs, seqs, [step]):
        return msgs, inp
    for tail in (history[-12:], history):
        steps = [*tail, step]
        again = streams_check(path, idx, bs, seqs, steps)
        if again:
            return again, {"kind": "streams", "case": inp["case"], "index_buffer": inp["index_buffer"], "buffer": bs, "steps": steps}
    return msgs, inp


def replay(inp):
    with G.quiet_logging(), G.workdir() as d:
        if inp["kind"] == "cli":
            if "gen" in inp:
                case, ptxt, _ = G.random_cli_case(random.Random(inp["gen"]), big=True)
            else:
                case, ptxt = G.FastaCase.from_spec(inp["case"]), inp["pretext"]
            if inp.get("multi"):
                msgs, _, _ = check_cli_multi(d, case, ptxt)
            elif "cache" in inp:
                msgs, _ = check_cli_cached(d, case, ptxt, inp["cache"])
            else:
                msgs, _ = check_cli(d, case, ptxt)
            return msgs[0] if msgs else None
        case = G.FastaCase.from_spec(inp["case"])
        if inp["kind"] == "cached-stream":
            msgs, _ = check_cached_stream(d, case, inp["cache"], inp["buffer"], inp["line_length"])
            return msgs[0] if msgs else None
        path = d / "r.fa"
        case.write(path)
        try:
            idx, _ = index_fasta_file(path, inp["index_buffer"])
        except Exception as e:  # noqa: BLE001
            return f"index_fasta_file raised {e!r}"
        if inp["kind"] == "streams":
            msgs = streams_check(path, idx, inp["buffer"], case.seqs(), inp["steps"])
            return msgs[0] if msgs else None
        fi = make_index(path, inp["buffer"], idx)
        try:
            msgs = stream_check(fi, case.seqs(), [(n, s) for n, s in inp["scaffolds"]], inp["line_length"], inp.get("assembly", False))
        finally:
            close_index(fi)
        return msgs[0] if msgs else None


def check_cli(tmp, case, pretext_text):
    """-> (messages, number of FASTA records checked); a non-zero exit status is an allowed outcome"""
    return judge_cli(G.run_pretext_cli(tmp, case.data(), pretext_text, output="x.fa"), case)


def judge_cli(res, case):
    """the end-to-end clauses on the files of one finished run against the model of the input FASTA"""
    if res["exception"]:
        return [f"pretext-to-asm raised {res['exception']} (partial output left behind)"], 0
    if res["exit_code"] != 0:
        return [], 0
    msgs = []
    seqs = case.seqs()
    n_records = 0
    fastas = [n for n in res["files"] if n.startswith("x.") and n.endswith(".fa")]
    if not fastas:
        msgs.append("pretext-to-asm exited 0 with --output x.fa but wrote no FASTA file")
    for fa in fastas:
        agp_name = fa[: -len(".fa")] + ".agp"
        if agp_name not in res["files"]:
            msgs.append(f"{fa}: no companion {agp_name} written")
            continue
        objects, problems = G.parse_agp_text(res["files"][agp_name].decode())
        msgs += [f"{agp_name}: {p}" for p in problems]
        want = []
        for name, rows in objects:
            m, end, specs = G.check_agp_object(name, rows)
            msgs += [f"{agp_name}: {x}" for x in m]
            try:
                seq = G.apply_rows(seqs, specs)
            except (ValueError, KeyError) as e:
                msgs.append(f"{agp_name}: object {name} has a row outside the input FASTA: {e}")
                continue
            if end != len(seq):
                msgs.append(f"{agp_name}: object {name} ends at {end} but its rows denote {len(seq)} residues")
            want.append((name, seq))
        records, _ = G.parse_written_fasta(res["files"][fa])
        names = [h for h, _ in records]
        if len(set(names)) != len(names):
            msgs.append(f"{fa}: record names are not unique: {names}")
        for (h, lines), (name, seq) in zip(records, want):
            n_records += 1
            if h == name and sum(map(len, lines)) != len(seq):
                msgs.append(f"{fa}: record {h} has {sum(map(len, lines))} residues, AGP object length is {len(seq)}")
        msgs += [f"{fa} vs {agp_name}: {m}" for m in G.compare_written_fasta(res["files"][fa], want, 60)]
    return msgs, n_records


# ----------------------------------------------------------------------------------------------------------
# runs of the command that write several output assemblies

TAG_MODES = ("extra", "haps", "primary", "target", "haps+extra", "split")


def retag(rng, scaffolds, mode):
    """
    scaffolds of G.random_cli_case ([[(name, start, end, strand, tags)]]) with the tags that make pretext-to-asm
    write further assemblies: extra = Haplotig / Contaminant / FalseDuplicate scaffolds beside untagged ones;
    haps = Hap1 / Hap2; primary = the same with one Painted Primary scaffold; target = Target on some scaffolds
    (the others become contaminants)
    """
    n = len(scaffolds)
    special = rng.randrange(n)  # this one is always tagged, the next one never: two assemblies whenever n >= 2
    first_hap = rng.randrange(2)
    if mode == "primary":
        # --help: Primary "is used to tag the first 'Painted' chromosome in the curated haplotype": scaffold 0 is the
        # first of its haplotype in the map, scaffold 1 the first of the other one
        special = rng.randrange(min(n, 2))
    out = []
    for i, rows in enumerate(scaffolds):
        tags = ["Painted"] if any("Painted" in r[4] for r in rows) else []
        plain = i == (special + 1) % n and n > 1
        if mode in ("haps", "primary", "haps+extra"):
            tags.append(("Hap1", "Hap2")[(i + first_hap) % 2])
        if mode == "primary" and i == special:
            tags = ["Painted", tags[-1], "Primary"]
        if mode in ("extra", "haps+extra") and not plain and (i == special or rng.random() < 0.35):
            extra = rng.choice(("Haplotig", "Haplotig", "Contaminant", "FalseDuplicate"))
            tags = [t for t in tags if t != "Painted" or rng.random() < 0.2] + [extra]
        if mode == "target" and not plain and (i == special or rng.random() < 0.5):
            tags.append("Target")
        out.append([(name, s, e, strand, tags) for name, s, e, strand, _ in rows])
    return out


def random_multi_cli_case(rng, mode, tag=None):
    """-> (FastaCase, Pretext AGP text) with at least two Pretext scaffolds"""
    for _ in range(20):
        case, _, scaffolds = G.random_cli_case(rng)
        if len(scaffolds) >= 2:
            break
    if mode == "split":
        scaffolds = split_tagged(rng, case, scaffolds, tag or rng.choice(SPLIT_TAGS))
    else:
        scaffolds = retag(rng, scaffolds, mode)
    return case, G.pretext_agp(scaffolds, rng.choice((1.0, 1.0, 3.5)))


SPLIT_TAGS = ("Contaminant", "FalseDuplicate", "Haplotig")


def split_tagged(rng, case, scaffolds, tag):
    """
    one input record cut into two (or three) Pretext scaffolds that carry the same Haplotig / Contaminant /
    FalseDuplicate tag and different haplotype tags (unpainted); the other scaffolds as in mode haps.  The pieces
    belong to one file (the tag's), where record names are unique.
    """
    ctg = G.contigs_of(case)
    rec = rng.choice(case.records)
    L = len(rec.seq)
    cuts = [c[0] - 1 for c in ctg[rec.name][1:]] or [L // 2]  # in front of a contig, else in the middle
    cuts = sorted(rng.sample(cuts, min(len(cuts), rng.choice((1, 1, 2)))))
    first_hap = rng.randrange(2)
    pieces = []
    for i, (a, b) in enumerate(zip([0, *cuts], [*cuts, L])):
        if b > a:
            pieces.append([(rec.name, a + 1, b, rng.choice("+-"), [("Hap1", "Hap2")[(i + first_hap) % 2], tag])])
    others = [[r for r in rows if r[0] != rec.name] for rows in scaffolds]
    others = [rows for rows in others if rows]
    out = retag(rng, others, "haps") if others else []
    for p in pieces[::-1] if rng.random() < 0.3 else pieces:
        out.insert(rng.randint(0, len(out)), p)
    return out


def agp_rows(data):
    """objects and rows of an AGP file as written, without comment lines: [(object, [columns])]"""
    objects, _ = G.parse_agp_text(data.decode())
    return [(name, [r["cols"] for r in rows]) for name, rows in objects]


def check_cli_multi(tmp, case, pretext_text):
    """
    one run with --output x.fa, one with --output x.agp -> (messages, FASTA records checked, FASTA files written)
    """
    tmp = pathlib.Path(tmp)
    res = G.run_pretext_cli(tmp, case.data(), pretext_text, output="x.fa")
    msgs, nrec = judge_cli(res, case)
    msgs.sort(key=lambda m: "record names are not unique" not in m)  # the plainest clause first
    if res["exception"] or res["exit_code"] != 0:
        return msgs, nrec, 0
    fastas = sorted(n for n in res["files"] if n.startswith("x.") and n.endswith(".fa"))
    agps = sorted(n for n in res["files"] if n.startswith("x.") and n.endswith(".agp"))
    for a in agps:
        if a[: -len(".agp")] + ".fa" not in fastas:
            msgs.append(f"{a} written with --output x.fa has no FASTA file beside it (FASTA files: {fastas})")
    sub = tmp / "as_agp"
    sub.mkdir()
    try:
        ref = G.run_pretext_cli(sub, case.data(), pretext_text, output="x.agp")
    finally:
        shutil.rmtree(sub)
    if ref["exception"] or ref["exit_code"] != 0:
        msgs.append(f"pretext-to-asm exits 0 with --output x.fa but fails with --output x.agp ({ref['exception'] or ref['exit_code']})")
        return msgs, nrec, len(fastas)
    ref_agps = sorted(n for n in ref["files"] if n.startswith("x.") and n.endswith(".agp"))
    if ref_agps != [f[: -len(".fa")] + ".agp" for f in fastas]:
        msgs.append(f"--output x.fa wrote {fastas}, --output x.agp wrote {ref_agps}: not the same set of assemblies")
    for a in agps:
        if a in ref["files"]:
            got, want = agp_rows(res["files"][a]), agp_rows(ref["files"][a])
            if got != want:
                gd, wd = ([(n, len(r), r[-1][2] if r else 0) for n, r in x][:6] for x in (got, want))
                msgs.append(
                    f"{a} beside {a[: -len('.agp')]}.fa does not list the rows of that assembly: it has (object, rows, end) {gd}, "
                    f"the file of that name written with --output x.agp has {wd}"
                )
    return msgs, nrec, len(fastas)


# ----------------------------------------------------------------------------------------------------------
# several streams through one FastaIndex

GAP_CHARS = (None, "n", "N", "-", "x")


def flipped(scaffolds):
    """the same intervals and gaps with every strand reversed (unknown stays unknown)"""
    return [(name, [r if r[0] == "G" else [*r[:4], -r[4], *r[5:]] for r in rows]) for name, rows in scaffolds]


def gap_panel(case, bs, rng=None):
    """one scaffold that alternates intervals of the records with gaps of lengths around the buffer size"""
    lengths = [1, 2, bs - 1, bs, bs + 1, 2 * bs, 2 * bs + 1, 3 * bs + 2, 40]
    lengths = [g for g in lengths if 0 < g <= 2000]
    rows = []
    for i, g in enumerate(lengths):
        r = case.records[i % len(case.records)]
        L = len(r.seq)
        if rng is None:
            s, e = 1 + i % L, L
        else:
            s = rng.randint(1, L)
            e = rng.randint(s, L)
        rows += [["F", r.name, s, e, (1, -1, 0)[i % 3]], ["G", g, "scaffold"]]
    return [("p1", rows), ("p2", [["G", bs, "contig"], ["G", 1, "scaffold"]])]


def fixed_step_sequences(scs):
    """gap characters x index objects: every ordered pair, and longer sequences that come back to the default"""
    def st(gap, index=0, ll=60, sc=scs, asm=True):
        return {"scaffolds": sc, "line_length": ll, "assembly": asm, "gap": gap, "index": index}

    for b in GAP_CHARS:  # the later stream: the default one first
        for a in GAP_CHARS:
            if a != b:
                yield [st(a), st(b)]
    yield [st("n"), st(None, 1), st(None)]
    yield [st(None), st("n", 1), st(None, 1, 7), st(None, 0, 7)]
    yield [st("n", ll=3), st("N"), st(None, sc=flipped(scs)), st("-", asm=False), st(None, ll=5)]
    yield [st(None, sc=flipped(scs)), st(None), st("x", sc=flipped(scs)), st(None, sc=flipped(scs))]


def random_scaffolds(rng, case, bs):
    scs = []
    for si in range(rng.randint(1, 3)):
        rows = []
        for _ in range(rng.randint(1, 6)):
            if rng.random() < 0.45:
                rows.append(["G", rng.choice((1, 2, bs - 1 or 1, bs, bs + 1, 2 * bs, 3 * bs + 1, 200)), "scaffold"])
            else:
                r = rng.choice(case.records)
                L = len(r.seq)
                s = rng.choice((1, rng.randint(1, L)))
                e = rng.choice((L, rng.randint(s, L), min(L, s + bs - 1)))
                rows.append(["F", r.name, s, e, rng.choice((1, -1, -1, 0))])
        scs.append((f"sc{si + 1}", rows))
    return scs


def random_steps(rng, case, bs):
    scs = random_scaffolds(rng, case, bs)
    steps = []
    for _ in range(rng.randint(2, 5)):
        how = rng.random()
        if how < 0.25:
            scs = random_scaffolds(rng, case, bs)
        elif how < 0.5:
            scs = flipped(scs)
        steps.append(
            {
                "scaffolds": scs,
                "line_length": rng.choice((60, 60, 1, 3, 7, case.width)),
                "assembly": rng.random() < 0.7,
                "gap": rng.choice(GAP_CHARS + (None, None, "n")),
                "index": int(rng.random() < 0.25),
            }
        )
    return steps


def steps_nontrivial(steps):
    return len(steps) > 1 and any(s[0] == "G" and s[1] > 0 for st in steps[1:] for _, rows in st["scaffolds"] for s in rows)


# ----------------------------------------------------------------------------------------------------------
# index files left beside the FASTA by earlier runs
#
# cache = {"fasta_ns": time stamp of the FASTA, "old": spec of the earlier content of the path (or None),
#          "fai": None (absent) | [content, delta_ns], "agp": likewise}   content: "cur" | "old"
#          delta_ns: time stamp of that file minus the time stamp of the FASTA

FASTA_NS = 1_700_000_000_900_000_000  # 0.9 s into a second
SEC = 1_000_000_000
DELTA = {"older": (-SEC // 2, -3600 * SEC, -SEC // 1000, -3 * SEC), "equal": (0,), "newer": (SEC // 10, 3600 * SEC, 2 * SEC)}


def cache_paths(path):
    return pathlib.Path(str(path) + ".fai"), pathlib.Path(str(path) + ".agp")


def must_be_rebuilt(cache):
    """statement: index files that are missing or not strictly newer than the FASTA are not used"""
    return any(c is None or c[1] <= 0 for c in (cache["fai"], cache["agp"]))


def legitimate(cache):
    """files that may be used (both strictly newer) are those an indexing run wrote for the current content"""
    return must_be_rebuilt(cache) or all(c[0] == "cur" for c in (cache["fai"], cache["agp"]))


def describe_cache(cache):
    parts = []
    for key in ("fai", "agp"):
        c = cache[key]
        if c is None:
            parts.append(f"no .{key}")
            continue
        what = "the current content" if c[0] == "cur" else "earlier content of the same path"
        when = "with the FASTA's time stamp" if c[1] == 0 else f"{abs(c[1]) / SEC:g} s {'newer' if c[1] > 0 else 'older'} than the FASTA"
        parts.append(f".{key} written for {what}, {when}")
    return "; ".join(parts)


def indexing_run(path, case):
    """what an earlier run left behind: the content is written to `path` and indexed -> (.fai bytes, .agp bytes)"""
    G.remove_with_caches(path)
    case.write(path)
    fi = FastaIndex(path)
    try:
        fi.run_indexing()
    finally:
        close_index(fi)
    return tuple(p.read_bytes() for p in cache_paths(path))


def install_cache(path, case, cache):
    """
    history: indexing runs on the earlier / the current content, then the FASTA holds the current content and
    the three files carry the given time stamps.  Returns False when the file system did not keep the times.
    """
    used = {c[0] for c in (cache["fai"], cache["agp"]) if c is not None}
    built = {}
    if "old" in used:
        built["old"] = indexing_run(path, G.FastaCase.from_spec(cache["old"]))
    if "cur" in used:
        built["cur"] = indexing_run(path, case)
    G.remove_with_caches(path)
    case.write(path)
    t = cache["fasta_ns"]
    os.utime(path, ns=(t, t))
    ok = os.stat(path).st_mtime_ns == t
    for i, (p, key) in enumerate(zip(cache_paths(path), ("fai", "agp"))):
        c = cache[key]
        if c is not None:
            p.write_bytes(built[c[0]][i])
            os.utime(p, ns=(t + c[1], t + c[1]))
            ok = ok and os.stat(p).st_mtime_ns == t + c[1]
    return ok


def model_scaffolds(case):
    """whole records forward and reversed, an inner interval, and a joined scaffold: rows over the current content"""
    scs = []
    for i, r in enumerate(case.records):
        L = len(r.seq)
        scs.append((f"f{i}", [["F", r.name, 1, L, 1]]))
        scs.append((f"r{i}", [["F", r.name, 1, L, -1]]))
        if L >= 3:
            scs.append((f"m{i}", [["F", r.name, 2, L - 1, 0], ["G", 3, "scaffold"], ["F", r.name, (L + 1) // 2, L, -1]]))
    return scs


def check_cached_stream(tmp, case, cache, bs, line_length):
    """-> (messages, number of loads that delivered an index); FastaIndex.auto_load twice, then FastaStream"""
    path = pathlib.Path(tmp) / "in.fa"
    try:
        if not install_cache(path, case, cache):
            return [], 0
    except Exception as e:  # noqa: BLE001
        return [f"an indexing run (FastaIndex.run_indexing) raised {e!r}"], 0
    msgs = []
    loads = 0
    for which in ("", "second "):
        # the second load finds whatever the first one left (time stamps of the real clock: newer than the FASTA)
        fi = FastaIndex(path, bs)
        try:
            try:
                fi.auto_load()
            except Exception:  # noqa: BLE001
                break  # failing loudly writes no FASTA
            loads += 1
            msgs = loaded_index_messages(fi, case, line_length)
        finally:
            close_index(fi)
        if msgs:
            msgs = [f"index files beside the FASTA ({describe_cache(cache)}): after the {which}FastaIndex.auto_load, {m}" for m in msgs]
            break
    G.remove_with_caches(path)
    return msgs, loads


def loaded_index_messages(fi, case, line_length):
    """C03 over a loaded FastaIndex: rows taken from the model, and the assembly that came with the index"""
    seqs = case.seqs()
    names = [r.name for r in case.records]
    msgs = ["rows of the current FASTA: " + m for m in stream_check(fi, seqs, model_scaffolds(case), line_length, True)]
    asm = [(s.name, [row_spec(r) for r in s.rows]) for s in fi.assembly.scaffolds]
    if [n for n, _ in asm] != names:
        return [*msgs, f"the loaded assembly has scaffolds {[n for n, _ in asm][:6]}, the FASTA has records {names[:6]}"]
    try:
        for _, rows in asm:
            G.apply_rows(seqs, rows)
    except (ValueError, KeyError) as e:
        return [*msgs, f"the loaded assembly has a row outside the current FASTA: {e}"]
    return msgs + ["the loaded assembly: " + m for m in stream_check(fi, seqs, asm, line_length, True)]


def run_cli_in_place(tmp, pretext_text, output="x.fa"):
    """G.run_pretext_cli without writing in.fa: the FASTA and what lies beside it stay as prepared"""
    from click.testing import CliRunner

    from tola.assembly.scripts.pretext_to_asm import cli

    tmp = pathlib.Path(tmp)
    (tmp / "p.agp").write_text(pretext_text)
    args = ["--assembly", str(tmp / "in.fa"), "--pretext", str(tmp / "p.agp"), "--log-level", "ERROR", "--no-write-log", "--output", str(tmp / output)]
    try:
        res = CliRunner().invoke(cli, args)
    finally:
        G.reset_logging_after_cli()
    exc = res.exception
    return {
        "exit_code": res.exit_code,
        "exception": None if exc is None or isinstance(exc, SystemExit) else repr(exc),
        "files": {p.name: p.read_bytes() for p in sorted(tmp.iterdir()) if p.is_file()},
    }


def check_cli_cached(tmp, case, pretext_text, cache):
    """pretext-to-asm on a FASTA with left-over index files -> (messages, number of FASTA records checked)"""
    tmp = pathlib.Path(tmp)
    try:
        if not install_cache(tmp / "in.fa", case, cache):
            return [], 0
    except Exception as e:  # noqa: BLE001
        return [f"an indexing run (FastaIndex.run_indexing) raised {e!r}"], 0
    res = run_cli_in_place(tmp, pretext_text)
    msgs, nrec = judge_cli(res, case)
    if not msgs and res["exit_code"] != 0:
        cold = tmp / "cold"
        cold.mkdir()
        try:
            res0 = G.run_pretext_cli(cold, case.data(), pretext_text, output="x.fa")
        finally:
            shutil.rmtree(cold)
        if res0["exit_code"] == 0 and not res0["exception"]:
            msgs.append(f"pretext-to-asm exits {res['exit_code']} and writes no FASTA; on the same FASTA without index files beside it, it exits 0")
    pre = f"index files beside the input FASTA ({describe_cache(cache)}): "
    return [pre + m for m in msgs], nrec


def rewrapped(case):
    return G.FastaCase(case.records, 80 if case.width != 80 else 60, b"\r\n" if case.eol == b"\n" else b"\n", case.final_newline)


def earlier_contents(case):
    """earlier contents of the same path, by kind; every one has at least the first record name in common"""
    recs = case.records
    first = recs[0]
    out = {
        # same sequences, other line width and terminator: only the .fai differs
        "rewrapped": rewrapped(case),
        # same sequences, same wrapping, first header 3 bytes longer: only the offsets differ
        "header": G.FastaCase([G.Rec(first.name, first.seq, first.desc + b" v1"), *recs[1:]], case.width, case.eol, case.final_newline),
        # sequences rotated among the names: other lengths and other runs
        "content": G.FastaCase([G.Rec(r.name, recs[(i + 1) % len(recs)].seq[::-1] + b"NNGA", r.desc) for i, r in enumerate(recs)], case.width, case.eol, True),
    }
    if len(recs) > 1:
        out["fewer"] = G.FastaCase([G.Rec(first.name, recs[-1].seq + first.seq, first.desc)], case.width, case.eol, True)
    return out


def cache_states(full):
    """every (fai, agp) pair of absent / older / equal / newer x current / earlier content that is legitimate"""
    one = [None]
    for state in ("older", "equal", "newer"):
        for delta in DELTA[state][: None if full else 2 if state == "older" else 1]:
            for content in ("old", "cur"):
                one.append([content, delta])
    for fai in one:
        for agp in one:
            cache = {"fai": fai, "agp": agp}
            if fai is None and agp is None:
                continue
            if legitimate(cache):
                yield fai, agp


# what the command finds beside its input in the quick tier: (fai, agp) as (content, state)
CLI_CACHES = (
    (("old", "equal"), ("old", "equal")),
    (("old", "older"), ("old", "older")),
    (("cur", "newer"), ("cur", "newer")),
    (("old", "equal"), ("cur", "newer")),
    (("cur", "newer"), ("old", "equal")),
    (("old", "older"), ("cur", "newer")),
    (("cur", "newer"), ("old", "older")),
    (("old", "older"), ("old", "newer")),
    (("old", "newer"), ("old", "older")),
    (("old", "equal"), ("old", "newer")),
    (("old", "newer"), ("old", "equal")),
    (("cur", "equal"), ("cur", "equal")),
)


def run(tier, seed, **opts):
    rng = random.Random(seed)
    quick = tier == "quick"
    col = Collector(
        "direct: 3-record FASTA (12, 5, 1 residues, mixed-case IUPAC) in every layout (widths 1..5,60 x LF/CRLF x "
        "final newline) x every interval x strand +,-,? x buffer sizes x output line lengths as single-row scaffolds; "
        "gap-only scaffolds (length 0..3 buffers+2); random multi-row, multi-scaffold assemblies over random FASTA "
        "files; end to end: pretext-to-asm on random FASTA + Pretext AGP; both routes again (FastaIndex.auto_load twice + "
        "FastaStream over rows of the model and over the loaded assembly; the command) with .fai/.agp files of an indexing "
        "run on the current or on earlier content of the path (re-wrapped, longer header, other sequences, fewer records) "
        "lying beside the FASTA, each absent / older / same time stamp / newer (os.utime), except that two strictly "
        "newer files are always those of the current content.  One evaluation = one streamed assembly, one CLI run or one "
        "prepared directory loaded twice; non-trivial = distinct (file, assembly, buffer, line length[, earlier content, "
        "state of the two index files]) with at least one non-empty record (CLI: run exited 0 and wrote records; loads: "
        "at least one load delivered an index); runs of the command on Pretext AGPs with Haplotig / Contaminant / "
        "FalseDuplicate / Hap1 / Hap2 / Primary / Target tags (non-trivial = two or more FASTA files with records), every "
        ".fa against the .agp of its own name and that .agp against the same assembly written with --output x.agp; "
        "sequences of 2-5 streams through one FastaIndex object (or two on one file) with different gap characters, "
        "line lengths and strands (non-trivial = a stream after the first writes a gap)",
        max_samples=7,
    )
    line_lengths_all = (1, 2, 3, 5, 7, 60)
    all_states = list(cache_states(full=not quick))
    with G.quiet_logging(), G.workdir() as d:
        path = d / "t.fa"
        # ---- 1. single-row scaffolds, exhaustive intervals
        n = 0
        for w, eol, fin in G.layouts():
            case = base_case(w, eol, fin)
            spec = case.spec()
            seqs = case.seqs()
            case.write(path)
            try:
                idx, _ = index_fasta_file(path, 250_000)
            except Exception as e:  # noqa: BLE001
                col.fail(f"index_fasta_file raised {e!r}", {"kind": "stream", "case": spec, "index_buffer": 250_000, "buffer": 1, "scaffolds": [], "line_length": 60})
                continue
            if quick:
                buffers = sorted({1, 2, 3, w - 1, w, w + 1, 5, 11, 12, 13, 250_000} - {0})
            else:
                buffers = [*range(1, 15), 250_000]
            for bs in buffers:
                fi = make_index(path, bs, idx)
                history = []  # the streams this index object has served
                try:
                    for r in case.records:
                        L = len(r.seq)
                        for s in range(1, L + 1):
                            for e in range(s, L + 1):
                                for strand in (1, -1, 0):
                                    n += 1
                                    lls = line_lengths_all if not quick else (60, line_lengths_all[n % 5])
                                    for ll in lls:
                                        scs = [(f"x{n % 7}", [["F", r.name, s, e, strand]])]
                                        msgs = stream_check(fi, seqs, scs, ll, False)
                                        inp = {"kind": "stream", "case": spec, "index_buffer": 250_000, "buffer": bs, "scaffolds": scs, "line_length": ll}
                                        step = single_step(scs, ll, False)
                                        if msgs:
                                            msgs, inp = with_history(path, idx, bs, seqs, history, step, msgs, inp)
                                            col.fail(msgs[0], inp)
                                        history.append(step)
                                        col.case((case.key(), bs, ll, r.name, s, e, strand), sample=inp if n == 4000 else None)
                        if col.full:
                            break
                finally:
                    close_index(fi)
                if col.full:
                    break
            G.remove_with_caches(path)
            if col.full:
                break
        # ---- 2. gap-only and gap-flanked scaffolds
        case = base_case(3, b"\n", True)
        seqs = case.seqs()
        case.write(path)
        idx, _ = index_fasta_file(path, 250_000)
        for bs in range(1, 9 if quick else 14):
            fi = make_index(path, bs, idx)
            history = []
            try:
                for glen in range(0, 3 * bs + 3):
                    for ll in (1, 2, 3, 5, 60) if quick else line_lengths_all:
                        for shape in range(3):
                            if shape == 0:
                                rows = [["G", glen, "scaffold"]]
                            elif shape == 1:
                                rows = [["F", "s2", 1, 5, -1], ["G", glen, "scaffold"], ["F", "s1", 3, 9, 1]]
                            else:
                                rows = [["G", glen, "contig"], ["F", "s3", 1, 1, 0], ["G", glen, "scaffold"]]
                            scs = [("g", rows)]
                            msgs = stream_check(fi, seqs, scs, ll, True)
                            inp = {"kind": "stream", "case": case.spec(), "index_buffer": 250_000, "buffer": bs, "scaffolds": scs, "line_length": ll, "assembly": True}
                            step = single_step(scs, ll, True)
                            if msgs:
                                msgs, inp = with_history(path, idx, bs, seqs, history, step, msgs, inp)
                                col.fail(msgs[0], inp)
                            history.append(step)
                            col.case(("gap", bs, glen, ll, shape), nontrivial=glen > 0 or shape > 0, sample=inp if (bs, glen, ll, shape) == (2, 5, 3, 1) else None)
            finally:
                close_index(fi)
        G.remove_with_caches(path)
        # ---- 3. random multi-row, multi-scaffold assemblies over random files
        for k in range(400 if quick else 10000):
            if col.full:
                break
            case = G.random_case(rng, max_len=90 if quick else 300)
            seqs = case.seqs()
            case.write(path)
            ibs = rng.choice((1, 2, 3, 7, 250_000))
            try:
                idx, _ = index_fasta_file(path, ibs)
            except Exception as e:  # noqa: BLE001
                col.fail(f"index_fasta_file raised {e!r}", {"kind": "stream", "case": case.spec(), "index_buffer": ibs, "buffer": 1, "scaffolds": [], "line_length": 60})
                G.remove_with_caches(path)
                continue
            for _rep in range(6):
                bs = rng.choice((1, 2, 3, 4, 5, 7, 11, case.width - 1 or 1, case.width, case.width + 1, 59, 60, 61, 250_000))
                scs = []
                for si in range(rng.randint(1, 3)):
                    rows = []
                    for _ in range(rng.randint(0, 5)):
                        if rng.random() < 0.3:
                            rows.append(["G", rng.choice((0, 1, 2, bs - 1, bs, bs + 1, 2 * bs, 3 * bs + 1, 200)), "scaffold"])
                        else:
                            r = rng.choice(case.records)
                            L = len(r.seq)
                            s = rng.choice((1, rng.randint(1, L), max(1, L - case.width)))
                            e = rng.choice((L, rng.randint(s, L), min(L, s + bs - 1), min(L, s + bs), min(L, s + case.width - 1)))
                            rows.append(["F", r.name, s, e, rng.choice((1, 1, -1, -1, 0)), ["Painted"] if rng.random() < 0.2 else []])
                    scs.append((f"sc{si + 1}", rows))
                ll = rng.choice((60, 60, 1, 2, 3, 7, 61, case.width))
                fi = make_index(path, bs, idx)
                try:
                    msgs = stream_check(fi, seqs, scs, ll, True)
                finally:
                    close_index(fi)
                inp = {"kind": "stream", "case": case.spec(), "index_buffer": ibs, "buffer": bs, "scaffolds": scs, "line_length": ll, "assembly": True}
                if msgs:
                    col.fail(msgs[0], inp)
                total = sum(G.spec_length(s) for _, rows in scs for s in rows)
                col.case((case.key(), bs, ll, repr(scs)), nontrivial=total > 0, sample=inp if k == 3 and _rep == 0 else None)
            G.remove_with_caches(path)
        # ---- 4. end to end through the pretext-to-asm command
        n_cli = 40 if quick else 1200
        for k in range(n_cli):
            if col.full:
                break
            big = k == 1 or (not quick and k % 300 == 1)
            gen = f"c03-{seed}-{k}"
            case, ptxt, _ = G.random_cli_case(random.Random(gen) if big else rng, big=big)
            sub = d / f"cli{k}"
            sub.mkdir()
            msgs, nrec = check_cli(sub, case, ptxt)
            for p in sub.iterdir():
                p.unlink()
            sub.rmdir()
            # the large input is rebuilt from its generator seed instead of being stored (1 MB of residues)
            inp = {"kind": "cli", "gen": gen} if big else {"kind": "cli", "case": case.spec(), "pretext": ptxt}
            if msgs:
                col.fail(msgs[0], inp)
            col.case(("cli", case.key(), ptxt), nontrivial=nrec > 0, sample=inp if k == 0 else None)
            if big or msgs:
                continue
            # ---- 5. the same command, index files of an earlier run lying beside the input
            earlier = earlier_contents(case)
            kinds = sorted(earlier)
            for j in range(2):
                kk = k + j * (len(CLI_CACHES) // 2 + len(CLI_CACHES))
                if quick or j == 0:
                    fai, agp = CLI_CACHES[kk % len(CLI_CACHES)]
                    kind = kinds[(kk // len(CLI_CACHES)) % len(kinds)]
                    fai, agp = ([c, DELTA[st][(k // 7) % 2 if st == "older" else 0]] for c, st in (fai, agp))
                else:
                    fai, agp = rng.choice(all_states)
                    kind = rng.choice(kinds)
                cache = {"fasta_ns": FASTA_NS, "old": earlier[kind].spec(), "fai": fai, "agp": agp}
                sub.mkdir()
                try:
                    msgs, nrec = check_cli_cached(sub, case, ptxt, cache)
                finally:
                    shutil.rmtree(sub)
                inp = {"kind": "cli", "case": case.spec(), "pretext": ptxt, "cache": cache}
                if msgs:
                    col.fail(msgs[0], inp)
                col.case(("cli", case.key(), ptxt, kind, repr((fai, agp))), nontrivial=nrec > 0, sample=inp if k == 0 and j == 0 else None)
        # ---- 7. runs of the command that write several output assemblies (tags in the Pretext AGP)
        n_multi = 24 if quick else 1500
        for k in range(n_multi):
            if col.full:
                break
            mode = TAG_MODES[k % len(TAG_MODES)]
            case, ptxt = random_multi_cli_case(rng, mode, SPLIT_TAGS[(k // len(TAG_MODES)) % len(SPLIT_TAGS)])
            sub = d / f"multi{k}"
            sub.mkdir()
            try:
                msgs, nrec, nfa = check_cli_multi(sub, case, ptxt)
            finally:
                shutil.rmtree(sub)
            inp = {"kind": "cli", "case": case.spec(), "pretext": ptxt, "multi": True}
            if msgs:
                col.fail(msgs[0], inp)
            # non-trivial: two or more FASTA files with records
            col.case(("multi", case.key(), ptxt), nontrivial=nfa > 1 and nrec > 0, sample=inp if k == 1 else None)
        # ---- 6. FastaIndex.auto_load + FastaStream with index files in every state beside the FASTA
        base = [base_case(3, b"\n", True), base_case(60, b"\r\n", True), base_case(5, b"\n", False)]
        # all kinds of earlier content x all states for the first file(s); one kind per state for the others
        cases = [(c, "full" if i < (1 if quick else 3) else "rotate") for i, c in enumerate(base)]
        cases += [(G.random_case(rng, max_len=150), "rotate" if quick else "sample") for _ in range(2 if quick else 80)]
        if not quick:
            cases += [(base_case(w, eol, fin), "rotate") for w, eol, fin in G.layouts()]
        sub = d / "cached"
        sub.mkdir()
        n = 0
        for ci, (case, mode) in enumerate(cases):
            earlier = earlier_contents(case)
            chosen = set(rng.sample(range(len(all_states)), 40)) if mode == "sample" else None
            for ki, kind in enumerate(sorted(earlier)):
                for si, (fai, agp) in enumerate(all_states):
                    if "old" not in (fai and fai[0], agp and agp[0]):
                        if ki:
                            continue  # no file of the earlier content: the same scenario for every kind
                    elif mode != "full" and (si + ci) % len(earlier) != ki:
                        continue
                    if chosen is not None and si not in chosen:
                        continue
                    if col.full:
                        break
                    n += 1
                    bs = (250_000, 1, case.width, 7)[n % 4]
                    ll = (60, 60, 3, case.width)[(n // 4) % 4]
                    cache = {"fasta_ns": FASTA_NS, "old": earlier[kind].spec(), "fai": fai, "agp": agp}
                    msgs, loads = check_cached_stream(sub, case, cache, bs, ll)
                    inp = {"kind": "cached-stream", "case": case.spec(), "cache": cache, "buffer": bs, "line_length": ll}
                    if msgs:
                        col.fail(msgs[0], inp)
                    col.case(("cached", case.key(), kind, repr((fai, agp)), bs, ll), nontrivial=loads > 0, sample=inp if n == 30 else None)
        shutil.rmtree(sub)
        # ---- 8. several streams, one after the other, through one FastaIndex (kept last: state that leaks out of
        #         an index object must not blur the parts above)
        n_streams = 0
        files = [base_case(3, b"\n", True)] if quick else [base_case(3, b"\n", True), base_case(60, b"\r\n", True), base_case(5, b"\n", False)]
        files += [G.random_case(rng, max_len=120) for _ in range(1 if quick else 30)]
        for ci, case in enumerate(files):
            seqs = case.seqs()
            case.write(path)
            try:
                idx, _ = index_fasta_file(path, 250_000)
            except Exception:  # noqa: BLE001
                G.remove_with_caches(path)
                continue  # reported by the parts above
            all_bs = (1, 2, 3, 4, 5, 7, 16, 61, 250_000)
            if quick:
                buffers = (3, 1, 16, 250_000)
            elif ci < 3:
                buffers = all_bs
            else:
                buffers = sorted({all_bs[(ci + j * 4) % len(all_bs)] for j in range(3)})
            for bi, bs in enumerate(buffers):
                plans = list(fixed_step_sequences(gap_panel(case, bs, rng if ci else None)))
                # all fixed sequences for the first file (quick: at buffer 3 only), every fourth one elsewhere
                if (quick and (ci or bi)) or ci >= 3:
                    plans = plans[(ci + bi) % 4 :: 4]
                plans += [random_steps(rng, case, bs) for _ in range(2 if quick else 20 if ci < 3 else 10)]
                for pi, steps in enumerate(plans):
                    if col.full:
                        break
                    n_streams += 1
                    msgs = streams_check(path, idx, bs, seqs, steps)
                    inp = {"kind": "streams", "case": case.spec(), "index_buffer": 250_000, "buffer": bs, "steps": steps}
                    if msgs:
                        col.fail(msgs[0], inp)
                    key = ("streams", case.key(), bs, repr(steps))
                    col.case(key, nontrivial=steps_nontrivial(steps), sample=inp if (ci, bs, pi) == (0, 3, 0) else None)
            G.remove_with_caches(path)
    return col.result(
        bounds=(
            "direct: records of 12/5/1 residues in 24 layouts, all intervals, 3 strands, buffers "
            + ("1,2,3,width-1..width+1,5,11,12,13,250000" if quick else "1..14,250000")
            + ", line lengths "
            + ("60 and one of 1,2,3,5,7" if quick else "1,2,3,5,7,60")
            + f"; gaps 0..3*buffer+2 for buffers 1..{8 if quick else 13}; {400 if quick else 10000} random files x 6 random assemblies "
            f"(<= 3 scaffolds x <= 5 rows); {n_cli} pretext-to-asm runs (2-4 records, contigs 40-400, one input with 250000 / 500001 N runs "
            "and a 300017-residue contig to cross the command's fixed 250000 buffer); 2 further runs per input with left-over index "
            f"files ({len(CLI_CACHES)} fixed (fai, agp) states" + ("" if quick else " and random ones") + f"); {n} prepared directories for auto_load: "
            f"{len(all_states)} (fai, agp) states (time differences "
            + ("-3600, -0.5, 0, +0.1 s" if quick else "-3600, -3, -0.5, -0.001, 0, +0.1, +2, +3600 s")
            + f") x <= 4 kinds of earlier content over {len(cases)} files; {n_multi} pretext-to-asm runs whose Pretext AGP carries "
            "Haplotig/Contaminant/FalseDuplicate, Hap1/Hap2 (+Primary) or Target tags, every sixth one with one record cut into pieces of "
            "one such tag and different haplotype tags (1-6 output assemblies), each also run with "
            f"--output x.agp; {n_streams} sequences of 2-5 streams through one or two FastaIndex objects on one file (gap characters "
            f"default,N,n,-,x in every ordered pair; gaps 1..3*buffer+2 and 40; strands flipped between streams) over {len(files)} files"
        ),
        exhaustive=False,
    )
