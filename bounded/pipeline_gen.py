"""
PretextView-model generator and pipeline driver shared by the bounded modules of the remapping
properties (c01, c02, c07, c08, c09, c10, c11).

Everything here is plain data (lists / dicts / tuples, JSON-able) except `run_case`, which is the only
place where the code under test is driven - exactly like cli() in tola/assembly/scripts/pretext_to_asm.py:
parse (or build) the input assembly, IndexedAssembly.new_from_assembly, BuildAssembly("x",
default_gap=Gap(200, "scaffold"), autosome_prefix=...), remap_to_input_assembly,
assemblies_with_scaffolds_fused.  The result is converted back to plain data before any oracle looks at it.

A *case* is
    {"input":  [{"name": str, "rows": [["F", name, start, end, strand, []] | ["G", length, type], ...]}, ...],
     "map":    {"bpt": float, "scaffolds": [[[input scaffold name, start, end, strand, [tags...]], ...], ...]},
     "prefix": "SUPER_",                    # autosome prefix
     "via":    "objects" | "agp" | "tpf"}   # how the input assembly reaches the code (Pretext map: objects / agp text)
Pretext scaffold k (1-based) is called Scaffold_k; its pieces are separated by 100 bp 'scaffold' gaps.

Texel arithmetic is done with exact fractions: texel boundary t of a map at bpt bp/texel lies after base
floor(t * bpt); a piece covering texels [a, b) is  floor(a*bpt)+1 .. floor(b*bpt).
"""

import contextlib
import io
import itertools
import logging
import math
import os
import re
import tempfile
from fractions import Fraction

JOIN_GAP = ("G", 200, "scaffold")
PRETEXT_GAP = 100
SPECIAL_TAGS = ("Haplotig", "Contaminant", "FalseDuplicate")


# --------------------------------------------------------------------------------------------------
# plain-data helpers
# --------------------------------------------------------------------------------------------------


def F(name, start, end, strand=1):
    return ["F", name, start, end, strand, []]


def G(length, gap_type="scaffold"):
    return ["G", length, gap_type]


def row_len(row):
    return row[1] if row[0] == "G" else row[3] - row[2] + 1


def rows_len(rows):
    return sum(row_len(r) for r in rows)


def seq_len(rows):
    return sum(row_len(r) for r in rows if r[0] == "F")


def contigs(inp):
    """all Fragment rows of an input spec, in order"""
    return [r for s in inp for r in s["rows"] if r[0] == "F"]


def margin_of(bpt):
    """3 x (1 + floor(bp per texel)): C02's tolerance"""
    return 3 * (1 + math.floor(bpt))


_BPTF = {}


def bptF(bpt):
    f = _BPTF.get(bpt)
    if f is None:
        f = _BPTF[bpt] = Fraction(str(bpt))
    return f


def texels(length, bpt, rounding):
    q = Fraction(length) / bptF(bpt)
    return math.floor(q) if rounding == "floor" else math.ceil(q)


def texel_piece(a, b, bpt):
    f = bptF(bpt)
    return math.floor(a * f) + 1, math.floor(b * f)


def tokens(rows):
    """one token per base in reading order: (name, pos, strand) for sequence, ('GAP', length, type) for gaps"""
    toks = []
    for r in rows:
        if r[0] == "G":
            toks.extend([("GAP", r[1], r[2])] * r[1])
        elif r[4] == -1:
            toks.extend((r[1], p, -1) for p in range(r[3], r[2] - 1, -1))
        else:
            toks.extend((r[1], p, r[4]) for p in range(r[2], r[3] + 1))
    return toks


def reverse_tokens(toks):
    return [t if t[0] == "GAP" else (t[0], t[1], -t[2]) for t in reversed(toks)]


def piece_core(in_toks, piece, margin):
    """
    tokens of the bases of `piece` lying more than `margin` from both piece ends, terminal gap bases
    stripped, oriented as the piece (reversed when the piece strand is -1).  [] if there are none.
    """
    _, start, end, strand = piece[:4]
    lo = start + margin + 1
    hi = min(end - margin - 1, len(in_toks))
    if hi < lo:
        return []
    core = in_toks[lo - 1 : hi]
    i, j = 0, len(core)
    while i < j and core[i][0] == "GAP":
        i += 1
    while j > i and core[j - 1][0] == "GAP":
        j -= 1
    core = core[i:j]
    return reverse_tokens(core) if strand == -1 else core


class OutIndex:
    """per-base index of all output assemblies together"""

    def __init__(self, out):
        self.scaffolds = []  # (asm key, scaffold dict, tokens)
        self.where = {}  # (name, pos) -> [(scaffold index, token index)]
        for key, asm in out.items():
            for sc in asm["scaffolds"]:
                toks = tokens(sc["rows"])
                si = len(self.scaffolds)
                self.scaffolds.append((key, sc, toks))
                for ti, t in enumerate(toks):
                    if t[0] != "GAP":
                        self.where.setdefault((t[0], t[1]), []).append((si, ti))

    def locate(self, core):
        """
        (scaffold index, offset) if `core` is found as one contiguous identical run, else an error string
        """
        first = core[0]
        locs = self.where.get((first[0], first[1]), [])
        if len(locs) != 1:
            return f"base {first[0]}:{first[1]} occurs {len(locs)} times in the output"
        si, ti = locs[0]
        toks = self.scaffolds[si][2]
        if toks[ti : ti + len(core)] != core:
            n = 0
            while ti + n < len(toks) and n < len(core) and toks[ti + n] == core[n]:
                n += 1
            got = toks[ti + n] if ti + n < len(toks) else "end of scaffold"
            return (
                f"run breaks after {n} of {len(core)} bases in output scaffold {self.scaffolds[si][1]['name']!r}: "
                f"expected {core[n]}, found {got}"
            )
        return si, ti


# --------------------------------------------------------------------------------------------------
# input assemblies
# --------------------------------------------------------------------------------------------------


def make_scaffold(name, lengths, strands=None, gaps=None, naming="own", lead=None, trail=None, tag=""):
    """
    lengths  contig lengths;  strands  +1/-1 per contig (default +1);  gaps  between consecutive contigs: None = the
    contigs abut with no gap row, else (length, type);  lead/trail  optional terminal gap rows (length, type).
    naming   'fasta'   contig name = scaffold name, coordinates = position in the scaffold (FASTA-derived)
             'own'     every contig has its own name and runs 1..L
             'offset'  contigs are stretches of older sequences (name old_<tag>_<j // 2>, coordinates far from the
                       position in the scaffold; two consecutive contigs share a name)
    """
    k = len(lengths)
    strands = strands or [1] * k
    gaps = gaps or [None] * (k - 1)
    rows = []
    pos = 0
    if lead:
        rows.append(G(*lead))
        pos += lead[0]
    for j, ln in enumerate(lengths):
        if j:
            g = gaps[j - 1]
            if g:
                rows.append(G(*g))
                pos += g[0]
        if naming == "fasta":
            rows.append(F(name, pos + 1, pos + ln, strands[j]))
        elif naming == "own":
            rows.append(F(f"ctg{tag}{chr(97 + j)}", 1, ln, strands[j]))
        else:
            base = 6000 + 3000 * (j % 2)
            rows.append(F(f"old{tag}{j // 2}", base + 1, base + ln, strands[j]))
        pos += ln
    if trail:
        rows.append(G(*trail))
    return {"name": name, "rows": rows}


# --------------------------------------------------------------------------------------------------
# the PretextView model
# --------------------------------------------------------------------------------------------------


def cut_sets(n, max_cuts=3, min_part=2):
    """all sets of texel boundaries cutting n texels into <= max_cuts + 1 pieces of >= min_part texels"""
    out = [()]

    def rec(prefix, lo, left):
        for c in range(lo + min_part, n - min_part + 1):
            cs = prefix + (c,)
            out.append(cs)
            if left > 1:
                rec(cs, c, left - 1)

    if max_cuts:
        rec((), 0, max_cuts)
    return out


def interesting_boundaries(rows, bpt, n, reach=4):
    """texel boundaries within `reach` texels of a row boundary of the scaffold, plus the middle of each row"""
    f = bptF(bpt)
    marks = set()
    pos = 0
    for r in rows:
        ln = row_len(r)
        for p in (pos, pos + ln):
            t0 = math.floor(Fraction(p) / f)
            marks.update(range(t0 - reach, t0 + reach + 2))
        marks.add(math.floor(Fraction(pos + ln // 2) / f))
        pos += ln
    return sorted(t for t in marks if 2 <= t <= n - 2)


def pieces_of(scaffold, bpt, rounding, cuts):
    """the pieces [name, start, end] PretextView reports for one input scaffold, or [] if it has no texel"""
    n = texels(rows_len(scaffold["rows"]), bpt, rounding)
    if n < 1:
        return []
    bounds = [0, *cuts, n]
    return [[scaffold["name"], *texel_piece(a, b, bpt)] for a, b in itertools.pairwise(bounds)]


def arrangements(k):
    """
    (order, orientations, group sizes) for k pieces: every permutation x orientation x split of the sequence into
    consecutive Pretext scaffolds
    """
    full = []
    for order in itertools.permutations(range(k)):
        for orient in itertools.product((1, -1), repeat=k):
            for cutmask in itertools.product((0, 1), repeat=k - 1):
                sizes = []
                size = 1
                for m in cutmask:
                    if m:
                        sizes.append(size)
                        size = 1
                    else:
                        size += 1
                sizes.append(size)
                full.append((order, orient, tuple(sizes)))
    return full


def random_arrangement(k, rng):
    order = list(range(k))
    rng.shuffle(order)
    orient = tuple(rng.choice((1, -1)) for _ in range(k))
    sizes = []
    left = k
    while left:
        s = rng.randint(1, left)
        sizes.append(s)
        left -= s
    return tuple(order), orient, tuple(sizes)


def arrange(pieces, arrangement, painted=None, tags=None):
    """
    pieces: [[name, start, end], ...];  -> list of Pretext scaffolds of [name, start, end, strand, [tags]]
    painted: per Pretext scaffold bool (default False);  tags: per piece (in original piece numbering) extra tags
    """
    order, orient, sizes = arrangement
    scaffolds = []
    it = iter(range(len(order)))
    for gi, size in enumerate(sizes):
        sc = []
        for _ in range(size):
            j = next(it)
            pi = order[j]
            t = ["Painted"] if painted and painted[gi] else []
            if tags and tags[pi]:
                t = t + list(tags[pi])
            sc.append([*pieces[pi][:3], orient[j], t])
        scaffolds.append(sc)
    return scaffolds


ALL_ARRANGEMENTS = {k: arrangements(k) for k in (1, 2, 3)}


# --------------------------------------------------------------------------------------------------
# text forms (written here, not with tola.assembly.format)
# --------------------------------------------------------------------------------------------------


def pretext_agp_text(mp):
    out = [
        "##agp-version\t2.1\n",
        "# DESCRIPTION: Generated by PretextView Version 0.2.5\n",
        f"# HiC MAP RESOLUTION: {mp['bpt']:.6f} bp/texel\n",
    ]
    for k, sc in enumerate(mp["scaffolds"], 1):
        name = f"Scaffold_{k}"
        p = 0
        n = 0
        for i, (src, start, end, strand, tags) in enumerate(sc):
            if i:
                n += 1
                out.append(f"{name}\t{p + 1}\t{p + PRETEXT_GAP}\t{n}\tU\t{PRETEXT_GAP}\tscaffold\tyes\tproximity_ligation\n")
                p += PRETEXT_GAP
            n += 1
            ln = end - start + 1
            cols = [name, p + 1, p + ln, n, "W", src, start, end, "+" if strand == 1 else "-", *tags]
            # PretextView leaves a stray tab at the end of the line
            out.append("\t".join(str(c) for c in cols) + "\t\n")
            p += ln
    return "".join(out)


def input_agp_text(inp):
    out = ["##agp-version\t2.1\n", "# input assembly\n"]
    for sc in inp:
        p = 0
        for n, r in enumerate(sc["rows"], 1):
            ln = row_len(r)
            if r[0] == "G":
                out.append(f"{sc['name']}\t{p + 1}\t{p + ln}\t{n}\tU\t{ln}\t{r[2]}\tyes\tproximity_ligation\n")
            else:
                s = {1: "+", -1: "-", 0: "?"}[r[4]]
                out.append(f"{sc['name']}\t{p + 1}\t{p + ln}\t{n}\tW\t{r[1]}\t{r[2]}\t{r[3]}\t{s}\n")
            p += ln
    return "".join(out)


def input_tpf_text(inp):
    out = []
    types = {"scaffold": "TYPE-2", "contig": "TYPE-3"}
    for sc in inp:
        for r in sc["rows"]:
            if r[0] == "G":
                out.append(f"GAP\t{types.get(r[2], r[2])}\t{r[1]}\n")
            else:
                out.append(f"?\t{r[1]}:{r[2]}-{r[3]}\t{sc['name']}\t{'PLUS' if r[4] == 1 else 'MINUS'}\n")
    return "".join(out)


def tpf_ok(inp):
    """TPF cannot carry a leading gap, strand 0 or gap types other than scaffold/contig"""
    for sc in inp:
        if sc["rows"][0][0] == "G":
            return False
        for r in sc["rows"]:
            if r[0] == "G" and r[2] not in ("scaffold", "contig"):
                return False
            if r[0] == "F" and r[4] == 0:
                return False
    return True


# --------------------------------------------------------------------------------------------------
# driving the real code
# --------------------------------------------------------------------------------------------------


@contextlib.contextmanager
def quiet():
    """the code under test logs through the root logger and click.echo; keep both silent"""
    prev = logging.root.manager.disable
    logging.disable(logging.CRITICAL)
    try:
        with contextlib.redirect_stderr(io.StringIO()), contextlib.redirect_stdout(io.StringIO()):
            yield
    finally:
        logging.disable(prev)


def plain_rows(rows):
    out = []
    for r in rows:
        if hasattr(r, "gap_type"):
            out.append(("G", r.length, r.gap_type))
        else:
            out.append(("F", r.name, r.start, r.end, r.strand, tuple(r.tags)))
    return out


def plain_out(out):
    d = {}
    for key, asm in out.items():
        d[key] = {
            "curated": bool(asm.curated),
            "scaffolds": [
                {
                    "name": sc.name,
                    "rank": sc.rank,
                    "tag": sc.tag,
                    "haplotype": sc.haplotype,
                    "original_name": sc.original_name,
                    "rows": plain_rows(sc.rows),
                }
                for sc in asm.scaffolds
            ],
        }
    return d


class Run:
    """outcome of one pipeline run, as plain data (plus the raw objects for report functions)"""

    def __init__(self):
        self.error = None
        self.stage = None
        self.out = None
        self.cuts = self.breaks = self.joins = None
        self.raw_out = None
        self.build = None

    @property
    def error_text(self):
        e = self.error
        first = str(e).splitlines()[0] if str(e) else ""
        return f"{type(e).__name__}: {first[:160]}"


def build_input(case):
    from tola.assembly.assembly import Assembly
    from tola.assembly.parser import parse_agp, parse_tpf

    from .common import scaffold_from

    via = case.get("via", "objects")
    inp = case["input"]
    if via == "agp":
        return parse_agp(io.StringIO(input_agp_text(inp)), "in")
    if via == "tpf":
        return parse_tpf(io.StringIO(input_tpf_text(inp)), "in")
    asm = Assembly("in")
    for sc in inp:
        asm.add_scaffold(scaffold_from(sc["name"], sc["rows"]))
    return asm


def build_pretext(case):
    from tola.assembly.assembly import Assembly
    from tola.assembly.fragment import Fragment
    from tola.assembly.gap import Gap
    from tola.assembly.parser import parse_agp
    from tola.assembly.scaffold import Scaffold

    mp = case["map"]
    if case.get("via", "objects") != "objects":
        return parse_agp(io.StringIO(pretext_agp_text(mp)), "pretext")
    asm = Assembly("pretext", bp_per_texel=mp["bpt"])
    for k, sc in enumerate(mp["scaffolds"], 1):
        ps = Scaffold(f"Scaffold_{k}")
        for i, (src, start, end, strand, tags) in enumerate(sc):
            if i:
                ps.add_row(Gap(PRETEXT_GAP, "scaffold"))
            ps.add_row(Fragment(src, start, end, strand, tuple(tags)))
        asm.add_scaffold(ps)
    return asm


def run_case(case):
    from tola.assembly.build_assembly import BuildAssembly
    from tola.assembly.gap import Gap
    from tola.assembly.indexed_assembly import IndexedAssembly

    run = Run()
    with quiet():
        try:
            run.stage = "parse"
            asm = build_input(case)
            prtxt = build_pretext(case)
            run.stage = "index"
            input_asm = IndexedAssembly.new_from_assembly(asm)
            build = BuildAssembly("x", default_gap=Gap(200, "scaffold"), autosome_prefix=case.get("prefix", "SUPER_"))
            run.build = build
            run.stage = "remap"
            build.remap_to_input_assembly(prtxt, input_asm)
            run.stage = "fuse"
            out = build.assemblies_with_scaffolds_fused()
            run.stage = "done"
            run.raw_out = out
            run.out = plain_out(out)
            st = build.assembly_stats
            run.cuts, run.breaks, run.joins = st.cuts, st.breaks, st.joins
        except Exception as e:  # noqa: BLE001 - the oracles decide whether an error is allowed
            run.error = e
    return run


def info_yaml(run):
    """write_info_yaml() exactly as the CLI calls it, into a temporary directory that is removed; -> dict"""
    import pathlib

    import yaml

    from tola.assembly.scripts.pretext_to_asm import write_info_yaml

    with tempfile.TemporaryDirectory() as d, quiet():
        out_file = pathlib.Path(d) / "x.1.agp"
        write_info_yaml(out_file, run.build.assembly_stats, run.raw_out, True)
        (yf,) = [p for p in os.listdir(d) if p.endswith(".info.yaml")]
        return yaml.safe_load((pathlib.Path(d) / yf).read_text())


# --------------------------------------------------------------------------------------------------
# case streams
# --------------------------------------------------------------------------------------------------

LENGTHS = (1, 2, 7, 40, 150, 1000)
BPTS = (1.0, 2.5, 10.0, 33.3)
GAP_CHOICES = (None, (1, "contig"), (10, "scaffold"), (20, "scaffold"), (25, "contig"), (200, "scaffold"))
VIAS = ("objects", "agp", "tpf")


def pick_via(inp, i):
    via = VIAS[i % 3]
    if via == "tpf" and not tpf_ok(inp):
        via = "agp"
    return via


def strand_patterns(k):
    pats = [(1,) * k, (-1,) * k]
    if k > 1:
        pats.append(tuple(1 if j % 2 == 0 else -1 for j in range(k)))
        pats.append(tuple(-1 if j % 2 == 0 else 1 for j in range(k)))
    return pats


def single_scaffold_geometries():
    """
    one input scaffold of <= 3 contigs: every length tuple from the length set that keeps the scaffold below
    ~1300 bp, uniform gap choice, four strand patterns, three naming styles (cycled), optional terminal gaps
    """
    geoms = []
    lens = LENGTHS
    i = 0
    for k in (1, 2, 3):
        for lt in itertools.product(lens, repeat=k):
            if sum(lt) > 1300 or (k == 3 and lt.count(1000) > 1):
                continue
            for g in GAP_CHOICES if k > 1 else (None,):
                for sp in strand_patterns(k):
                    i += 1
                    naming = ("own", "fasta", "offset")[i % 3]
                    lead = (7, "scaffold") if i % 11 == 0 else None
                    trail = ((25, "scaffold"), (3, "contig"))[i % 2] if i % 7 == 0 else None
                    geoms.append(
                        make_scaffold("scaffold_1", lt, sp, [g] * (k - 1), naming, lead=lead, trail=trail, tag="1")
                    )
    return geoms


def sample_cut_set(rows, bpt, n, rng, max_cuts, cache):
    """one cut set for a scaffold of n texels: uniformly from ALL cut sets if n <= 14, else boundaries near row ends"""
    if n < 4 or not max_cuts:
        return ()
    if n <= 14:
        key = ("all", n, max_cuts)
        if key not in cache:
            cache[key] = cut_sets(n, max_cuts)
        return rng.choice(cache[key])
    key = ("marks", id(rows), bpt, n)
    if key not in cache:
        cache[key] = interesting_boundaries(rows, bpt, n)
    marks = cache[key]
    for _ in range(20):
        c = rng.randint(1, max_cuts)
        cs = set()
        for _ in range(c):
            cs.add(rng.choice(marks) if marks and rng.random() < 0.85 else rng.randint(2, n - 2))
        cs = tuple(sorted(cs))
        b = [0, *cs, n]
        if all(y - x >= 2 for x, y in itertools.pairwise(b)):
            return cs
    return ()


def scripts_for(inp, bpt, rng, n_scripts, max_cuts=3, roundings=None, painted_p=0.5, uncut_p=0.2):
    """
    `n_scripts` PretextView-model edit scripts (untagged apart from Painted) for the input `inp` at `bpt`:
    per scaffold a rounding and a cut set (uniform over all cut sets if the scaffold has <= 14 texels, else cuts on
    boundaries near row ends), then one arrangement of all pieces (uniform over all arrangements for <= 3 pieces).
    Sub-texel scaffolds are present (ceil) or absent.  Yields (map, [(rounding, cuts | 'absent') per scaffold]).
    """
    cache = {}
    for _ in range(n_scripts):
        pieces = []
        rounds = []
        for sc in inp:
            ln = rows_len(sc["rows"])
            rounding = rng.choice(roundings or ("floor", "ceil"))
            n = texels(ln, bpt, rounding)
            if n < 1 or (Fraction(ln) < bptF(bpt) and rng.random() < 0.5):
                rounds.append((rounding, "absent"))
                continue
            # prefer cut maps: an uncut scaffold one time in five
            cs = () if rng.random() < uncut_p else sample_cut_set(sc["rows"], bpt, n, rng, max_cuts, cache)
            rounds.append((rounding, list(cs)))
            pieces.extend(pieces_of(sc, bpt, rounding, cs))
        if not pieces:
            yield {"bpt": bpt, "scaffolds": []}, rounds
            continue
        k = len(pieces)
        if k <= 3:
            arr = rng.choice(ALL_ARRANGEMENTS[k])
        else:
            arr = random_arrangement(k, rng)
        painted = [rng.random() < painted_p for _ in arr[2]]
        yield {"bpt": bpt, "scaffolds": arrange(pieces, arr, painted)}, rounds


def multi_scaffold_inputs(rng, n, max_scaffolds=3, max_contigs=3, lengths=LENGTHS, clean_ends=False):
    """seeded random inputs of 2..max_scaffolds scaffolds; names scaffold_1.. (outside every generated namespace)"""
    for _ in range(n):
        inp = []
        total = 0
        for si in range(rng.randint(2, max_scaffolds)):
            k = rng.randint(1, max_contigs)
            lt = [rng.choice(lengths) for _ in range(k)]
            if total + sum(lt) > 2600:
                lt = [min(x, 150) for x in lt]
            total += sum(lt)
            naming = rng.choice(("own", "fasta", "offset"))
            gaps = [rng.choice(GAP_CHOICES) for _ in range(k - 1)]
            sp = [rng.choice((1, -1)) for _ in range(k)]
            lead = (rng.choice((3, 30)), "scaffold") if not clean_ends and rng.random() < 0.08 else None
            trail = (rng.choice((3, 30)), "scaffold") if not clean_ends and rng.random() < 0.12 else None
            inp.append(make_scaffold(f"scaffold_{si + 1}", lt, sp, gaps, naming, lead=lead, trail=trail, tag=str(si + 1)))
        yield inp


def subtexel_run_inputs(rng, n):
    """
    one scaffold with a run of contigs shorter than a texel next to long ones (4-6 contigs) plus an untouched
    second scaffold: the geometry in which several overlap results share short terminal contigs
    """
    for _ in range(n):
        k = rng.randint(4, 6)
        lt = [rng.choice((1, 2, 7, 7, 12)) for _ in range(k)]
        for j in rng.sample(range(k), rng.randint(1, 2)):
            lt[j] = rng.choice((40, 150, 400))
        gaps = [rng.choice((None, (1, "contig"), (10, "scaffold"), (10, "scaffold"))) for _ in range(k - 1)]
        sp = [rng.choice((1, 1, -1)) for _ in range(k)]
        inp = [make_scaffold("scaffold_1", lt, sp, gaps, rng.choice(("own", "fasta", "offset")), tag="1")]
        if rng.random() < 0.5:
            inp.append(make_scaffold("scaffold_2", [rng.choice((7, 40, 150))], None, None, "own", tag="2"))
        yield inp


def model_cases(tier, rng, painted_p=0.5):
    """
    The shared stream of PretextView-model cases (untagged apart from Painted).  Yields (family, case, info).
      single    one scaffold, <= 3 contigs, every length tuple (see single_scaffold_geometries) x 4 texel sizes,
                `m` seeded scripts each (all cut sets when <= 14 texels)
      subtexel  runs of sub-texel contigs next to long ones, 2-3 cuts
      multi     2-3 scaffolds x <= 3 contigs, seeded, cut / permuted / reoriented / regrouped
    """
    quick = tier == "quick"
    geoms = single_scaffold_geometries()
    m = 1 if quick else 6
    i = 0
    # quick: every geometry at one texel size (rotating), thorough: at every texel size
    for gi, sc in enumerate(geoms):
        bpts = [BPTS[(gi + j) % 4] for j in range(1 if quick else 4)]
        for bpt in bpts:
            inp = [sc]
            for mp, rounds in scripts_for(inp, bpt, rng, m, painted_p=painted_p):
                i += 1
                yield "single", {"input": inp, "map": mp, "prefix": "SUPER_", "via": pick_via(inp, i)}, rounds
    for inp in subtexel_run_inputs(rng, 700 if quick else 12000):
        bpt = rng.choice((10.0, 10.0, 33.3, 2.5))
        for mp, rounds in scripts_for(inp, bpt, rng, 2, painted_p=painted_p):
            i += 1
            yield "subtexel", {"input": inp, "map": mp, "prefix": "SUPER_", "via": pick_via(inp, i)}, rounds
    for inp in multi_scaffold_inputs(rng, 700 if quick else 15000):
        bpt = rng.choice(BPTS)
        for mp, rounds in scripts_for(inp, bpt, rng, 2, max_cuts=2, painted_p=painted_p):
            i += 1
            yield "multi", {"input": inp, "map": mp, "prefix": "SUPER_", "via": pick_via(inp, i)}, rounds


# --------------------------------------------------------------------------------------------------
# exhaustive tiny scope
# --------------------------------------------------------------------------------------------------


def tiny_scopes(tier, wide=False):
    """
    the fully enumerated scopes of a tier as keyword sets for tiny_exhaustive().  `wide` (C02) uses contigs long
    enough to have an interior beyond the 3 x (1 + floor(bpt)) margin.
    """
    if wide:
        if tier == "quick":
            return [dict(lengths=(24,), bpts=(2.5,), max_contigs=2, max_cuts=1, gaps=(None, (5, "scaffold")), painted_options=(False,))]
        return [
            dict(lengths=(1, 7, 24), bpts=(2.5,), max_contigs=2, max_cuts=1, gaps=(None, (5, "scaffold"))),
            dict(lengths=(24,), bpts=(2.5,), max_contigs=2, max_cuts=2, gaps=(None, (5, "scaffold")), painted_options=(True,)),
            dict(lengths=(2, 16), bpts=(1.0,), max_contigs=2, max_cuts=1, gaps=(None, (5, "scaffold"))),
        ]
    if tier == "quick":
        return [dict(lengths=(1, 2, 7), bpts=(2.5,), max_contigs=2, max_cuts=1)]
    return [
        dict(lengths=(1, 2, 7), bpts=(2.5,), max_contigs=3, max_cuts=1),
        dict(lengths=(1, 2, 7), bpts=(2.5,), max_contigs=2, max_cuts=2),
        dict(lengths=(1, 2, 7), bpts=(1.0,), max_contigs=2, max_cuts=1),
    ]


def describe_scopes(scopes):
    return "; ".join(
        f"lengths {list(k['lengths'])}, <= {k['max_contigs']} contigs, texel sizes {list(k['bpts'])}, <= {k['max_cuts']} cuts"
        for k in scopes
    )


def tiny_exhaustive(lengths=(1, 2, 7), bpts=(1.0, 2.5), max_contigs=2, max_cuts=2, gaps=(None, (1, "contig"), (5, "scaffold")), painted_options=(False, True)):
    """
    EVERY case of a tiny scope: one scaffold of <= max_contigs contigs with lengths from `lengths`, both strands per
    contig, one gap choice, own names; every texel size in `bpts`, floor and ceil, every cut set of <= max_cuts
    cuts, every permutation x orientation x grouping, painted or not (all Pretext scaffolds alike).
    """
    for k in range(1, max_contigs + 1):
        for lt in itertools.product(lengths, repeat=k):
            for g in gaps if k > 1 else (None,):
                for sp in itertools.product((1, -1), repeat=k):
                    sc = make_scaffold("scaffold_1", lt, sp, [g] * (k - 1), "own", tag="1")
                    ln = rows_len(sc["rows"])
                    for bpt in bpts:
                        seen_n = set()
                        for rounding in ("floor", "ceil"):
                            n = texels(ln, bpt, rounding)
                            if n < 1 or n in seen_n:
                                continue
                            seen_n.add(n)
                            for cs in cut_sets(n, max_cuts):
                                pcs = pieces_of(sc, bpt, rounding, cs)
                                for arr in arrangements(len(pcs)):
                                    for painted in painted_options:
                                        mp = {"bpt": bpt, "scaffolds": arrange(pcs, arr, [painted] * len(arr[2]))}
                                        yield {"input": [sc], "map": mp, "prefix": "SUPER_", "via": "objects"}


# --------------------------------------------------------------------------------------------------
# perturbed maps (C01, C11): errors allowed, silent loss not
# --------------------------------------------------------------------------------------------------


def perturbations(case, rng, n):
    """n seeded perturbations of a model map: dropped / duplicated / overlapping / out-of-range pieces, junk baits"""
    inp = case["input"]
    base = case["map"]
    names = [s["name"] for s in inp]
    lens = {s["name"]: rows_len(s["rows"]) for s in inp}
    bpt = base["bpt"]
    step = max(1, math.floor(bpt))
    for _ in range(n):
        scs = [[list(p[:4]) + [list(p[4])] for p in sc] for sc in base["scaffolds"]]
        flat = [(i, j) for i, sc in enumerate(scs) for j in range(len(sc))]
        kind = rng.choice(("drop", "dup", "overlap", "range", "junk", "shift", "mix"))
        kinds = [kind] if kind != "mix" else rng.sample(["drop", "dup", "overlap", "range", "junk", "shift"], 2)
        for kd in kinds:
            flat = [(i, j) for i, sc in enumerate(scs) for j in range(len(sc))]
            if kd == "junk" or not flat:
                sc = []
                for _ in range(rng.randint(1, 3)):
                    nm = rng.choice(names + ["nosuch_1"]) if rng.random() < 0.9 else "nosuch_1"
                    top = lens.get(nm, 50) + 3 * step
                    a = rng.randint(-1, top)
                    b = rng.randint(a, top + step) if rng.random() < 0.95 else a - 1
                    sc.append([nm, a, b, rng.choice((1, -1)), rng.choice(([], ["Painted"]))])
                scs.insert(rng.randint(0, len(scs)), sc)
                continue
            i, j = rng.choice(flat)
            p = scs[i][j]
            if kd == "drop":
                del scs[i][j]
            elif kd == "dup":
                q = [p[0], p[1], p[2], rng.choice((1, -1)), list(p[4])]
                ti = rng.randint(0, len(scs))
                if ti == len(scs):
                    scs.append([q])
                else:
                    scs[ti].insert(rng.randint(0, len(scs[ti])), q)
            elif kd == "overlap":
                d = rng.choice((1, step, 2 * step, 5 * step))
                if rng.random() < 0.5:
                    p[1] = max(1, p[1] - d)
                else:
                    p[2] = p[2] + d
            elif kd == "shift":
                d = rng.choice((-2 * step, -step, -1, 1, step, 2 * step))
                p[1] = max(1, p[1] + d)
                p[2] = max(p[1], p[2] + d)
            elif kd == "range":
                ln = lens.get(p[0], 50)
                if rng.random() < 0.5:
                    p[2] = ln + rng.choice((1, step, 10 * step))
                else:
                    p[1] = ln + rng.choice((1, step + 1))
                    p[2] = p[1] + rng.choice((0, step, 4 * step))
        scs = [sc for sc in scs if sc]
        yield {**case, "map": {"bpt": bpt, "scaffolds": scs}}, kinds


# --------------------------------------------------------------------------------------------------
# adjacency vocabulary shared by C07 and C11 (pure data; written from the statements)
# --------------------------------------------------------------------------------------------------


def frag_ends(f):
    """(leading end, trailing end) of a fragment row as it lies in its scaffold; an end is (name, coordinate, 'L'|'R')"""
    lo, hi = (f[1], f[2], "L"), (f[1], f[3], "R")
    return (hi, lo) if f[4] == -1 else (lo, hi)


def junction(prev, nxt):
    """unordered pair of the two facing contig ends"""
    return frozenset((frag_ends(prev)[1], frag_ends(nxt)[0]))


def adjacencies(rows):
    """[(junction, [gap rows between])] for consecutive fragments of one scaffold"""
    out = []
    prev = None
    between = []
    for r in rows:
        if r[0] == "G":
            between.append(r)
            continue
        if prev is not None:
            out.append((junction(prev, r), between, prev, r))
        prev = r
        between = []
    return out


def natural_key(name):
    """numeric-aware name order: digit runs compare as numbers (names with roman numerals are not generated)"""
    parts = re.split(r"(\d+)", name)
    return tuple(int(x) if i % 2 else x for i, x in enumerate(parts))


def case_key(case):
    """hashable identity of a case, for counting distinct cases"""
    return (
        tuple((s["name"], tuple(tuple(x if not isinstance(x, list) else tuple(x) for x in r) for r in s["rows"])) for s in case["input"]),
        case["map"]["bpt"],
        tuple(tuple((p[0], p[1], p[2], p[3], tuple(p[4])) for p in sc) for sc in case["map"]["scaffolds"]),
        case.get("prefix"),
        case.get("via"),
    )


def n_cut_pieces(case):
    return sum(len(sc) for sc in case["map"]["scaffolds"])


# --------------------------------------------------------------------------------------------------
# tagged maps (C09, C10): reading the tags of a map as the documentation describes them
# --------------------------------------------------------------------------------------------------

KNOWN_TAGS = {"Painted", "Target", "Primary", "Contaminant", "Cut", "FalseDuplicate", "Haplotig", "Singleton", "Unloc"}
NAME_DERIVED_HAPLOTYPE = re.compile(r"^([^_]+)_.+_\d+$")  # only used to recognise the KNOWN C09 class, never by an oracle


def read_scaffold_tags(psc):
    """what the tags on the pieces of one Pretext scaffold say about the scaffold as a whole"""
    tags = [t for p in psc for t in p[4]]
    info = {"painted": "Painted" in tags, "target": "Target" in tags, "singleton": "Singleton" in tags, "name_tag": None, "hap": None}
    for t in tags:
        if t in KNOWN_TAGS:
            continue
        if re.fullmatch(r"[A-Z]\d*", t):
            info["name_tag"] = t
        else:
            info["hap"] = t
    return info


def piece_special(piece):
    for t in SPECIAL_TAGS:
        if t in piece[4]:
            return t
    return None


def plan_to_map(plan, bpt, rng):
    """
    plan: [{"painted": bool, "hap": str|None, "name_tag": str|None, "target": bool, "singleton": bool,
            "pieces": [([src, start, end], strand, [piece tags])]}]
    Painted is written on every piece of a painted scaffold (as PretextView does); a haplotype / name / Target tag on
    every piece, only the first, or only the last piece (seeded); Singleton on the first piece.
    """
    scs = []
    for sc in plan:
        k = len(sc["pieces"])
        rows = []
        placement = {}
        for what in ("hap", "name_tag", "target"):
            placement[what] = rng.choice(("all", "first", "last"))
        for i, (pc, strand, ptags) in enumerate(sc["pieces"]):
            t = ["Painted"] if sc.get("painted") else []
            for what, tag in (("hap", sc.get("hap")), ("name_tag", sc.get("name_tag")), ("target", "Target" if sc.get("target") else None)):
                if not tag:
                    continue
                pl = placement[what]
                if pl == "all" or (pl == "first" and i == 0) or (pl == "last" and i == k - 1):
                    t.append(tag)
            if sc.get("singleton") and i == 0:
                t.append("Singleton")
            t.extend(ptags)
            rows.append([pc[0], pc[1], pc[2], strand, t])
        scs.append(rows)
    return {"bpt": bpt, "scaffolds": scs}
