"""
C06 bounded tier: every AGP written is coordinate-valid.

The AGP text is read here by splitting on tabs (bounded/fasta_gen.py: parse_agp_text / check_agp_object) and
the clauses of the statement are checked on it: rows tile each object from 1 with no hole or overlap, part
numbers 1,2,3..., W rows' object span == component span, gap rows' span == stated length, gap rows carry 'U',
linkage 'yes' and a gap type, last object end == Scaffold.length == the sum of the row lengths of the input
rows (own arithmetic) and == the FASTA record length when a FASTA is written beside it; every scaffold
(record) appears, in order.

Sources of AGP text:
  a. format_agp on enumerated assemblies (all strands, tags, gaps of length 0 and of two types, 1-3 scaffolds)
  b. the .agp cache written by FastaIndex.auto_load() / run_indexing next to generated FASTA files (records
     that are all N, that start / end with N, every layout, small buffers)
  c. pretext_to_asm.write_assembly(..., "FASTA", ...) with a small-buffer index: the x.fa / x.agp pair
  d. the pretext-to-asm command with FASTA output (companion .agp against the written .fa; the input cache
     .agp against the input) and with AGP output
  e. the asm-format command reformatting an AGP written here (a share of the assemblies of a.)
  f. format_agp on assemblies whose scaffold objects have a history: "the scaffold's length" of the statement is what
     Scaffold.length (and, summed, Assembly.length) answers at the moment the AGP is written, whatever was done to
     the object before.  A scaffold is taken through every short sequence of the mutators the code base uses -
     add_row(), append_scaffold() with and without a gap, direct edits of .rows (extend, insert, pop, item and slice
     assignment, deletion, rebinding: what OverlapResult's trimming, Scaffold.reverse() and FastaIndex.load_assembly
     do), reverse(), and Assembly.add_scaffold() / edits of .scaffolds - and after every step (or after a chosen
     subset of the steps) the assembly is formatted and measured: the rows written are the rows the object holds now
     (mirrored here in a plain list), the last object end equals their total, equals Scaffold.length read at that
     moment, and the object ends sum to Assembly.length.
  g. the .agp cache beside a FASTA whose content changed: "the .agp cache beside an indexed FASTA" describes the FASTA
     that lies beside it once the tools have loaded it.  Histories of one file name: indexed; replaced by other content;
     then the .fai alone (what `samtools faidx` does), the .agp alone, or neither rewritten for the new content; time
     stamps in the order of the events; then auto_load().  The .agp found beside the FASTA afterwards is measured
     against the records the FASTA holds now, and so is the x.fa / x.agp pair written from the loaded assembly.
"""

import contextlib
import io
import itertools
import os
import pathlib
import random

from tola.assembly.assembly import Assembly
from tola.assembly.format import format_agp
from tola.assembly.scaffold import Scaffold
from tola.fasta.index import FastaIndex
from tola.assembly.scripts.pretext_to_asm import write_assembly

from . import fasta_gen as G
from .common import Collector, row_from, scaffold_from

POOL = [
    ["F", "c1", 1, 1, 1, []],
    ["F", "c1", 5, 12, -1, ["Painted"]],
    ["F", "c2", 100, 1099, 0, []],
    ["F", "c.3", 7, 7, -1, ["Hap2", "Unloc"]],
    ["G", 0, "scaffold"],
    ["G", 1, "scaffold"],
    ["G", 200, "contig"],
]


def close_index(fi):
    fh = fi.__dict__.pop("fasta_fileandle", None)
    if fh is not None:
        fh.close()


def check_agp_against(text, expected, record_lengths=None, code_lengths=None, what="AGP"):
    """
    expected: ordered [(object name, expected length or None, expected row specs or None)]
    record_lengths: {name: FASTA record length} when a FASTA is written beside the AGP
    code_lengths: {name: Scaffold.length as the code reports it}
    """
    objects, msgs = G.parse_agp_text(text)
    msgs = [f"{what}: {m}" for m in msgs]
    got_names = [n for n, _ in objects]
    want_names = [e[0] for e in expected]
    if got_names != want_names:
        missing = [n for n in want_names if n not in got_names]
        msgs.append(f"{what}: objects {got_names[:8]} != scaffolds/records {want_names[:8]}" + (f" (missing: {missing[:5]})" if missing else ""))
    by_name = {e[0]: e for e in expected}
    for name, rows in objects:
        m, end, specs = G.check_agp_object(name, rows)
        msgs += [f"{what}: {x}" for x in m]
        exp = by_name.get(name)
        if exp is not None:
            if exp[1] is not None and end != exp[1]:
                msgs.append(f"{what}: last object end of {name} is {end}, its rows have total length {exp[1]}")
            if exp[2] is not None:
                want_rows = [[*s[:5], list(s[5]) if len(s) > 5 else []] if s[0] == "F" else [s[0], s[1], s[2]] for s in exp[2]]
                if specs != want_rows:
                    msgs.append(f"{what}: rows of {name} read back as {specs[:6]}, assembly has {want_rows[:6]}")
        if code_lengths is not None and name in code_lengths and end != code_lengths[name]:
            msgs.append(f"{what}: last object end of {name} is {end}, Scaffold.length is {code_lengths[name]}")
        if record_lengths is not None:
            if name not in record_lengths:
                msgs.append(f"{what}: object {name} has no record in the FASTA written with it")
            elif end != record_lengths[name]:
                msgs.append(f"{what}: last object end of {name} is {end}, the FASTA record has {record_lengths[name]} residues")
    if record_lengths is not None:
        for name, ln in record_lengths.items():
            if name not in got_names:
                msgs.append(f"{what}: FASTA record {name} ({ln} residues) has no rows in the AGP")
    return msgs


def check_format(scaffolds):
    """a. format_agp on an assembly given as [(name, specs)]"""
    objs = [scaffold_from(n, specs) for n, specs in scaffolds]
    asm = Assembly("a", header=["made by c06", "second header line"], scaffolds=objs)
    out = io.StringIO()
    try:
        format_agp(asm, out)
    except Exception as e:  # noqa: BLE001
        return [f"format_agp raised {e!r}"]
    expected = [(n, sum(G.spec_length(s) for s in specs), specs) for n, specs in scaffolds]
    return check_agp_against(out.getvalue(), expected, code_lengths={sc.name: sc.length for sc in objs}, what="format_agp")


def own_agp_text(scaffolds):
    """AGP text for [(name, specs)] written here, as input for asm-format"""
    sym = {1: "+", -1: "-", 0: "?"}
    lines = ["##agp-version 2.1", "# written by c06"]
    for name, specs in scaffolds:
        pos = 0
        for i, s in enumerate(specs, 1):
            ln = G.spec_length(s)
            if s[0] == "G":
                cols = [name, pos + 1, pos + ln, i, "U", ln, s[2], "yes", "proximity_ligation"]
            else:
                cols = [name, pos + 1, pos + ln, i, "W", s[1], s[2], s[3], sym[s[4]], *s[5]]
            pos += ln
            lines.append("\t".join(map(str, cols)))
    return "\n".join(lines) + "\n"


def check_asm_format(d, scaffolds, to_file):
    """e. asm-format: AGP in -> AGP out (stdout or -o file)"""
    from click.testing import CliRunner

    from tola.assembly.scripts.asm_format import cli as asm_cli

    src = d / "in.agp"
    dst = d / "out.agp"
    src.write_text(own_agp_text(scaffolds))
    try:
        args = [str(src)] + (["-o", str(dst)] if to_file else [])
        res = CliRunner().invoke(asm_cli, args)
        if res.exit_code != 0:
            return [f"asm-format failed on a valid AGP: {res.exception!r}"]
        if to_file:
            import gc

            gc.collect()  # the command does not close its output file itself
            text = dst.read_text()
        else:
            text = res.stdout
        expected = [(n, sum(G.spec_length(s) for s in specs), specs) for n, specs in scaffolds]
        return check_agp_against(text, expected, what="asm-format output")
    finally:
        src.unlink(missing_ok=True)
        dst.unlink(missing_ok=True)


def record_lengths_of(data):
    records, _ = G.parse_written_fasta(data.replace(b"\r\n", b"\n"))
    return {h.split()[0] if h.split() else h: sum(map(len, lines)) for h, lines in records}, [h for h, _ in records]


def check_cache(case, path, bs, warm, may_reject=False):
    """
    b. the .agp written next to a FASTA file by auto_load().  may_reject: the file is not well formed (a record
    name occurs twice), so an error is an allowed outcome - but an .agp that does get written is judged
    """
    case.write(path)
    fi = FastaIndex(path, bs)
    try:
        try:
            fi.auto_load()
            if warm:
                # second object loads what the first one wrote, then rewrites it
                close_index(fi)
                fi = FastaIndex(path, bs)
                fi.auto_load()
                fi.write_assembly()
        except Exception as e:  # noqa: BLE001
            return [] if may_reject else [f"auto_load raised {e!r} on a well-formed FASTA"]
        agp = pathlib.Path(str(path) + ".agp")
        if not agp.exists():
            return ["no .agp cache written next to the FASTA"]
        expected = [(r.name, len(r.seq), None) for r in case.records]
        lengths = {r.name: len(r.seq) for r in case.records}
        code = {sc.name: sc.length for sc in fi.assembly.scaffolds}
        msgs = check_agp_against(agp.read_text(), expected, record_lengths=lengths, code_lengths=code, what=".agp cache")
        if may_reject:
            msgs.sort(key=lambda m: "hole or overlap" not in m)  # the coordinate clause first
        return msgs
    finally:
        close_index(fi)
        G.remove_with_caches(path)


def check_pair(case, d, bs, scaffolds):
    """c. write_assembly(fai, asm, x.fa, 'FASTA'): the pair written side by side"""
    path = d / "in.fa"
    case.write(path)
    fi = FastaIndex(path, bs)
    out_fa = d / "x.fa"
    out_agp = d / "x.agp"
    try:
        fi.auto_load()
        objs = [scaffold_from(n, specs) for n, specs in scaffolds]
        asm = Assembly("x", scaffolds=objs)
        try:
            with contextlib.redirect_stderr(io.StringIO()):  # it reports "Created: ..." on stderr
                write_assembly(fi, asm, out_fa, "FASTA", True)
        except (Exception, SystemExit) as e:  # noqa: BLE001
            return [f"write_assembly raised {e!r}"]
        import gc

        gc.collect()  # the command leaves closing its output files to the garbage collector
        if not out_agp.exists():
            return ["no AGP written beside the FASTA"]
        lengths, _ = record_lengths_of(out_fa.read_bytes())
        expected = [(n, sum(G.spec_length(s) for s in specs), specs) for n, specs in scaffolds]
        return check_agp_against(out_agp.read_text(), expected, record_lengths=lengths, code_lengths={sc.name: sc.length for sc in objs}, what="x.agp beside x.fa")
    finally:
        close_index(fi)
        for p in (out_fa, out_agp):
            p.unlink(missing_ok=True)
        G.remove_with_caches(path)


def check_cli(tmp, case, pretext_text, output):
    """d. -> (messages, number of AGP objects checked); non-zero exit is an allowed outcome"""
    res = G.run_pretext_cli(tmp, case.data(), pretext_text, output=output)
    msgs = []
    n_obj = 0
    # the cache beside the input is written whatever happens later
    if "in.fa.agp" in res["files"]:
        lengths = {r.name: len(r.seq) for r in case.records}
        msgs += check_agp_against(res["files"]["in.fa.agp"].decode(), [(r.name, len(r.seq), None) for r in case.records], record_lengths=lengths, what="in.fa.agp")
        n_obj += len(case.records)
    if res["exception"] or res["exit_code"] != 0:
        return msgs, n_obj
    for name, data in res["files"].items():
        if not (name.startswith("x.") and name.endswith(".agp")):
            continue
        lengths = None
        if output.endswith(".fa"):
            fa = name[: -len(".agp")] + ".fa"
            if fa not in res["files"]:
                msgs.append(f"{name}: no FASTA {fa} beside it")
                continue
            lengths, _ = record_lengths_of(res["files"][fa])
        objects, _ = G.parse_agp_text(data.decode())
        n_obj += len(objects)
        msgs += check_agp_against(data.decode(), [(n, None, None) for n, _ in objects], record_lengths=lengths, what=name)
    return msgs, n_obj


# ---- f. scaffolds with a history
# one step = [mutator, arguments...]; row specs as in POOL
HISTORY_OPS = [
    ["add_row", ["F", "c1", 5, 12, -1, ["Painted"]]],
    ["add_row", ["G", 200, "contig"]],
    ["append_scaffold", [["F", "c2", 100, 1099, 0, []], ["G", 1, "scaffold"], ["F", "c.3", 7, 7, -1, []]], None],
    ["append_scaffold", [["F", "c1", 1, 1, 1, []]], ["G", 100, "scaffold"]],
    ["rows.extend", [["G", 10, "scaffold"], ["F", "c5", 1, 50, 1, []]]],
    ["rows.insert", 0, ["F", "c9", 3, 4, 1, []]],
    ["rows.pop", -1],
    ["rows.pop", 0],
    ["rows[i]=", -1, ["F", "c7", 11, 13, -1, ["Cut"]]],
    ["rows[i:j]=", 1, 3, [["F", "c8", 1, 1000, 1, []]]],
    ["del rows[i:j]", 1, 2],
    ["rows=", [["F", "c4", 1, 10, 1, []], ["G", 5, "scaffold"], ["F", "c4", 16, 40, 1, []]]],
    ["rows+=", [["F", "c6", 2, 3, 0, []]]],
    ["reverse"],
    ["asm.add_scaffold", [["F", "x1", 1, 77, 1, []]]],
    ["asm.scaffolds.insert", 0, [["F", "x2", 1, 5, 1, []], ["G", 3, "scaffold"]]],
    ["asm.scaffolds.pop", 0],
]
HISTORY_STARTS = [
    [],
    [["F", "s1", 1, 300, 1, []], ["G", 200, "scaffold"], ["F", "s1", 501, 800, 1, []]],
]


def reversed_specs(specs):
    """what Scaffold.reverse() denotes: rows in opposite order, each fragment on the other strand (unknown stays unknown)"""
    return [[s[0], s[1], s[2], s[3], -s[4], s[5]] if s[0] == "F" else s for s in specs[::-1]]


def check_history(start, ops, observe):
    """
    f. -> messages.  start: row specs the scaffold is constructed with; ops: steps; observe[i]: format and measure
    after step i (observe[0]: right after construction); the state after the last step is always observed
    """
    model = {"other": [POOL[2], POOL[5]], "Scaffold_1": [*start]}  # name -> row specs, in assembly order
    sc = scaffold_from("Scaffold_1", start)
    asm = Assembly("a", header=["made by c06"], scaffolds=[scaffold_from("other", model["other"]), sc])
    extra = 0
    done = []

    def look():
        out = io.StringIO()
        try:
            format_agp(asm, out)
            code = {x.name: x.length for x in asm.scaffolds}
            asm_length = asm.length
        except Exception as e:  # noqa: BLE001
            return [f"format_agp / length raised {e!r}"]
        expected = [(n, sum(G.spec_length(x) for x in specs), specs) for n, specs in model.items() if specs]
        msgs = check_agp_against(out.getvalue(), expected, code_lengths=code, what="format_agp")
        objects, _ = G.parse_agp_text(out.getvalue())
        ends = sum(int(rows[-1]["cols"][2]) for _, rows in objects)
        if ends != asm_length:
            msgs.append(f"format_agp: the last object ends sum to {ends}, Assembly.length is {asm_length}")
        return msgs

    for i in range(len(ops) + 1):
        if i:
            op = ops[i - 1]
            m = model["Scaffold_1"]
            kind = op[0]
            if kind == "add_row":
                sc.add_row(row_from(op[1]))
                m.append(op[1])
            elif kind == "append_scaffold":
                gap = row_from(op[2]) if op[2] else None
                if gap is not None and m:
                    m.append(op[2])  # "joined with a gap" unless the scaffold is still empty
                sc.append_scaffold(scaffold_from("piece", op[1]), gap)
                m.extend(op[1])
            elif kind == "rows.extend":
                sc.rows.extend(row_from(x) for x in op[1])
                m.extend(op[1])
            elif kind == "rows+=":
                sc.rows += [row_from(x) for x in op[1]]
                m += op[1]
            elif kind == "rows.insert":
                sc.rows.insert(op[1], row_from(op[2]))
                m.insert(op[1], op[2])
            elif kind == "rows.pop":
                if not m:
                    return None  # nothing to remove: not a history
                sc.rows.pop(op[1])
                m.pop(op[1])
            elif kind == "rows[i]=":
                if not m:
                    return None
                sc.rows[op[1]] = row_from(op[2])
                m[op[1]] = op[2]
            elif kind == "rows[i:j]=":
                sc.rows[op[1] : op[2]] = [row_from(x) for x in op[3]]
                m[op[1] : op[2]] = op[3]
            elif kind == "del rows[i:j]":
                del sc.rows[op[1] : op[2]]
                del m[op[1] : op[2]]
            elif kind == "rows=":
                sc.rows = [row_from(x) for x in op[1]]
                m[:] = op[1]
            elif kind == "reverse":
                new = sc.reverse()
                asm.scaffolds[[x is sc for x in asm.scaffolds].index(True)] = new
                sc = new
                m[:] = reversed_specs(m)
            elif kind == "asm.add_scaffold":
                extra += 1
                asm.add_scaffold(scaffold_from(f"extra_{extra}", op[1]))
                model[f"extra_{extra}"] = op[1]
            elif kind == "asm.scaffolds.insert":
                extra += 1
                asm.scaffolds.insert(op[1], scaffold_from(f"extra_{extra}", op[2]))
                model = dict([*list(model.items())[: op[1]], (f"extra_{extra}", op[2]), *list(model.items())[op[1] :]])
            elif kind == "asm.scaffolds.pop":
                if asm.scaffolds[op[1]] is sc or len(asm.scaffolds) < 2:
                    return None
                gone = asm.scaffolds.pop(op[1])
                del model[gone.name]
            else:
                raise ValueError(kind)
            done.append(f"{kind}({op[1]})" if kind == "rows.pop" else kind)
        if i == len(ops) or observe[i]:
            if not model["Scaffold_1"]:
                if i == len(ops):
                    return None  # an object without rows has no lines in an AGP file: nothing to judge
                _ = sc.length, asm.length  # the length is still asked for
                continue
            msgs = look()
            if msgs:
                seen = [j for j in range(i) if observe[j]]
                how = f"scaffold constructed with {len(start)} rows" + (f", then {' -> '.join(done)}" if done else "")
                points = ", ".join("after construction" if j == 0 else f"after step {j}" for j in seen)
                when = f"already formatted and measured {points}; now, after step {i}" if seen else f"formatted and measured for the first time, after step {i}"
                return [f"{how} ({when}): {x}" for x in msgs]
    return []


# ---- g. the cache beside a FASTA that was replaced
HISTORY_T0 = 1_700_000_000


def fai_text(layout):
    return "".join(f"{lay['name']}\t{lay['length']}\t{lay['offset']}\t{lay['line_residues']}\t{lay['line_bytes']}\n" for lay in layout)


def tiling_specs(case):
    """[(record name, row specs of its maximal-run tiling)]"""
    return [(r.name, [["G", t[1], "scaffold"] if t[0] == "G" else ["F", r.name, t[1], t[2], 1, []] for t in G.tiling(r.seq)]) for r in case.records]


def check_replaced(old, case, d, refreshed, bs):
    """old / case: earlier and present content of in.fa; refreshed: "fai" | "agp" | "none" -> messages"""
    path = d / "in.fa"
    fai, agp = pathlib.Path(str(path) + ".fai"), pathlib.Path(str(path) + ".agp")
    out_fa, out_agp = d / "x.fa", d / "x.agp"
    fi = None
    try:
        old.write(path)
        fi = FastaIndex(path, bs)
        try:
            fi.auto_load()
        except Exception as e:  # noqa: BLE001
            return [f"auto_load raised {e!r} on the earlier, well-formed version of the FASTA"]
        close_index(fi)
        for f in (fai, agp):
            os.utime(f, (HISTORY_T0, HISTORY_T0))
        layout = case.write(path)
        os.utime(path, (HISTORY_T0 + 10, HISTORY_T0 + 10))
        if refreshed == "fai":
            fai.write_text(fai_text(layout))
            os.utime(fai, (HISTORY_T0 + 20, HISTORY_T0 + 20))
        elif refreshed == "agp":
            agp.write_text(own_agp_text(tiling_specs(case)))
            os.utime(agp, (HISTORY_T0 + 20, HISTORY_T0 + 20))
        left = {"fai": "the .fai rewritten for the new content (newer than the FASTA), the .agp left from the old content (older)",
                "agp": "the .agp rewritten for the new content (newer than the FASTA), the .fai left from the old content (older)",
                "none": "both cache files left from the old content (older than the FASTA)"}[refreshed]  # fmt: skip
        how = f"FASTA indexed, replaced by other content, {left}, loaded again"
        fi = FastaIndex(path, bs)
        try:
            fi.auto_load()
        except Exception as e:  # noqa: BLE001
            return [f"{how}: auto_load raised {e!r} on a well-formed FASTA"]
        lengths = {r.name: len(r.seq) for r in case.records}
        expected = [(r.name, None, None) for r in case.records]  # lengths: judged against the records, below
        code = {sc.name: sc.length for sc in fi.assembly.scaffolds}
        msgs = check_agp_against(agp.read_text(), expected, record_lengths=lengths, code_lengths=code, what=f"{how}: .agp cache beside the FASTA")
        if msgs:
            return msgs
        try:
            with contextlib.redirect_stderr(io.StringIO()):
                write_assembly(fi, fi.assembly, out_fa, "FASTA", True)
        except (Exception, SystemExit) as e:  # noqa: BLE001
            return [f"{how}: writing the loaded assembly as FASTA raised {e!r}"]
        import gc

        gc.collect()
        if not out_agp.exists():
            return [f"{how}: no AGP written beside the FASTA"]
        written, _ = record_lengths_of(out_fa.read_bytes())
        msgs = check_agp_against(out_agp.read_text(), expected, record_lengths=written, what=f"{how}: x.agp beside x.fa written from the loaded assembly")
        return msgs
    finally:
        if fi is not None:
            close_index(fi)
        for p in (out_fa, out_agp):
            p.unlink(missing_ok=True)
        G.remove_with_caches(path)


def replaced_pairs(quick, rng):
    R = G.Rec
    pairs = [
        (G.FastaCase([R("s1", b"ACGTACGTNNNNACGTACGTAC"), R("s2", b"ttgcaNacg", b" d")], 5, b"\n", True), G.FastaCase([R("s1", b"ACGTNNACGTAC"), R("s2", b"ttgcaacgGGCCNNNNNA", b" d")], 5, b"\n", True)),
        (G.FastaCase([R("s1", b"ACGTNNACGT")], 3, b"\n", True), G.FastaCase([R("s1", b"ACGTNNACGT"), R("s2", b"GGNNNCC")], 3, b"\n", False)),
        (G.FastaCase([R("a", b"ACGTNNACGT"), R("b", b"GGNNNCC"), R("c", b"nnACGT")], 4, b"\r\n", True), G.FastaCase([R("b", b"GGNNNCCA"), R("a", b"ACGTNACGT")], 4, b"\r\n", True)),
        (G.FastaCase([R("old1", b"ACGTACGTAC"), R("old2", b"ACNNNGT")], 60, b"\n", True), G.FastaCase([R("new1", b"NACGTACGTA"), R("new2", b"ACGT"), R("new3", b"TTNAA")], 2, b"\n", True)),
    ]
    for _ in range(0 if quick else 300):
        a, b = G.random_case(rng, max_len=120), G.random_case(rng, max_len=120)
        if rng.random() < 0.5:
            b = G.FastaCase(b.records, a.width, a.eol, a.final_newline)
        pairs.append((a, b))
    return pairs


def history_scripts(max_ops):
    for n in range(1, max_ops + 1):
        yield from itertools.product(range(len(HISTORY_OPS)), repeat=n)


def replay(inp):
    with G.quiet_logging(), G.workdir() as d:
        kind = inp["kind"]
        if kind == "format":
            m = check_format([(n, s) for n, s in inp["scaffolds"]])
        elif kind == "asm-format":
            m = check_asm_format(d, [(n, s) for n, s in inp["scaffolds"]], inp["to_file"])
        elif kind == "history":
            m = check_history(inp["start"], inp["ops"], inp["observe"]) or []
        elif kind == "cache":
            m = check_cache(G.FastaCase.from_spec(inp["case"]), d / "r.fa", inp["buffer"], inp["warm"], inp.get("may_reject", False))
        elif kind == "replaced":
            m = check_replaced(G.FastaCase.from_spec(inp["old"]), G.FastaCase.from_spec(inp["case"]), d, inp["refreshed"], inp["buffer"])
        elif kind == "pair":
            m = check_pair(G.FastaCase.from_spec(inp["case"]), d, inp["buffer"], [(n, s) for n, s in inp["scaffolds"]])
        else:
            if "gen" in inp:
                case, ptxt, _ = G.random_cli_case(random.Random(inp["gen"]), big=True)
            else:
                case, ptxt = G.FastaCase.from_spec(inp["case"]), inp["pretext"]
            m, _ = check_cli(d, case, ptxt, inp["output"])
        return m[0] if m else None


def run(tier, seed, **opts):
    rng = random.Random(seed)
    quick = tier == "quick"
    max_rows = 4 if quick else 5
    max_mask = 6 if quick else 9
    col = Collector(
        f"a. format_agp on every scaffold of 1..{max_rows} rows from a pool of {len(POOL)} (strands +,-,?; tags; gaps of length 0/1/200, two "
        "types) alone and inside 2-3 scaffold assemblies; b. the .agp cache of FASTA files (every ACGT/other mask up to "
        f"{max_mask} residues, all-N records, widths 1..5,60, LF/CRLF, final newline or not, buffers 1,3,250000, cold and warm); c. write_assembly "
        "FASTA+AGP pairs with small buffers (gaps 0..3 buffers+1, minus strands); d. pretext-to-asm runs with FASTA and AGP output; "
        "g. the .agp cache (and the x.fa / x.agp pair written from it) after the FASTA was replaced and the .fai alone / the .agp alone / neither "
        "was rewritten for the new content; one evaluation = one AGP text checked (d: one command run; g: one history); non-trivial = distinct input whose AGP has at least two rows "
        "or a gap or (d) exited 0"
    )
    with G.quiet_logging(), G.workdir() as d:
        # ---- a
        k = 0
        for n in range(1, max_rows + 1):
            for combo in itertools.product(range(len(POOL)), repeat=n):
                k += 1
                rows = [POOL[i] for i in combo]
                scs = [("Scaffold_1", rows)]
                if k % 5 == 0:
                    scs = [("p", [POOL[2], POOL[5]]), ("Scaffold_1", rows), ("SUPER_2_unloc_1", rows[::-1])]
                msgs = check_format(scs)
                inp = {"kind": "format", "scaffolds": scs}
                if msgs:
                    col.fail(msgs[0], inp)
                col.case(("format", k % 5 == 0, combo), nontrivial=n > 1 or rows[0][0] == "G", sample=inp if combo == (1, 6, 2) else None)
                if k % (40 if quick else 15) == 0:
                    to_file = k % 80 == 0
                    msgs = check_asm_format(d, scs, to_file)
                    inp = {"kind": "asm-format", "scaffolds": scs, "to_file": to_file}
                    if msgs:
                        col.fail(msgs[0], inp)
                    col.case(("asm-format", to_file, k % 5 == 0, combo), nontrivial=n > 1)
            if col.full:
                break
        # ---- f
        max_ops = 2 if quick else 4  # 4 steps: from the 3-row scaffold, measured after every step only
        n_hist = 0

        def history(start, ops, observe, sample=False):
            nonlocal n_hist
            msgs = check_history(start, ops, observe)
            if msgs is None:
                return
            n_hist += 1
            inp = {"kind": "history", "start": start, "ops": ops, "observe": observe}
            if msgs:
                col.fail(msgs[0], inp)
            col.case(("history", len(start), repr(ops), tuple(observe)), sample=inp if sample else None)

        limit_f = len(col.failures) + 6
        for si, start in enumerate(HISTORY_STARTS):
            for script in history_scripts(max_ops):
                if col.full or len(col.failures) >= limit_f:
                    break
                if len(script) == 4 and si == 0:
                    break
                ops = [HISTORY_OPS[j] for j in script]
                # measured after every step (a value kept from any earlier moment shows), and only once before the last step
                history(start, ops, [True] * len(ops), sample=script == (2, 6) and si == 1)
                if 1 < len(ops) < 4:
                    history(start, ops, [False] * (len(ops) - 1) + [True])
        for k in range(300 if quick else 20_000):
            if col.full or len(col.failures) >= limit_f:
                break
            ops = [rng.choice(HISTORY_OPS) for _ in range(rng.randint(3, 9))]
            history(rng.choice(HISTORY_STARTS), ops, [rng.random() < 0.5 for _ in ops])
        # ---- b
        path = d / "t.fa"
        n = 0
        for bits in G.masks(max_mask):
            seq = G.seq_from_mask(bits, shift=n)
            for w, eol, fin in G.layouts():
                n += 1
                recs = [G.Rec("s1", seq, G.DESCRIPTIONS[n % len(G.DESCRIPTIONS)])]
                if n % 3 == 0:
                    recs = [G.Rec("allN", b"NnNNn"[: 1 + n % 5])] + recs + [G.Rec("tail", b"nnACGTn")]
                case = G.FastaCase(recs, w, eol, fin)
                bs = (1, 3, 250_000)[n % 3]
                warm = n % 4 == 0
                msgs = check_cache(case, path, bs, warm)
                inp = {"kind": "cache", "case": case.spec(), "buffer": bs, "warm": warm}
                if msgs:
                    col.fail(msgs[0], inp)
                col.case(("cache", case.key(), bs, warm), nontrivial=len(recs) > 1 or len(G.tiling(seq)) > 1, sample=inp if n == 999 else None)
                if col.full:
                    break
            if col.full:
                break
        for k in range(100 if quick else 6000):
            if col.full:
                break
            case = G.random_case(rng, max_len=150 if quick else 400)
            bs = rng.choice((1, 2, 7, case.width, 250_000))
            warm = rng.random() < 0.3
            msgs = check_cache(case, path, bs, warm)
            inp = {"kind": "cache", "case": case.spec(), "buffer": bs, "warm": warm}
            if msgs:
                col.fail(msgs[0], inp)
            col.case(("cache", case.key(), bs, warm))
        # files in which a record name occurs twice (next to each other or not): an error is the expected outcome; what
        # must not happen is an .agp cache in which an object restarts or does not match a record
        dup = [G.Rec("x", b"ACGTNNAC", b" one"), G.Rec("x", b"GGNCC"), G.Rec("y", b"TTTT"), G.Rec("x", b"nACGTACGTACg", b"\tthree")]
        for ri, recs in enumerate(([dup[0], dup[1]], [dup[2], dup[0], dup[1]], [dup[0], dup[1], dup[2]], [dup[0], dup[2], dup[3]], [dup[0], dup[1], dup[3]])):
            for w, eol, fin in G.layouts((3, 60)):
                if col.full:
                    break
                case = G.FastaCase(recs, w, eol, fin)
                bs = (1, 3, 250_000)[(ri + w) % 3]
                msgs = check_cache(case, path, bs, False, may_reject=True)
                inp = {"kind": "cache", "case": case.spec(), "buffer": bs, "warm": False, "may_reject": True}
                if msgs:
                    col.fail(msgs[0] + " (a FASTA file with a repeated record name was accepted)", inp)
                col.case(("cache-dup", case.key(), bs))
        # ---- c
        case = G.FastaCase([G.Rec("s1", b"AcgRtNnYKtGCaa", b" d"), G.Rec("s2", b"NNtTGmcNN")], 4, b"\n", True)
        for bs in range(1, 7 if quick else 12):
            for glen in range(0, 3 * bs + 2):
                for shape in range(3):
                    if shape == 0:
                        scs = [("g", [["G", glen, "scaffold"]])]
                        if glen == 0:
                            continue  # an object without residues: nothing to tile
                    elif shape == 1:
                        scs = [("SUPER_1", [["F", "s1", 2, 13, -1, ["Painted"]], ["G", glen, "scaffold"], ["F", "s2", 3, 7, 1, []]]), ("u", [["F", "s2", 1, 9, 0, []]])]
                    else:
                        scs = [("a", [["F", "s1", 1, 14, 1, []]]), ("b", [["G", glen, "contig"], ["F", "s1", 5, 5, -1, []], ["G", glen, "scaffold"]])]
                    msgs = check_pair(case, d, bs, scs)
                    inp = {"kind": "pair", "case": case.spec(), "buffer": bs, "scaffolds": scs}
                    if msgs:
                        col.fail(msgs[0], inp)
                    col.case(("pair", bs, glen, shape), sample=inp if (bs, glen, shape) == (2, 4, 1) else None)
            if col.full:
                break
        # ---- g
        n_replaced = 0
        limit_g = len(col.failures) + 4
        for pi, (a, b) in enumerate(replaced_pairs(quick, rng)):
            for ri, refreshed in enumerate(("fai", "agp", "none")):
                if col.full or len(col.failures) >= limit_g:
                    break
                bs = (250_000, 3, 1)[(pi + ri) % 3]
                n_replaced += 1
                msgs = check_replaced(a, b, d, refreshed, bs)
                inp = {"kind": "replaced", "old": a.spec(), "case": b.spec(), "refreshed": refreshed, "buffer": bs}
                if msgs:
                    col.fail(msgs[0], inp)
                col.case(("replaced", a.key(), b.key(), refreshed, bs), sample=inp if (pi, ri) == (0, 0) else None)
        # ---- d
        n_cli = 40 if quick else 1500
        for k in range(n_cli):
            if col.full:
                break
            big = k == 1 or (not quick and k % 250 == 1)
            gen = f"c06-{seed}-{k}"
            case, ptxt, _ = G.random_cli_case(random.Random(gen) if big else rng, big=big)
            output = "x.agp" if k % 5 == 4 else "x.fa"
            sub = d / f"cli{k}"
            sub.mkdir()
            msgs, n_obj = check_cli(sub, case, ptxt, output)
            for p in sub.iterdir():
                p.unlink()
            sub.rmdir()
            inp = {"kind": "cli", "gen": gen, "output": output} if big else {"kind": "cli", "case": case.spec(), "pretext": ptxt, "output": output}
            if msgs:
                col.fail(msgs[0], inp)
            col.case(("cli", case.key(), ptxt, output), nontrivial=n_obj > len(case.records), sample=inp if k == 0 else None)
    return col.result(
        bounds=(
            f"a: {len(POOL)}-row pool, scaffolds of 1..{max_rows} rows; b: masks to length {max_mask} x 24 layouts + {100 if quick else 6000} random files; "
            f"c: buffers 1..{6 if quick else 11}, gaps 0..3*buffer+1, 3 assembly shapes; d: {n_cli} command runs (one input with 250000 / 500001 N runs "
            "to cross the command's fixed 250000 buffer)"
            f"; f: {n_hist} histories; g: {n_replaced} replaced-FASTA histories"
        ),
        exhaustive=False,
    )
