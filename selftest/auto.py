"""
python -m selftest.auto <function-name-suffix> [...]   systematic contract-strength test

For every function under contract whose qualified name ends with one of the arguments, every single-point rewrite of
its body from a fixed catalogue (relational operator boundary, == / !=, + / -, and / or, dropped `not`, integer
constant +-1, `while`/`if` test negated) is installed in memory (never in /repo) and the function is verified
against its unchanged contract.  A rewrite that still verifies ("survivor") is either equivalent to the original
for every input the precondition admits, or shows a contract that does not pin the behaviour down.  Survivors are
listed for a human to look at; nothing here decides a property.
"""

import ast
import copy
import multiprocessing as mp
import sys
import time

SWAP_CMP = {ast.Lt: ast.LtE, ast.LtE: ast.Lt, ast.Gt: ast.GtE, ast.GtE: ast.Gt, ast.Eq: ast.NotEq, ast.NotEq: ast.Eq}
SWAP_BIN = {ast.Add: ast.Sub, ast.Sub: ast.Add}


def mutants_of(fn):
    """(description, mutated copy of fn) for every catalogue rewrite of one node of fn"""
    nodes = list(ast.walk(fn))
    out = []
    for idx, n in enumerate(nodes):
        if isinstance(n, ast.Compare) and len(n.ops) == 1 and type(n.ops[0]) in SWAP_CMP:
            out.append((idx, "cmp", lambda m: setattr(m, "ops", [SWAP_CMP[type(m.ops[0])]()])))
        if isinstance(n, ast.BinOp) and type(n.op) in SWAP_BIN:
            out.append((idx, "arith", lambda m: setattr(m, "op", SWAP_BIN[type(m.op)]())))
        if isinstance(n, ast.BoolOp):
            out.append((idx, "bool", lambda m: setattr(m, "op", ast.Or() if isinstance(m.op, ast.And) else ast.And())))
        if isinstance(n, ast.Constant) and isinstance(n.value, int) and not isinstance(n.value, bool) and -2 <= n.value <= 3:
            out.append((idx, "const+1", lambda m: setattr(m, "value", m.value + 1)))
            out.append((idx, "const-1", lambda m: setattr(m, "value", m.value - 1)))
        if isinstance(n, ast.UnaryOp) and isinstance(n.op, ast.Not):
            out.append((idx, "unnot", None))
        if isinstance(n, (ast.If, ast.While)):
            out.append((idx, "negtest", lambda m: setattr(m, "test", ast.UnaryOp(op=ast.Not(), operand=m.test))))
    res = []
    for idx, kind, edit in out:
        f2 = copy.deepcopy(fn)
        m = list(ast.walk(f2))[idx]
        before = ast.unparse(m if not isinstance(m, (ast.If, ast.While)) else m.test)
        if kind == "unnot":
            # replace `not x` by `x` in its parent
            for parent in ast.walk(f2):
                for field, val in ast.iter_fields(parent):
                    if val is m:
                        setattr(parent, field, m.operand)
                    elif isinstance(val, list) and any(v is m for v in val):
                        setattr(parent, field, [m.operand if v is m else v for v in val])
            after = ast.unparse(m.operand)
        else:
            edit(m)
            after = ast.unparse(m if not isinstance(m, (ast.If, ast.While)) else m.test)
        ast.fix_missing_locations(f2)
        res.append((f"L{getattr(nodes[idx], 'lineno', 0)} {kind}: {before}  ->  {after}", f2))
    return res


def _module_text_with(mi, key, newfn):
    """source text of the module with function `key` ('f' or 'Cls.f') replaced by newfn"""
    tree = copy.deepcopy(mi.tree)
    parts = key.replace("$setter", "").split(".")
    body = tree.body
    if len(parts) == 2:
        cls = next(n for n in body if isinstance(n, ast.ClassDef) and n.name == parts[0])
        body = cls.body
    want_setter = key.endswith("$setter")
    for i, n in enumerate(body):
        if isinstance(n, ast.FunctionDef) and n.name == parts[-1]:
            is_setter = any(ast.unparse(d).endswith(".setter") for d in n.decorator_list)
            if is_setter == want_setter:
                body[i] = newfn
                break
    return ast.unparse(tree)


def _one(args):
    """one rewrite, start to finish in one worker: generate the obligations, solve them in order, stop at the first
    that is not discharged (that is all a 'kill' needs)"""
    q, mod, text, desc, opts = args
    from pyvc import smt, source
    from pyvc.run import _gen as gen

    t0 = time.time()
    source.override(mod, text)
    try:
        rep = gen((q, opts))
    finally:
        source.reset()
    if rep["status"] != "PENDING":
        return q, desc, rep["status"], rep.get("reason", "")[:100], time.time() - t0
    for ob in rep["obligations"]:
        if ob.get("status") != "pending":
            continue
        v = smt.solve_text(ob["smt2"], ob.get("relaxed"), opts["timeout_ms"], opts["cvc5_timeout_ms"], ob.get("noseq"), ob.get("linear"), ob.get("sliced"))
        if v["status"] != "discharged":
            return q, desc, "KILLED", ob["name"].split("::")[-1], time.time() - t0
    return q, desc, "PROVED", "", time.time() - t0


def run(names, opts=None, jobs=16, kinds=None):
    import specs  # noqa: F401
    from pyvc import source
    from pyvc.spec import REGISTRY

    opts = opts or {"timeout_ms": 10000, "cvc5_timeout_ms": 4000}
    targets = [q for q, c in REGISTRY.items() if c.status == "PROVE" and getattr(c, "custom", None) is None and any(q.endswith(n) for n in names)]
    tasks = []
    for q in targets:
        mod, key = source.split_qualname(q)
        mi = source.load(mod, fresh=True)
        if key not in mi.functions:
            continue
        for d, f2 in mutants_of(mi.functions[key]):
            if kinds is None or d.split()[1].rstrip(":") in kinds:
                tasks.append((q, mod, _module_text_with(mi, key, f2), d, opts))
    survivors = []
    stats = {}
    ctx = mp.get_context("fork")
    t0 = time.time()
    with ctx.Pool(jobs) as pool:
        for q, d, status, info, secs in pool.imap_unordered(_one, tasks, chunksize=1):
            st = stats.setdefault(q, [0, 0])
            st[0] += 1
            if status == "PROVED":
                st[1] += 1
                survivors.append((q, d))
                print(f"SURVIVOR {q.split('.', 2)[-1]}: {d}   ({secs:.0f}s)", flush=True)
    for q, (n, sv) in stats.items():
        print(f"{q.split('.', 2)[-1]:55s} rewrites={n:3d} survivors={sv:2d}")
    print(f"{len(tasks)} rewrites, {len(tasks) - len(survivors)} lose an obligation, {len(survivors)} still verify; {time.time() - t0:.0f}s")
    return survivors


if __name__ == "__main__":
    run(sys.argv[1:])
