"""
In-memory mutants of the functions under contract (DESIGN.md 3.8): each is a textual rewrite of the
real source that breaks a property; applied to the parsed module in memory (never to /repo), it must
make at least one obligation of the named function fail (refuted or undecided - never PROVED).
(property, function qualname, module, old text, new text)
"""

IA = "tola.assembly.indexed_assembly"
FR = "tola.assembly.fragment"
SC = "tola.assembly.scaffold"
AS = "tola.assembly.assembly"
OR = "tola.assembly.overlap_result"
FM = "tola.assembly.format"
FIM = "tola.fasta.index"
FI = "tola.fasta.index"
FSM = "tola.fasta.stream"
FS = "tola.fasta.stream"
FO = IA + ".IndexedAssembly.find_overlaps"

MUTANTS = [
    # C12
    ("C12", FO, IA, "while i_ovr <= j_ovr and isinstance(scffld.rows[i_ovr], Gap):", "while isinstance(scffld.rows[i_ovr], Gap):"),
    ("C12", FO, IA, "while i_ovr <= j_ovr and isinstance(scffld.rows[j_ovr], Gap):", "while isinstance(scffld.rows[j_ovr], Gap):"),
    ("C12", FO, IA, "z = m\n", "z = m - 1\n"),
    ("C12", FO, IA, "a = m + 1", "a = m"),
    ("C12", FO, IA, "if scffld_end < bait_start:", "if scffld_end <= bait_start:"),
    ("C12", FO, IA, "elif scffld_start > bait_end:", "elif scffld_start >= bait_end:"),
    ("C12", FO, IA, "overlap_end = idx[j_ovr]", "overlap_end = idx[j_ovr] - 1"),
    ("C12", FO, IA, "if idx[i] < bait_start:", "if idx[i] <= bait_start:"),
    ("C12", FO, IA, "if s_start > bait_end:", "if s_start >= bait_end:"),
    ("C12", FO, IA, "overlaps = scffld.rows[i_ovr : j_ovr + 1]", "overlaps = scffld.rows[i_ovr : j_ovr]"),
    ("C12", FO, IA, "overlap_start = 1 if i_ovr == 0 else 1 + idx[i_ovr - 1]", "overlap_start = 1 if i_ovr == 0 else idx[i_ovr - 1]"),
    ("C12", FO, IA, "j_ovr -= 1", "j_ovr -= 2"),
    ("C12", IA + ".IndexedAssembly.add_scaffold", IA, "end += row.length", "end += 1"),
    ("C12", IA + ".IndexedAssembly.add_scaffold", IA, "idx.append(end)", "idx.append(end - 1)"),
    ("C12", IA + ".IndexedAssembly.add_scaffold", IA, "self._scaffold_index[scffld.name] = idx", "self._scaffold_index[scffld.name] = []"),
    # C19
    ("C19", FR + ".Fragment.overlaps", FR, "self.end >= othr.start and self.start <= othr.end", "self.end > othr.start and self.start <= othr.end"),
    ("C19", FR + ".Fragment.overlap_length", FR, "return ovr_end - ovr_start + 1", "return ovr_end - ovr_start"),
    ("C19", FR + ".Fragment.gap_between", FR, "if gap_start < gap_end:", "if gap_start <= gap_end:"),
    ("C19", FR + ".Fragment.abuts", FR, "self.end + 1 == othr.start or othr.end + 1 == self.start", "self.end + 1 == othr.start"),
    ("C19", FR + ".Fragment.__init__", FR, "if self.start > self.end:", "if self.start > self.end + 1:"),
    ("C19", AS + ".Assembly.find_overlapping_fragments", AS, "for j in range(i + 1, lgth):", "for j in range(i, lgth):"),
    ("C19", AS + ".Assembly.find_overlapping_fragments", AS, "for j in range(i + 1, lgth):", "for j in range(i + 2, lgth):"),
    ("C19", AS + ".Assembly.find_overlapping_fragments", AS, "for i in range(0, lgth):", "for i in range(1, lgth):"),
    ("C19", AS + ".Assembly.find_overlapping_fragments", AS, "compare_func(frags[i], frags[j])", "compare_func(frags[j], frags[i])"),
    ("C19", AS + ".Assembly.find_overlapping_fragments", AS, "if v1[0].overlaps(v2[0]):", "if v1[0].overlaps(v1[0]):"),
    ("C19", AS + ".Assembly.find_overlapping_fragments", AS, "return over_pairs if over_pairs else None", "return over_pairs"),
    ("C19", AS + ".Assembly.find_overlapping_fragments", AS, "frags.extend((x, scffld) for x in scffld.fragments())", "frags.extend((x, self.scaffolds[0]) for x in scffld.fragments())"),
    ("C19", SC + ".Scaffold.fragments", SC, "            if isinstance(row, Fragment):\n                yield row", "            if not isinstance(row, Gap) or row.length == 0:\n                yield row"),
    ("C19", "tola.assembly.scripts.asm_format.report_overlaps", "tola.assembly.scripts.asm_format", 'click.echo(f"\\nOverlap:\\n{s1.name} {f1}\\n{s2.name} {f2}", err=True)', 'click.echo(f"\\nOverlap:\\n{s1.name} {f1}\\n{s2.name} {f2}")'),
    # C11 / C14
    ("C14", FR + ".Fragment.reverse", FR, "-1 * self.strand", "self.strand"),
    ("C11", FR + ".Fragment.junction_tuple", FR, "return othr.name, othr.end, self.name, self.start", "return self.name, self.end, othr.name, othr.start"),
    ("C11", FR + ".Fragment.junction_tuple", FR, "frst, scnd = sorted(((self.name, self.end), (othr.name, othr.end)))", "frst, scnd = (self.name, self.end), (othr.name, othr.end)"),
    ("C11", FR + ".Fragment.junction_tuple", FR, "return frst[1], frst[0], scnd[0], scnd[1]", "return scnd[1], scnd[0], frst[0], frst[1]"),
    ("C14", SC + ".Scaffold.reverse", SC, "new.rows = self.rows[::-1]", "new.rows = self.rows[:]"),
    ("C14", SC + ".Scaffold.reverse", SC, "new.rows[i] = frag.reverse()", "new.rows[i] = frag"),
    ("C07", SC + ".Scaffold.append_scaffold", SC, "if gap and self.rows:", "if gap:"),
    ("C07", SC + ".Scaffold.append_scaffold", SC, "self.add_row(gap)", "pass"),
    ("C18", SC + ".Scaffold.__init__", SC, "self.rows = [*rows]", "self.rows = rows"),
    # C18
    ("C18", OR + ".OverlapResult.discard_start", OR, "self.start += discard.length", "pass"),
    ("C18", OR + ".OverlapResult.discard_start", OR, "self.start += gap.length", "pass"),
    ("C18", OR + ".OverlapResult.discard_end", OR, "self.end -= gap.length", "self.end -= 1"),
    ("C18", OR + ".OverlapResult.discard_end", OR, "while self.rows and isinstance(self.rows[-1], Gap):", "while False:"),
    ("C18", OR + ".OverlapResult.trim_fragment", OR, "start += start_ovr", "start += start_ovr - 1"),
    ("C18", OR + ".OverlapResult.trim_fragment", OR, "if start_ovr > 0 and not keep_start:\n                if trim.strand == 1:", "if start_ovr > 0 and not keep_start:\n                if trim.strand != 1:"),
    ("C18", OR + ".OverlapResult.trim_fragment", OR, "if start_ovr > 0 and not keep_start:", "if not keep_start:"),
    ("C18", OR + ".OverlapResult.trim_fragment", OR, "self.end -= end_ovr", "self.end -= end_ovr - 1"),
    ("C01", OR + ".OverlapResult.trim_fragment", OR, "new = Fragment(trim.name, start, end, trim.strand", "new = Fragment(self.bait.name, start, end, trim.strand"),
    ("C18", OR + ".OverlapResult.start_row_bait_overlap", OR, "start = max(self.bait.start, self.start)", "start = min(self.bait.start, self.start)"),
    ("C18", OR + ".OverlapResult.end_row_bait_overlap", OR, "self.end - self.rows[-1].length + 1,", "self.end - self.rows[-1].length,"),
    ("C02", OR + ".OverlapResult.trim_large_overhangs", OR, "self.start_overhang > err_length", "self.start_overhang >= err_length"),
    ("C02", OR + ".OverlapResult.trim_large_overhangs", OR, "if len(self.rows) == 1 and self.bait.length > err_length:", "if len(self.rows) == 1:"),
    ("C18", OR + ".OverlapResult.overhang_if_start_removed", OR, "start += self.rows[0].length", "start += 0"),
    ("C18", OR + ".OverlapResult.overhang_if_end_removed", OR, "for r in self.rows[-2::-1]:", "for r in self.rows[-1::-1]:"),
    ("C18", OR + ".OverlapResult.fragment_start_if_trimmed", OR, "return frag.start + self.end_overhang", "return frag.start + self.start_overhang"),
    ("C02", OR + ".OverlapResult.to_scaffold", OR, "if self.bait.strand == -1:", "if self.bait.strand == 1:"),
    # C03 / C04 / C13
    ("C03", FI + ".FastaIndex.sequence_bytes", FIM, "fh.seek(info.file_offset + frst_offset + mll * frst_line)", "fh.seek(info.file_offset + frst_offset + rpl * frst_line)"),
    ("C03", FI + ".FastaIndex.sequence_bytes", FIM, "last_whole_line = last_line if last_offset == 0 else last_line - 1", "last_whole_line = last_line - 1 if last_offset == 0 else last_line"),
    ("C03", FI + ".FastaIndex.sequence_bytes", FIM, "last_line = (end - 1) // rpl", "last_line = end // rpl"),
    ("C03", FI + ".FastaIndex.sequence_bytes", FIM, "seq.write(fh.read(rpl - frst_offset))\n            fh.seek(line_end_bytes, 1)", "seq.write(fh.read(rpl - frst_offset))\n            fh.seek(1, 1)"),
    ("C03", FI + ".FastaIndex.sequence_bytes", FIM, "start -= 1  # Switch to Python coordinates", "pass"),
    ("C03", FI + ".FastaIndex.sequence_bytes", FIM, "            if last_offset:\n                seq.write(fh.read(last_offset))", "            seq.write(fh.read(last_offset + 1))"),
    ("C03", FI + ".FastaIndex.fwd_chunks", FIM, "chunk_end = min(end, chunk_start + max_length - 1)\n            yield self.sequence_bytes", "chunk_end = min(end, chunk_start + max_length)\n            yield self.sequence_bytes"),
    ("C13", FI + ".FastaIndex.fwd_chunks", FIM, "chunk_count = 1 + ((end - start) // max_length)", "chunk_count = 1"),
    ("C03", FI + ".FastaIndex.rev_chunks", FIM, "chunk_count = (end - start) // max_length\n", "chunk_count = 1 + (end - start) // max_length\n"),
    ("C14", FI + ".FastaIndex.rev_chunks", FIM, "yield revcomp_bytes_io(self.sequence_bytes(info, chunk_start, chunk_end))", "yield self.sequence_bytes(info, chunk_start, chunk_end)"),
    ("C14", FI + ".FastaIndex.rev_chunks", FIM, "for i in range(chunk_count, -1, -1):", "for i in range(0, chunk_count + 1):"),
    ("C03", FI + ".FastaIndex.get_gap_iter", FIM, "chunk_end = min(length, chunk_start + max_length)", "chunk_end = min(length, chunk_start + max_length - 1)"),
    ("C03", FI + ".FastaIndex.get_gap_iter", FIM, "chunk_count = 1 + (length // max_length)", "chunk_count = length // max_length"),
    ("C13", FI + ".FastaIndex.get_gap_iter", FIM, "chunk_end = min(length, chunk_start + max_length)", "chunk_end = length"),
    ("C14", FI + ".FastaIndex.get_sequence_iter", FIM, "if frag.strand == -1:", "if frag.strand != 1:"),
    ("C03", FS + ".FastaStream.write_scaffold", FSM, "                            want = line_length\n", "                            pass\n"),
    ("C03", FS + ".FastaStream.write_scaffold", FSM, "        if want != line_length:\n            out.write(b\"\\n\")", "        out.write(b\"\\n\")"),
    ("C03", FS + ".FastaStream.write_scaffold", FSM, "want -= len(seq)", "want -= 1"),
    ("C03", FS + ".FastaStream.write_scaffold", FSM, "if isinstance(row, Gap)\n                else fai.get_sequence_iter(row)", "if isinstance(row, Gap)\n                else []"),
    # C06
    ("C06", FM + ".format_agp", FM, "            p += row.length\n", "            pass\n"),
    ("C06", FM + ".format_agp", FM, "str(i + 1),", "str(i),"),
    ("C06", FM + ".format_agp", FM, '"U",', '"N",'),
    ("C06", FM + ".format_agp", FM, "str(row.start),\n                        str(row.end),", "str(row.end),\n                        str(row.start),"),
    ("C06", FM + ".format_agp", FM, 'STRAND_STR = "?", "+", "-"', 'STRAND_STR = "+", "?", "-"'),
    ("C06", FM + ".format_agp", FM, "str(p + row.length),", "str(p + row.length - 1),"),
    ("C06", FM + ".format_agp", FM, '            file.write("\\n")\n\n\ndef format_tpf', '            pass\n\n\ndef format_tpf'),
    # C04: the indexing pass
    ("C04", FI + ".index_fasta_file", FI, "scffld.add_row(Fragment(name, start + 1, end, 1))", "scffld.add_row(Fragment(name, start, end, 1))"),
    ("C04", FI + ".index_fasta_file", FI, "gap_length = start - prev[1]", "gap_length = start - prev[0]"),
    ("C04", FI + ".index_fasta_file", FI, "if rem := seq_length - prev[1]:", "if rem := seq_length - prev[1] - 1:"),
    ("C04", FI + ".index_fasta_file", FI, "seq_length += len(seq_bytes)", "seq_length = len(seq_bytes)"),
    ("C04", FI + ".index_fasta_file", FI, "line_end_bytes = 2 if line[-2] == 13 else 1", "line_end_bytes = 1"),
    ("C04", FI + ".index_fasta_file", FI, "file_offset = fh.tell()", "file_offset = fh.tell() - 1"),
    ("C04", FI + ".index_fasta_file", FI, "residues_per_line + line_end_bytes,", "residues_per_line + 1,"),
    ("C04", FI + ".index_fasta_file", FI, "if idx_dict.get(name):", "if False:"),
    ("C04", FI + ".index_fasta_file", FI, "start = seq_length + m.start()", "start = m.start()"),
    ("C04", FI + ".index_fasta_file", FI, "if start == region_end:", "if region_end is not None and start - region_end <= 1:"),
    ("C04", FI + ".index_fasta_file", FI, "            prev = region\n", "            prev = (start, start)\n"),
    ("C04", FI + ".index_fasta_file", FI, "scffld.add_row(Gap(rem, \"scaffold\"))", "scffld.add_row(Gap(rem, \"contig\"))"),
    ("C13", FI + ".index_fasta_file", FI, "if seq_buffer.tell() > buffer_size:", "if seq_buffer.tell() > 2 * buffer_size:"),
    ("C04", FI + ".index_fasta_file", FI, "                residues_per_line = 0\n", "                residues_per_line = None\n"),
    # C09 / C10: functions that used to be TRUSTED (session 4)
    ("C10", "tola.assembly.build_assembly.BuildAssembly.autosome_prefix$setter", "tola.assembly.build_assembly", "        self.assembly_stats.autosome_prefix = prefix\n", "        pass\n"),
    ("C10", "tola.assembly.build_assembly.BuildAssembly.autosome_prefix", "tola.assembly.build_assembly", "        return self.scaffold_namer.autosome_prefix", "        return self.assembly_stats.autosome_prefix"),
    ("C09", "tola.assembly.build_utils.ChrNamer.__init__", "tola.assembly.build_utils", "        self.chr_prefix = chr_prefix\n", "        self.chr_prefix = chr_prefix or \"SUPER_\"\n"),
    ("C09", "tola.assembly.build_utils.ChrNamer.add_scaffold", "tola.assembly.build_utils", "        self.scaffolds.append((haplotype, scffld))", "        self.scaffolds.append((haplotype, scffld))\n        scffld.haplotype = hap"),
    ("C09", "tola.assembly.build_utils.ChrNamer.add_scaffold", "tola.assembly.build_utils", "        self.scaffolds.append((haplotype, scffld))", "        self.scaffolds.insert(0, (haplotype, scffld))"),
    ("C10", "tola.assembly.build_utils.ChrNamer.add_chr_prefix", "tola.assembly.build_utils", "        if not scffld.name.startswith(prefix):\n            scffld.name = prefix + scffld.name", "        scffld.name = prefix + scffld.name"),
    ("C10", "tola.assembly.build_utils.ChrNamer.add_chr_prefix", "tola.assembly.build_utils", "scffld.name = prefix + scffld.name", "scffld.name = scffld.name + prefix"),
    ("C10", "tola.assembly.build_utils.ScaffoldNamer.__init__", "tola.assembly.build_utils", "        self.haplotig_n = 0\n", "        self.haplotig_n = 1\n"),
    ("C10", "tola.assembly.build_utils.ScaffoldNamer.__init__", "tola.assembly.build_utils", "        self.unloc_scaffolds = []\n", "        self.unloc_scaffolds = self.haplotig_scaffolds\n"),
    ("C09", "tola.assembly.build_utils.ScaffoldNamer.__init__", "tola.assembly.build_utils", "        self.target_tags = False\n", "        self.target_tags = True\n"),
    ("C10", "tola.assembly.build_utils.ScaffoldNamer.rename_by_size", "tola.assembly.build_utils", "            s.name = n\n", "            s.name = n\n        if self.unloc_scaffolds:\n            self.unloc_scaffolds[0].name = names[0]\n"),
    ("C10", "tola.assembly.build_utils.ScaffoldNamer.rename_unlocs_by_size", "tola.assembly.build_utils", "        self.rename_by_size(self.unloc_scaffolds)", "        self.rename_by_size(self.haplotig_scaffolds)"),
    ("C10", "tola.assembly.build_utils.ScaffoldNamer.rename_haplotigs_by_size", "tola.assembly.build_utils", "        self.rename_by_size(self.haplotig_scaffolds)", "        self.rename_by_size(self.haplotig_scaffolds + self.unloc_scaffolds)"),
    ("C18", "tola.assembly.build_utils.StartOverhangPremise.apply", "tola.assembly.build_utils", "        self.scaffold.discard_start()", "        self.scaffold.discard_end()"),
    ("C18", "tola.assembly.build_utils.EndOverhangPremise.apply", "tola.assembly.build_utils", "        self.scaffold.discard_end()", "        self.scaffold.discard_start()"),
    ("C01", "tola.assembly.build_utils.EndOverhangPremise.apply", "tola.assembly.build_utils", "        self.scaffold.discard_end()", "        self.scaffold.discard_end()\n        self.scaffold.discard_end()"),
    ("C01", "tola.assembly.build_utils.OverhangPremise.makes_worse", "tola.assembly.build_utils", "        return not self.improves(err_length)", "        return self.improves(err_length)"),
    ("C01", "tola.assembly.build_utils.FoundFragment.scaffold_count", "tola.assembly.build_utils", "        return len(self.scaffolds)", "        return len(self.scaffolds) - 1"),
    ("C11", "tola.assembly.assembly_stats.AssemblyStats.__init__", "tola.assembly.assembly_stats", "        self.joins = 0\n", "        self.joins = -1\n"),
    ("C11", "tola.assembly.assembly_stats.AssemblyStats.__init__", "tola.assembly.assembly_stats", "        self.cuts = 0\n", "        self.cuts = 1\n"),
]
