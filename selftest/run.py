"""python -m selftest.run [PROPERTY|substring ...]: apply each in-memory mutant, verify, list survivors"""

import sys
import time

import specs  # noqa: F401
from pyvc import source
from pyvc.run import verify_all
from selftest.mutants import MUTANTS


def run(select=(), opts=None, jobs=16):
    opts = opts or {"timeout_ms": 5000, "cvc5_timeout_ms": 0}
    survivors, killed, broken = [], [], []
    for prop, q, mod, old, new in MUTANTS:
        if select and not any(s == prop or s in q for s in select):
            continue
        mi = source.load(mod, fresh=True)
        if old not in mi.text:
            broken.append((prop, q, old, "text not found in the current source"))
            continue
        source.override(mod, mi.text.replace(old, new, 1))
        try:
            rep = verify_all([q], opts, jobs=jobs)[0]
        finally:
            source.reset()
        entry = (prop, q, old.strip()[:50], new.strip()[:40], rep["status"], [o["name"].split("::")[1] for o in rep["obligations"] if o["status"] != "discharged"][:2] or rep.get("reason", "")[:80])
        (survivors if rep["status"] == "PROVED" else killed).append(entry)
    return killed, survivors, broken


if __name__ == "__main__":
    t = time.time()
    killed, survivors, broken = run(sys.argv[1:])
    for e in killed:
        print("killed  ", *e)
    for e in survivors:
        print("SURVIVED", *e)
    for e in broken:
        print("BROKEN  ", *e)
    print(f"{len(killed)} killed, {len(survivors)} survived, {len(broken)} not applicable; {time.time() - t:.0f}s")
