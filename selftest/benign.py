"""
python -m selftest.benign <function-name-suffix> [...]   robustness test: property-preserving rewrites

The counterpart of selftest/auto.py.  Every function under a non-custom contract is rewritten at one node at a time
into something that computes the same thing (mirrored comparison, `x += e` as `x = x + e`, `if c: A else: B` as
`if not c: B else: A`, De Morgan, `a - b` as `a + -b`) and verified against its unchanged contract, with the budgets
of the quick tier.  A rewrite that loses an obligation would be reported as a violation by the escalation rule of
DESIGN.md 3.4 although the property holds: each is listed for a human to look at.  Rewrites that make the contract
inapplicable (the sidecar names a shape that is gone) are undecided by design and only counted.
"""

import ast
import copy
import multiprocessing as mp
import sys
import time

MIRROR = {ast.Lt: ast.Gt, ast.Gt: ast.Lt, ast.LtE: ast.GtE, ast.GtE: ast.LtE, ast.Eq: ast.Eq, ast.NotEq: ast.NotEq}


def _pure(e):
    return all(isinstance(n, (ast.Name, ast.Attribute, ast.Constant, ast.BinOp, ast.UnaryOp, ast.Subscript, ast.Load, ast.operator, ast.unaryop, ast.Slice)) for n in ast.walk(e))


def rewrites_of(fn):
    nodes = list(ast.walk(fn))
    out = []
    for idx, n in enumerate(nodes):
        if isinstance(n, ast.Compare) and len(n.ops) == 1 and type(n.ops[0]) in MIRROR and _pure(n.left) and _pure(n.comparators[0]):
            out.append((idx, "mirror"))
        if isinstance(n, ast.AugAssign) and isinstance(n.target, ast.Name) and isinstance(n.op, (ast.Add, ast.Sub)):
            out.append((idx, "augassign"))
        if isinstance(n, ast.If) and n.orelse and not (len(n.orelse) == 1 and isinstance(n.orelse[0], ast.If)) and not isinstance(n.test, ast.NamedExpr):
            out.append((idx, "swap-branches"))
        if isinstance(n, ast.BoolOp) and len(n.values) == 2 and all(_pure(v) or isinstance(v, ast.Compare) and _pure(v.left) for v in n.values):
            out.append((idx, "demorgan"))
        if isinstance(n, ast.BinOp) and isinstance(n.op, ast.Sub) and _pure(n.left) and _pure(n.right):
            out.append((idx, "sub-as-add"))
    res = []
    for idx, kind in out:
        f2 = copy.deepcopy(fn)
        walk = list(ast.walk(f2))
        m = walk[idx]
        before = ast.unparse(m).split("\n")[0][:70]
        new = None
        if kind == "mirror":
            new = ast.Compare(left=m.comparators[0], ops=[MIRROR[type(m.ops[0])]()], comparators=[m.left])
        elif kind == "augassign":
            new = ast.Assign(targets=[ast.Name(id=m.target.id, ctx=ast.Store())], value=ast.BinOp(left=ast.Name(id=m.target.id, ctx=ast.Load()), op=m.op, right=m.value), lineno=m.lineno)
        elif kind == "swap-branches":
            new = ast.If(test=ast.UnaryOp(op=ast.Not(), operand=m.test), body=m.orelse, orelse=m.body)
        elif kind == "demorgan":
            inner = ast.BoolOp(op=ast.Or() if isinstance(m.op, ast.And) else ast.And(), values=[ast.UnaryOp(op=ast.Not(), operand=v) for v in m.values])
            new = ast.UnaryOp(op=ast.Not(), operand=inner)
        elif kind == "sub-as-add":
            new = ast.BinOp(left=m.left, op=ast.Add(), right=ast.UnaryOp(op=ast.USub(), operand=m.right))
        for parent in walk:
            for field, val in ast.iter_fields(parent):
                if val is m:
                    setattr(parent, field, new)
                elif isinstance(val, list) and any(v is m for v in val):
                    setattr(parent, field, [new if v is m else v for v in val])
        ast.fix_missing_locations(f2)
        res.append((f"L{getattr(nodes[idx], 'lineno', 0)} {kind}: {before}  ->  {ast.unparse(new).split(chr(10))[0][:70]}", f2))
    return res


def _one(args):
    q, mod, text, desc, opts = args
    from pyvc import smt, source
    from pyvc.run import _gen as gen

    t0 = time.time()
    source.override(mod, text)
    try:
        rep = gen((q, opts))
    finally:
        source.reset()
    if rep["status"] != "PENDING":
        return q, desc, rep["status"], rep.get("reason", "")[:100], time.time() - t0
    lost = []
    for ob in rep["obligations"]:
        if ob.get("status") != "pending":
            continue
        v = smt.solve_text(ob["smt2"], ob.get("relaxed"), opts["timeout_ms"], opts["cvc5_timeout_ms"], ob.get("noseq"), ob.get("linear"), ob.get("sliced"))
        if v["status"] != "discharged":
            lost.append(ob["name"].split("::")[-1])
    return q, desc, ("LOST" if lost else "PROVED"), "; ".join(lost)[:200], time.time() - t0


def run(names, opts=None, jobs=16):
    import specs  # noqa: F401
    from pyvc import source
    from pyvc.spec import REGISTRY

    from .auto import _module_text_with

    opts = opts or {"timeout_ms": 20000, "cvc5_timeout_ms": 8000}
    targets = [q for q, c in REGISTRY.items() if c.status == "PROVE" and getattr(c, "custom", None) is None and any(q.endswith(n) for n in names)]
    tasks = []
    for q in targets:
        mod, key = source.split_qualname(q)
        mi = source.load(mod, fresh=True)
        if key not in mi.functions:
            continue
        for d, f2 in rewrites_of(mi.functions[key]):
            tasks.append((q, mod, _module_text_with(mi, key, f2), d, opts))
    counts = {}
    t0 = time.time()
    with mp.get_context("fork").Pool(jobs) as pool:
        for q, d, status, info, secs in pool.imap_unordered(_one, tasks, chunksize=1):
            counts[status] = counts.get(status, 0) + 1
            if status == "LOST":
                print(f"LOST {q.split('.', 2)[-1]}: {d}   [{info}] ({secs:.0f}s)", flush=True)
            elif status != "PROVED":
                print(f"     {status} {q.split('.', 2)[-1]}: {d}   [{info}]", flush=True)
    print(f"{len(tasks)} property-preserving rewrites: {counts}; {time.time() - t0:.0f}s")
    return counts


if __name__ == "__main__":
    run(sys.argv[1:] or [""])
