#!/bin/bash
# tools/run_all.sh [tier]: every registered check on the current tree, one after the other
tier=${1:-quick}
cd /verif
for p in $(python3 -c "import json;print(' '.join(c['property_id'] for c in json.load(open('MANIFEST.json'))['checks']))"); do
  s=$(date +%s)
  out=$(./check $p --tier $tier 2>&1); rc=$?
  e=$(date +%s)
  echo "$p exit=$rc $((e-s))s $(echo "$out" | grep -E '^\[' | cut -c1-160)"
  echo "$out" | grep -E "^(VIOLATION|UNDECIDED|CHECKER)" | cut -c1-300
done
