#!/bin/bash
# tools/bounded_on_variant.sh <seeded-id|none> <bounded.module> [tier]
# Runs one bounded module against a scratch worktree of /repo with the seeded change applied
# (never touches /repo itself).  Prints the number of failures and the first two.
set -e
seed=$1; mod=$2; tier=${3:-quick}
wt=$(mktemp -d /tmp/bwt.XXXXXX)
git -C /repo worktree add -q --detach "$wt" HEAD
trap 'git -C /repo worktree remove --force "$wt" >/dev/null 2>&1; rm -rf "$wt"' EXIT
if [ "$seed" != "none" ]; then git -C "$wt" apply "/verif/seeded/$seed/patch.diff"; fi
PYTHONPATH="$wt/src:/verif" /verif/.venv/bin/python - "$mod" "$tier" <<'PY' 2>&1 | grep -v 'conda.cli'
import sys, json, time, importlib
import tola; assert "/tmp/bwt" in tola.__path__[0] if hasattr(tola, "__path__") else True
mod = importlib.import_module(sys.argv[1]); t = time.time()
r = mod.run(sys.argv[2], 0)
print(f"{sys.argv[1]} tier={sys.argv[2]} evaluations={r['evaluations']} distinct={r['distinct_nontrivial']} failures={len(r['failures'])} wall={time.time()-t:.1f}s")
for f in r["failures"][:2]:
    print("  FAIL", f.get("classes"), f["message"][:300]); print("       input:", json.dumps(f["input"], default=str)[:400])
    again = mod.replay(json.loads(json.dumps(f["input"], default=str)))
    print("       replay ->", (again or "no longer fails")[:200])
PY
