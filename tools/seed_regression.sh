#!/bin/bash
# tools/seed_regression.sh [jobs] [id-pattern]: every stored change of /verif/seeded against a scratch worktree.
# A change with meta.json must make the check of the property it breaks exit 1; a benign-* fixture must leave
# every check it names (benign: all 20) at exit 0.  Prints one line per (change, property) and a summary.
jobs=${1:-4}; pat=${2:-.}
cd /verif
{
for d in seeded/*/; do
  id=$(basename $d)
  echo "$id" | grep -Eq "$pat" || continue
  if [ -f $d/meta.json ]; then
    p=$(python3 -c "import json,sys; m=json.load(open('$d/meta.json')); print(m.get('breaks_property') or m.get('property') or '')")
    b=$(python3 -c "import json; print(1 if json.load(open('$d/meta.json')).get('benign_since') else 0)")
    [ -n "$p" ] && { if [ "$b" = 1 ]; then echo "$id $p 0"; else echo "$id $p 1"; fi; }
  elif [[ $id == benign-* ]]; then
    for p in $(python3 -c "import json; print(' '.join(c['property_id'] for c in json.load(open('MANIFEST.json'))['checks']))" 2>/dev/null); do echo "$id $p 0"; done
  fi
done
} | xargs -P $jobs -L 1 bash -c 'r=$(LINES_MAX=2 COLS=200 tools/variantcheck.sh $0 $1 quick | tr "\n" " "); rc=$(echo "$r" | grep -o "exit=[0-9]*" | cut -d= -f2); if [ "$rc" = "$2" ]; then echo "OK   $0 $1 exit=$rc"; else echo "BAD  $0 $1 exit=$rc expected=$2 :: $r" | cut -c1-500; fi'
