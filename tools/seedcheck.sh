#!/bin/bash
# tools/seedcheck.sh <seeded-id> <property> [tier]: apply a seeded change to /repo, run the check, undo it.
seed=$1; prop=$2; tier=${3:-quick}
cd /verif
if [ -n "$(git -C /repo status --porcelain)" ]; then echo "/repo not clean"; exit 9; fi
git -C /repo apply /verif/seeded/$seed/patch.diff || { echo "apply failed"; exit 9; }
trap 'git -C /repo checkout -- . ; git -C /verif checkout -q -- evidence/'$prop'.json 2>/dev/null' EXIT
out=$(./check $prop --tier $tier 2>&1); rc=$?
echo "$out" | grep -E "^(VIOLATION|UNDECIDED|KNOWN|CHECKER|\[)" | cut -c1-400 | head -8
echo "== $seed on $prop: exit=$rc"
