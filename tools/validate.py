"""python3-vt tools/validate.py: MANIFEST.json, evidence/*.json and properties.jsonl against the schemas in /root/.vp"""
import glob
import json
import sys

import jsonschema

S = "/root/.vp/"
bad = 0
man = json.load(open("/verif/MANIFEST.json"))
try:
    jsonschema.validate(man, json.load(open(S + "MANIFEST.schema.json")))
    print("MANIFEST ok:", len(man["checks"]), "checks,", len(man.get("not_applicable", [])), "not applicable")
except jsonschema.ValidationError as e:
    bad += 1
    print("MANIFEST INVALID:", e.message[:300])
es = json.load(open(S + "EVIDENCE.schema.json"))
for f in sorted(glob.glob("/verif/evidence/*.json")):
    ev = json.load(open(f))
    try:
        jsonschema.validate(ev, es)
    except jsonschema.ValidationError as e:
        bad += 1
        print(f, "INVALID:", e.message[:300])
        continue
    c = ev["coverage"]
    claim = next((k["level_claimed"] for k in man["checks"] if k["property_id"] == ev["property_id"]), "?")
    flag = "" if c["obligations"] == c["discharged"] else "  <-- not all discharged"
    print(f"{ev['property_id']} {ev['tier']:8s} level={str(claim)[:40]} obligations={c['obligations']} discharged={c['discharged']} violations={ev.get('violations')}{flag}")
ids = {json.loads(l)["id"] for l in open("/verif/properties.jsonl")}
claimed = {k["property_id"] for k in man["checks"]} | {n["property_id"] if isinstance(n, dict) else n for n in man.get("not_applicable", [])}
if ids != claimed:
    bad += 1
    print("properties not covered by MANIFEST:", sorted(ids - claimed), "unknown:", sorted(claimed - ids))
sys.exit(1 if bad else 0)
