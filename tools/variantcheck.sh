#!/bin/bash
# tools/variantcheck.sh <seeded-id|path/to/patch.diff|none> <property> [tier]
# Runs the whole check of one property against a scratch worktree of /repo with the change applied.
# /repo itself and /verif/evidence are never touched; several can run side by side.
seed=$1; prop=$2; tier=${3:-quick}
wt=$(mktemp -d /tmp/vwt.XXXXXX)
git -C /repo worktree add -q --detach "$wt" HEAD || exit 9
trap 'git -C /repo worktree remove --force "$wt" >/dev/null 2>&1; rm -rf "$wt"' EXIT
patch=$seed; [ -f "$patch" ] || patch=/verif/seeded/$seed/patch.diff
if [ "$seed" != "none" ]; then git -C "$wt" apply "$patch" || { echo "apply failed"; exit 9; }; fi
out=$(VERIF_REPO="$wt" VERIF_OUT="$wt/.verif_out" /verif/check $prop --tier $tier 2>&1); rc=$?
echo "$out" | grep -E "^(VIOLATION|UNDECIDED|KNOWN|CHECKER|\[)" | cut -c1-${COLS:-400} | head -${LINES_MAX:-8}
if [ -n "${KEEP:-}" ]; then mkdir -p "$KEEP"; cp -r "$wt/.verif_out/." "$KEEP/" 2>/dev/null; fi
echo "== $seed on $prop: exit=$rc"
